import MqttVerif.Conn.Lemmas.Gates
/-!
# C17 — Receive gating by role, and protocol-version auto-detection

Statement (properties.jsonl): a packet kind that MQTT never lets the remote side of this role
send is reported as a protocol error and never delivered or acted upon; a CONNECT or a CONNACK
arriving on an established connection is a protocol error that leaves session state untouched;
a server created with an undetermined version adopts v3.1.1 or v5.0 from the first CONNECT
(rejecting other levels and any other first packet) and from then on behaves exactly like a
server created with that version.

Specification: `Spec.mayReceive`, `Spec.typeImpossible` (`Spec/Gates.lean`).
Model: `processRecvPacket` (one complete frame) and `step cfg s (.recv inp parse)`.
Every theorem holds for **every** state, **every** frame `(fh, data)` and **every** parser
`parse` (the parser stands for arbitrary peer bytes / arbitrary L1 behaviour).
-/
set_option linter.unusedSimpArgs false
set_option linter.unusedVariables false
namespace MqttVerif.Conn
open MqttVerif

/-- a call of `recv` whose input completes a frame `(fh, data)` -/
def Completes (s : St) (inp : List Nat) (pb' : Framing.PB) (fh : Nat) (data rest : List Nat) : Prop :=
  Framing.feed s.pb inp = (pb', some (.complete fh data), rest)

theorem step_recv_complete {cfg : Cfg} {s : St} {inp : List Nat} {pb' fh data rest}
    (parse : Nat → Nat → List Nat → Except Nat Pkt) (h : Completes s inp pb' fh data rest) :
    step cfg s (.recv inp parse) =
      processRecvPacket ⟨cfg, { s with pb := pb' }, []⟩ fh data (fun v => parse v fh data) := by
  unfold Completes at h
  simp only [step, recv, h]

/-! ## (1) the model's gate is the specification's -/

/-- **C17, gate table.**  `can_receive` is `Spec.mayReceive`, for all three roles, every
    version value and every type value. -/
theorem C17_canReceive_eq_spec (cfg : Cfg) (s : St) (t : Nat) :
    canReceive cfg s t = Spec.mayReceive cfg.role s.ver t :=
  canReceive_eq_spec cfg s t

/-! ## (2) a frame the peer may never send -/

/-- one complete frame (within the local Maximum Packet Size) of a type the peer of this role
    may never send: exactly one `NotifyError(ProtocolError)`, nothing else, state untouched —
    whatever the parser would have returned (the frame is never parsed). -/
theorem C17_recv_gate_frame (c : C) (fh : Nat) (data : List Nat) (parse : Nat → Except Nat Pkt)
    (hsz : totalSize data.length ≤ c.s.mpsRecv)
    (hg : Spec.mayReceive c.cfg.role c.s.ver (fh / 16) = false) :
    processRecvPacket c fh data parse = c.err eProtocol := by
  unfold processRecvPacket
  have : ¬ totalSize data.length > c.s.mpsRecv := by omega
  simp [this, canReceive_eq_spec, hg]

/-- **C17, receive gate** at the API: the call of `recv` that completes such a frame yields
    exactly `[NotifyError(ProtocolError)]` — in particular no `NotifyPacketReceived`, no
    response packet, no close request — and the state is unchanged (apart from the frame
    having been consumed from the stream buffer). -/
theorem C17_recv_gate (cfg : Cfg) (s : St) (inp : List Nat)
    (parse : Nat → Nat → List Nat → Except Nat Pkt) (pb' : Framing.PB) (fh : Nat)
    (data rest : List Nat) (hc : Completes s inp pb' fh data rest)
    (hsz : totalSize data.length ≤ s.mpsRecv)
    (hg : Spec.mayReceive cfg.role s.ver (fh / 16) = false) :
    (step cfg s (.recv inp parse)).ev = [.error eProtocol] ∧
    (step cfg s (.recv inp parse)).s = { s with pb := pb' } ∧
    (∀ q, Ev.recv q ∉ (step cfg s (.recv inp parse)).ev) := by
  rw [step_recv_complete parse hc, C17_recv_gate_frame _ fh data _ hsz hg]
  simp

/-- the gate closes exactly the listed cells for Client and Server (so the theorem above is
    about: CONNECT/SUBSCRIBE/UNSUBSCRIBE/PINGREQ and v3.1.1 DISCONNECT/AUTH to a client;
    CONNACK/SUBACK/UNSUBACK/PINGRESP and v3.1.1 AUTH to a server); role Any: none -/
theorem C17_gate_cells (ver t : Nat) :
    (Spec.mayReceive .client ver t = false ↔
      t = 1 ∨ t = 8 ∨ t = 10 ∨ t = 12 ∨ (ver = 4 ∧ (t = 14 ∨ t = 15))) ∧
    (Spec.mayReceive .server ver t = false ↔
      t = 2 ∨ t = 9 ∨ t = 11 ∨ t = 13 ∨ (ver = 4 ∧ t = 15)) ∧
    Spec.mayReceive .any ver t = true := by
  simp [Spec.mayReceive, Spec.tCONNECT, Spec.tCONNACK, Spec.tSUBSCRIBE, Spec.tSUBACK,
    Spec.tUNSUBSCRIBE, Spec.tUNSUBACK, Spec.tPINGREQ, Spec.tPINGRESP, Spec.tDISCONNECT, Spec.tAUTH]
  omega

/-- type values that are no packet of the connection's version (0; above 15; 15 unless v5.0)
    and pass the role gate (always the case for role Any): one `NotifyError(MalformedPacket)`,
    no delivery, state unchanged -/
theorem C17_impossible_type_frame (c : C) (fh : Nat) (data : List Nat) (parse : Nat → Except Nat Pkt)
    (hsz : totalSize data.length ≤ c.s.mpsRecv)
    (hg : Spec.mayReceive c.cfg.role c.s.ver (fh / 16) = true)
    (hi : Spec.typeImpossible c.s.ver (fh / 16) = true) :
    processRecvPacket c fh data parse = c.err eMalformed := by
  unfold processRecvPacket
  have : ¬ totalSize data.length > c.s.mpsRecv := by omega
  simp only [this, if_false, canReceive_eq_spec, hg, Bool.not_true, Bool.false_eq_true]
  simp only [Spec.typeImpossible, Spec.tAUTH, Bool.or_eq_true, beq_iff_eq, decide_eq_true_eq,
    Bool.and_eq_true, bne_iff_ne, ne_eq] at hi
  by_cases h0 : c.s.ver = 0
  · have : ¬ fh / 16 = 1 := by omega
    simp [h0, this]
  · simp only [h0, if_false]
    rcases hi with (h | h) | ⟨h, hv⟩
    · exact dispatchRecv_noType c _ _ (Or.inl h)
    · exact dispatchRecv_noType c _ _ (Or.inr h)
    · rw [h]; exact dispatchRecv_auth c _ hv

theorem C17_impossible_type (cfg : Cfg) (s : St) (inp : List Nat)
    (parse : Nat → Nat → List Nat → Except Nat Pkt) (pb' : Framing.PB) (fh : Nat)
    (data rest : List Nat) (hc : Completes s inp pb' fh data rest)
    (hsz : totalSize data.length ≤ s.mpsRecv)
    (hg : Spec.mayReceive cfg.role s.ver (fh / 16) = true)
    (hi : Spec.typeImpossible s.ver (fh / 16) = true) :
    (step cfg s (.recv inp parse)).ev = [.error eMalformed] ∧
    (step cfg s (.recv inp parse)).s = { s with pb := pb' } := by
  rw [step_recv_complete parse hc, C17_impossible_type_frame _ fh data _ hsz hg hi]
  simp

/-! ## (3) CONNECT / CONNACK on an established connection -/

/-- the session projection of C17: store, used identifiers, the three acknowledgement sets,
    the QoS 2 duplicate filter, the persistence flag -/
def sessionProj (s : St) :=
  (s.store, s.pidMan, s.puback, s.pubrec, s.pubcomp, s.handled, s.needStore)

theorem sessionProj_v5ErrState (s : St) : sessionProj (v5ErrState s) = sessionProj s := by
  unfold v5ErrState sessionProj; split <;> rfl

/-- what the two handlers do with a frame they reject as a protocol error: v3.1.1 — close
    request + error, state untouched; v5.0 — see `v5ErrEvs` / `v5ErrState` -/
def protoErrOutcome (c : C) : C :=
  if c.s.ver = 4 then { c with ev := c.ev ++ [.close, .error eProtocol] }
  else { c with s := v5ErrState c.s, ev := c.ev ++ v5ErrEvs c.s eProtocol }

/-- **C17, CONNECT on a connection that is not idle** (`connecting` or `connected`), version
    4 or 5, role Server/Any: never parsed-and-delivered; the outcome is `protoErrOutcome`. -/
theorem C17_connect_not_idle_frame (c : C) (fh : Nat) (data : List Nat) (parse : Nat → Except Nat Pkt)
    (hsz : totalSize data.length ≤ c.s.mpsRecv) (ht : fh / 16 = 1)
    (hrole : c.cfg.role ≠ .client) (hv : c.s.ver = 4 ∨ c.s.ver = 5)
    (hst : c.s.status ≠ .disconnected) :
    processRecvPacket c fh data parse = protoErrOutcome c := by
  unfold processRecvPacket protoErrOutcome
  have h1 : ¬ totalSize data.length > c.s.mpsRecv := by omega
  have h2 : canReceive c.cfg c.s 1 = true := by
    rw [canReceive_eq_spec]; cases hr : c.cfg.role <;> simp_all [Spec.mayReceive, Spec.tCONNECT,
      Spec.tSUBSCRIBE, Spec.tUNSUBSCRIBE, Spec.tPINGREQ, Spec.tCONNACK, Spec.tSUBACK,
      Spec.tUNSUBACK, Spec.tPINGRESP, Spec.tAUTH]
  have h0 : ¬ c.s.ver = 0 := by omega
  simp only [h1, if_false, ht, h2, Bool.not_true, Bool.false_eq_true, h0, dispatchRecv]
  rcases hv with hv | hv
  · simp only [hv, if_true, prV3Connect, if_pos hst, handleV3Error_eq]
  · have : ¬ c.s.ver = 4 := by omega
    simp only [this, if_false, prV5Connect, if_pos hst, handleV5Error_eq]

/-- **C17, CONNACK on an established connection** (role Client/Any). -/
theorem C17_connack_established_frame (c : C) (fh : Nat) (data : List Nat) (parse : Nat → Except Nat Pkt)
    (hsz : totalSize data.length ≤ c.s.mpsRecv) (ht : fh / 16 = 2)
    (hrole : c.cfg.role ≠ .server) (hv : c.s.ver = 4 ∨ c.s.ver = 5)
    (hst : c.s.status = .connected) :
    processRecvPacket c fh data parse = protoErrOutcome c := by
  unfold processRecvPacket protoErrOutcome
  have h1 : ¬ totalSize data.length > c.s.mpsRecv := by omega
  have h2 : canReceive c.cfg c.s 2 = true := by
    rw [canReceive_eq_spec]; cases hr : c.cfg.role <;> simp_all [Spec.mayReceive, Spec.tCONNECT,
      Spec.tSUBSCRIBE, Spec.tUNSUBSCRIBE, Spec.tPINGREQ, Spec.tCONNACK, Spec.tSUBACK,
      Spec.tUNSUBACK, Spec.tPINGRESP, Spec.tAUTH, Spec.tDISCONNECT]
  have h0 : ¬ c.s.ver = 0 := by omega
  simp only [h1, if_false, ht, h2, Bool.not_true, Bool.false_eq_true, h0, dispatchRecv]
  rcases hv with hv | hv
  · simp only [hv, if_true, prV3Connack, if_pos hst, handleV3Error_eq]
  · have : ¬ c.s.ver = 4 := by omega
    simp only [this, if_false, prV5Connack, if_pos hst, handleV5Error_eq]

/-- the observable content of `protoErrOutcome` for a call starting with no events, on an
    **established** connection: no delivery; the last event is `NotifyError(ProtocolError)`;
    v3.1.1: exactly `[close, error]`; v5.0: timer cancellations, then DISCONNECT(0x82) + close
    + error — or, when even the DISCONNECT exceeds the peer's Maximum Packet Size, close +
    error; the session projection is unchanged; v3.1.1 changes nothing at all, v5.0 only
    `status` and the three timer flags. -/
theorem protoErrOutcome_established (cfg : Cfg) (s : St) (hv : s.ver = 4 ∨ s.ver = 5)
    (hst : s.status = .connected) :
    let o := protoErrOutcome ⟨cfg, s, []⟩
    (∀ q, Ev.recv q ∉ o.ev) ∧
    sessionProj o.s = sessionProj s ∧
    (s.ver = 4 → o.ev = [.close, .error eProtocol] ∧ o.s = s) ∧
    (s.ver = 5 →
      o.ev = cancelEvs s ++
        (if 3 ≤ s.mpsSend then [.send (mkV5Disconnect 0x82) none] else []) ++
        [.close, .error eProtocol] ∧
      o.s = { s with status := .disconnected, sendSet := false, recvSet := false, respSet := false }) := by
  have hrc : errToDisconnectRc eProtocol = 0x82 := by decide
  intro o
  rcases hv with hv | hv
  · have ho : o = ⟨cfg, s, [.close, .error eProtocol]⟩ := by
      show protoErrOutcome ⟨cfg, s, []⟩ = _
      simp only [protoErrOutcome, hv, if_true, List.nil_append]
    rw [ho]
    refine ⟨by simp, rfl, fun _ => ⟨rfl, rfl⟩, fun h => by omega⟩
  · have h4 : ¬ s.ver = 4 := by omega
    have ho : o = ⟨cfg, { s with status := .disconnected, sendSet := false, recvSet := false,
                                  respSet := false },
                   cancelEvs s ++ (if 3 ≤ s.mpsSend then [.send (mkV5Disconnect 0x82) none] else []) ++
                     [.close, .error eProtocol]⟩ := by
      show protoErrOutcome ⟨cfg, s, []⟩ = _
      simp only [protoErrOutcome, if_neg h4, v5ErrEvs, v5ErrState, hst, if_true, hrc, v5DiscFits,
        List.nil_append, decide_eq_true_eq]
    rw [ho]
    refine ⟨?_, rfl, fun h => by omega, fun _ => ⟨rfl, rfl⟩⟩
    intro q hq
    simp only [cancelEvs, List.mem_append] at hq
    rcases hq with (((hq | hq) | hq) | hq) | hq
    all_goals (try split at hq) <;> simp at hq

/-- **C17, `connect_on_established`** at the API -/
theorem C17_connect_on_established (cfg : Cfg) (s : St) (inp : List Nat)
    (parse : Nat → Nat → List Nat → Except Nat Pkt) (pb' : Framing.PB) (fh : Nat)
    (data rest : List Nat) (hc : Completes s inp pb' fh data rest)
    (hsz : totalSize data.length ≤ s.mpsRecv) (ht : fh / 16 = 1)
    (hrole : cfg.role ≠ .client) (hv : s.ver = 4 ∨ s.ver = 5) (hst : s.status = .connected) :
    let o := step cfg s (.recv inp parse)
    (∀ q, Ev.recv q ∉ o.ev) ∧ o.ev.getLast? = some (.error eProtocol) ∧ Ev.close ∈ o.ev ∧
    sessionProj o.s = sessionProj s ∧
    o = protoErrOutcome ⟨cfg, { s with pb := pb' }, []⟩ := by
  intro o
  have ho : o = protoErrOutcome ⟨cfg, { s with pb := pb' }, []⟩ := by
    show step cfg s (.recv inp parse) = _
    rw [step_recv_complete parse hc]
    exact C17_connect_not_idle_frame _ fh data _ hsz ht hrole hv (by simp [hst])
  obtain ⟨a1, a2, a3, a4⟩ := protoErrOutcome_established cfg { s with pb := pb' } hv hst
  rw [ho]
  refine ⟨a1, ?_, ?_, a2, rfl⟩
  · rcases hv with hv | hv
    · rw [(a3 hv).1]; rfl
    · rw [(a4 hv).1]; simp
  · rcases hv with hv | hv
    · rw [(a3 hv).1]; simp
    · rw [(a4 hv).1]; simp

/-- **C17, `connack_on_established`** at the API -/
theorem C17_connack_on_established (cfg : Cfg) (s : St) (inp : List Nat)
    (parse : Nat → Nat → List Nat → Except Nat Pkt) (pb' : Framing.PB) (fh : Nat)
    (data rest : List Nat) (hc : Completes s inp pb' fh data rest)
    (hsz : totalSize data.length ≤ s.mpsRecv) (ht : fh / 16 = 2)
    (hrole : cfg.role ≠ .server) (hv : s.ver = 4 ∨ s.ver = 5) (hst : s.status = .connected) :
    let o := step cfg s (.recv inp parse)
    (∀ q, Ev.recv q ∉ o.ev) ∧ o.ev.getLast? = some (.error eProtocol) ∧ Ev.close ∈ o.ev ∧
    sessionProj o.s = sessionProj s ∧
    o = protoErrOutcome ⟨cfg, { s with pb := pb' }, []⟩ := by
  intro o
  have ho : o = protoErrOutcome ⟨cfg, { s with pb := pb' }, []⟩ := by
    show step cfg s (.recv inp parse) = _
    rw [step_recv_complete parse hc]
    exact C17_connack_established_frame _ fh data _ hsz ht hrole hv hst
  obtain ⟨a1, a2, a3, a4⟩ := protoErrOutcome_established cfg { s with pb := pb' } hv hst
  rw [ho]
  refine ⟨a1, ?_, ?_, a2, rfl⟩
  · rcases hv with hv | hv
    · rw [(a3 hv).1]; rfl
    · rw [(a4 hv).1]; simp
  · rcases hv with hv | hv
    · rw [(a3 hv).1]; simp
    · rw [(a4 hv).1]; simp

/-- while **connecting**: a (second) CONNECT is rejected as well, the state is unchanged and
    nothing is delivered; v3.1.1 `[close, error]`; v5.0 — the library's DISCONNECT is itself
    refused by the send gate (not connected), so the events are two errors and *no* close
    request. -/
theorem C17_connect_while_connecting (cfg : Cfg) (s : St) (inp : List Nat)
    (parse : Nat → Nat → List Nat → Except Nat Pkt) (pb' : Framing.PB) (fh : Nat)
    (data rest : List Nat) (hc : Completes s inp pb' fh data rest)
    (hsz : totalSize data.length ≤ s.mpsRecv) (ht : fh / 16 = 1)
    (hrole : cfg.role ≠ .client) (hv : s.ver = 4 ∨ s.ver = 5) (hst : s.status = .connecting) :
    (step cfg s (.recv inp parse)).s = { s with pb := pb' } ∧
    (step cfg s (.recv inp parse)).ev =
      (if s.ver = 4 then [.close, .error eProtocol]
       else [.error (if 3 ≤ s.mpsSend then eNotAllowed else eTooLarge), .error eProtocol]) := by
  rw [step_recv_complete parse hc,
    C17_connect_not_idle_frame _ fh data _ hsz ht hrole hv (by simp [hst])]
  rcases hv with hv | hv
  · simp [protoErrOutcome, hv]
  · have h4 : ¬ s.ver = 4 := by omega
    simp [protoErrOutcome, h4, v5ErrState, v5ErrEvs, hst, v5DiscFits]

/-- while **not connected** (the normal case is `connecting`): a CONNACK that parses is
    processed and delivered — `NotifyPacketReceived` is the last event; with return/reason code
    0 the connection becomes `connected`. -/
theorem C17_connack_while_connecting (cfg : Cfg) (s : St) (inp : List Nat)
    (parse : Nat → Nat → List Nat → Except Nat Pkt) (pb' : Framing.PB) (fh : Nat)
    (data rest : List Nat) (p : Pkt) (hc : Completes s inp pb' fh data rest)
    (hsz : totalSize data.length ≤ s.mpsRecv) (ht : fh / 16 = 2)
    (hrole : cfg.role ≠ .server) (hv : s.ver = 4 ∨ s.ver = 5) (hst : s.status ≠ .connected)
    (hp : parse s.ver fh data = .ok p) :
    (step cfg s (.recv inp parse)).ev.getLast? = some (.recv p) := by
  rw [step_recv_complete parse hc]
  unfold processRecvPacket
  have h1 : ¬ totalSize data.length > s.mpsRecv := by omega
  have h2 : canReceive cfg { s with pb := pb' } 2 = true := by
    rw [canReceive_eq_spec]; cases hr : cfg.role <;> simp_all [Spec.mayReceive, Spec.tCONNECT,
      Spec.tSUBSCRIBE, Spec.tUNSUBSCRIBE, Spec.tPINGREQ, Spec.tCONNACK, Spec.tSUBACK,
      Spec.tUNSUBACK, Spec.tPINGRESP, Spec.tAUTH, Spec.tDISCONNECT]
  have h0 : ¬ s.ver = 0 := by omega
  simp only [h1, if_false, ht, h2, Bool.not_true, Bool.false_eq_true, h0, dispatchRecv]
  rcases hv with hv | hv
  · rw [hv] at hp; simp [hv, prV3Connack, hst, hp]
  · have : ¬ s.ver = 4 := by omega
    rw [hv] at hp; simp [this, hv, prV5Connack, hst, hp]

/-! ## (4) the undetermined version -/

/-- **C17, first frame on an undetermined connection** (version 0; the role gate passed, i.e.
    role Server/Any for CONNECT).  Any type other than CONNECT: `[MalformedPacket]`, state
    unchanged; CONNECT shorter than 7 bytes: the same; protocol level (byte 6 of the body)
    other than 4/5: `[UnsupportedProtocolVersion]`, state unchanged; level 4 / 5: the version
    is adopted and the frame is handled by the CONNECT handler of that version. -/
theorem C17_undetermined_first_frame (c : C) (fh : Nat) (data : List Nat) (parse : Nat → Except Nat Pkt)
    (h0 : c.s.ver = 0) (hsz : totalSize data.length ≤ c.s.mpsRecv)
    (hg : Spec.mayReceive c.cfg.role 0 (fh / 16) = true) :
    (fh / 16 ≠ 1 → processRecvPacket c fh data parse = c.err eMalformed) ∧
    (fh / 16 = 1 → data.length < 7 → processRecvPacket c fh data parse = c.err eMalformed) ∧
    (fh / 16 = 1 → 7 ≤ data.length → data.getD 6 0 ≠ 4 → data.getD 6 0 ≠ 5 →
      processRecvPacket c fh data parse = c.err eUnsupportedVersion) ∧
    (fh / 16 = 1 → 7 ≤ data.length → data.getD 6 0 = 4 →
      processRecvPacket c fh data parse = prV3Connect { c with s := { c.s with ver := 4 } } (parse 4)) ∧
    (fh / 16 = 1 → 7 ≤ data.length → data.getD 6 0 = 5 →
      processRecvPacket c fh data parse = prV5Connect { c with s := { c.s with ver := 5 } } (parse 5)) := by
  have h1 : ¬ totalSize data.length > c.s.mpsRecv := by omega
  have h2 : canReceive c.cfg c.s (fh / 16) = true := by rw [canReceive_eq_spec, h0]; exact hg
  have key : ∀ (ht : fh / 16 = 1), processRecvPacket c fh data parse =
      (if data.length < 7 then c.err eMalformed
       else if data.getD 6 0 = 4 then prV3Connect { c with s := { c.s with ver := 4 } } (parse 4)
       else if data.getD 6 0 = 5 then prV5Connect { c with s := { c.s with ver := 5 } } (parse 5)
       else c.err eUnsupportedVersion) := by
    intro ht
    rw [ht] at h2
    unfold processRecvPacket
    simp only [h1, if_false, ht, h2, Bool.not_true, Bool.false_eq_true, h0, if_true]
  refine ⟨fun ht => ?_, fun ht hl => ?_, fun ht hl n4 n5 => ?_, fun ht hl e4 => ?_, fun ht hl e5 => ?_⟩
  · unfold processRecvPacket
    simp only [h1, if_false, h2, Bool.not_true, Bool.false_eq_true, h0, if_true, ht]
  · rw [key ht, if_pos hl]
  · rw [key ht, if_neg (by omega), if_neg n4, if_neg n5]
  · rw [key ht, if_neg (by omega), if_pos e4]
  · rw [key ht, if_neg (by omega), if_neg (by omega), if_pos e5]

/-- **C17, adoption = fixed version.**  Processing the first CONNECT (level `v` ∈ {4,5}) on an
    undetermined connection gives *the same context* — state, events — as processing the same
    frame on the connection with `ver := v`. -/
theorem C17_undetermined_adopt_frame (c : C) (fh : Nat) (data : List Nat) (parse : Nat → Except Nat Pkt)
    (v : Nat) (h0 : c.s.ver = 0) (hsz : totalSize data.length ≤ c.s.mpsRecv) (ht : fh / 16 = 1)
    (hrole : c.cfg.role ≠ .client) (hl : 7 ≤ data.length) (hlv : data.getD 6 0 = v)
    (hv : v = 4 ∨ v = 5) :
    processRecvPacket c fh data parse =
      processRecvPacket { c with s := { c.s with ver := v } } fh data parse := by
  have hg : Spec.mayReceive c.cfg.role 0 (fh / 16) = true := by
    rw [ht]; cases hr : c.cfg.role <;> simp_all [Spec.mayReceive, Spec.tCONNECT, Spec.tCONNACK,
      Spec.tSUBACK, Spec.tUNSUBACK, Spec.tPINGRESP, Spec.tAUTH]
  obtain ⟨_, _, _, a4, a5⟩ := C17_undetermined_first_frame c fh data parse h0 hsz hg
  have h1 : ¬ totalSize data.length > c.s.mpsRecv := by omega
  have h2 : ∀ w, canReceive c.cfg { c.s with ver := w } 1 = true := by
    intro w; rw [canReceive_eq_spec]
    cases hr : c.cfg.role <;> simp_all [Spec.mayReceive, Spec.tCONNECT, Spec.tCONNACK,
      Spec.tSUBACK, Spec.tUNSUBACK, Spec.tPINGRESP, Spec.tAUTH]
  rcases hv with hv | hv
  · subst hv
    rw [a4 ht hl hlv]
    conv => rhs; unfold processRecvPacket
    simp [h1, ht, h2, dispatchRecv]
  · subst hv
    rw [a5 ht hl hlv]
    conv => rhs; unfold processRecvPacket
    simp [h1, ht, h2, dispatchRecv]

/-- **C17, `undetermined_first`** at the API. -/
theorem C17_undetermined_first (cfg : Cfg) (s : St) (inp : List Nat)
    (parse : Nat → Nat → List Nat → Except Nat Pkt) (pb' : Framing.PB) (fh : Nat)
    (data rest : List Nat) (hc : Completes s inp pb' fh data rest) (h0 : s.ver = 0)
    (hsz : totalSize data.length ≤ s.mpsRecv)
    (hg : Spec.mayReceive cfg.role 0 (fh / 16) = true) :
    let o := step cfg s (.recv inp parse)
    (fh / 16 ≠ 1 → o.ev = [.error eMalformed] ∧ o.s = { s with pb := pb' }) ∧
    (fh / 16 = 1 → data.length < 7 → o.ev = [.error eMalformed] ∧ o.s = { s with pb := pb' }) ∧
    (fh / 16 = 1 → 7 ≤ data.length → data.getD 6 0 ≠ 4 → data.getD 6 0 ≠ 5 →
      o.ev = [.error eUnsupportedVersion] ∧ o.s = { s with pb := pb' }) ∧
    (fh / 16 = 1 → 7 ≤ data.length → data.getD 6 0 = 4 ∨ data.getD 6 0 = 5 →
      o.s.ver = data.getD 6 0) := by
  intro o
  have ho : o = processRecvPacket ⟨cfg, { s with pb := pb' }, []⟩ fh data (fun v => parse v fh data) :=
    step_recv_complete parse hc
  obtain ⟨a1, a2, a3, a4, a5⟩ :=
    C17_undetermined_first_frame ⟨cfg, { s with pb := pb' }, []⟩ fh data (fun v => parse v fh data)
      h0 hsz hg
  refine ⟨fun ht => ?_, fun ht hl => ?_, fun ht hl n4 n5 => ?_, fun ht hl hv => ?_⟩
  · rw [ho, a1 ht]; exact ⟨rfl, rfl⟩
  · rw [ho, a2 ht hl]; exact ⟨rfl, rfl⟩
  · rw [ho, a3 ht hl n4 n5]; exact ⟨rfl, rfl⟩
  · rcases hv with hv | hv
    · rw [ho, a4 ht hl hv, prV3Connect_ver, hv]
    · rw [ho, a5 ht hl hv, prV5Connect_ver, hv]

/-- **C17, `undetermined_bisim`, the adoption step.**  The call of `recv` that completes the
    first CONNECT (level `v` ∈ {4, 5}) on an undetermined connection returns the *same events*
    and leaves the *same state* as the same call on the connection whose version was `v` from
    the start. -/
theorem C17_undetermined_bisim (cfg : Cfg) (s : St) (inp : List Nat)
    (parse : Nat → Nat → List Nat → Except Nat Pkt) (pb' : Framing.PB) (fh : Nat)
    (data rest : List Nat) (v : Nat) (hc : Completes s inp pb' fh data rest) (h0 : s.ver = 0)
    (hsz : totalSize data.length ≤ s.mpsRecv) (ht : fh / 16 = 1) (hrole : cfg.role ≠ .client)
    (hl : 7 ≤ data.length) (hlv : data.getD 6 0 = v) (hv : v = 4 ∨ v = 5) :
    step cfg s (.recv inp parse) = step cfg { s with ver := v } (.recv inp parse) := by
  have hc' : Completes { s with ver := v } inp pb' fh data rest := hc
  rw [step_recv_complete parse hc, step_recv_complete parse hc']
  exact C17_undetermined_adopt_frame ⟨cfg, { s with pb := pb' }, []⟩ fh data _ v h0 hsz ht hrole hl hlv hv

/-- bisimulation ⇒ trace equivalence: if a relation on states is preserved by every API call
    and related states answer every call with the same events, then related states produce
    the same event lists for **every** sequence of calls (induction on the sequence). -/
theorem trace_equiv_of_bisim (cfg : Cfg) (R : St → St → Prop)
    (hR : ∀ s s' op, R s s' →
      (step cfg s op).ev = (step cfg s' op).ev ∧ R (step cfg s op).s (step cfg s' op).s) :
    ∀ ops s s', R s s' →
      runEvents cfg s ops = runEvents cfg s' ops ∧ R (run cfg s ops) (run cfg s' ops) := by
  intro ops
  induction ops with
  | nil => intro s s' h; exact ⟨rfl, h⟩
  | cons op ops ih =>
    intro s s' h
    obtain ⟨h1, h2⟩ := hR s s' op h
    obtain ⟨h3, h4⟩ := ih _ _ h2
    simp only [runEvents, run]
    exact ⟨by rw [h1, h3], h4⟩

/-- **C17, "from then on behaves exactly like a server created with that version".**  The
    adoption call followed by **any** sequence of API calls (arbitrary sends, arbitrary peer
    bytes with arbitrary parser results, timers, closes, …): the undetermined connection and
    the connection with `ver := v` produce the same events, call by call, and end in the same
    state. -/
theorem C17_undetermined_trace_equiv (cfg : Cfg) (s : St) (inp : List Nat)
    (parse : Nat → Nat → List Nat → Except Nat Pkt) (pb' : Framing.PB) (fh : Nat)
    (data rest : List Nat) (v : Nat) (hc : Completes s inp pb' fh data rest) (h0 : s.ver = 0)
    (hsz : totalSize data.length ≤ s.mpsRecv) (ht : fh / 16 = 1) (hrole : cfg.role ≠ .client)
    (hl : 7 ≤ data.length) (hlv : data.getD 6 0 = v) (hv : v = 4 ∨ v = 5) (ops : List Op) :
    runEvents cfg s (.recv inp parse :: ops) = runEvents cfg { s with ver := v } (.recv inp parse :: ops) ∧
    run cfg s (.recv inp parse :: ops) = run cfg { s with ver := v } (.recv inp parse :: ops) := by
  have hb := C17_undetermined_bisim cfg s inp parse pb' fh data rest v hc h0 hsz ht hrole hl hlv hv
  have := trace_equiv_of_bisim cfg Eq (fun a b op h => by subst h; exact ⟨rfl, rfl⟩) ops
    (step cfg s (.recv inp parse)).s (step cfg { s with ver := v } (.recv inp parse)).s (by rw [hb])
  simp only [runEvents, run]
  refine ⟨?_, this.2⟩
  rw [this.1, hb]

/-- the instance of the property text: a *fresh* undetermined server vs a *fresh* server
    created with version `v` -/
theorem C17_fresh_server_trace_equiv (cfg : Cfg) (inp : List Nat)
    (parse : Nat → Nat → List Nat → Except Nat Pkt) (pb' : Framing.PB) (fh : Nat)
    (data rest : List Nat) (v : Nat) (hc : Completes (St.init cfg 0) inp pb' fh data rest)
    (hsz : totalSize data.length ≤ noLimit) (ht : fh / 16 = 1) (hrole : cfg.role ≠ .client)
    (hl : 7 ≤ data.length) (hlv : data.getD 6 0 = v) (hv : v = 4 ∨ v = 5) (ops : List Op) :
    runEvents cfg (St.init cfg 0) (.recv inp parse :: ops) =
      runEvents cfg (St.init cfg v) (.recv inp parse :: ops) ∧
    run cfg (St.init cfg 0) (.recv inp parse :: ops) = run cfg (St.init cfg v) (.recv inp parse :: ops) :=
  C17_undetermined_trace_equiv cfg (St.init cfg 0) inp parse pb' fh data rest v hc rfl hsz ht hrole hl
    hlv hv ops

/-! ### calls made *before* the first CONNECT is complete

An application configures the connection (`set_auto_pub_response`, …, `acquire`/`register`/
`release` of identifiers, `restore_qos2_publish_handled`) and the CONNECT may arrive in several
pieces.  None of these calls looks at the protocol version, so the undetermined connection and
the fixed-version one stay in lock step (states equal up to `ver`) until the adoption makes
them equal. -/

/-- calls that do not depend on the protocol version; a `recv` qualifies while it does not
    complete a frame -/
def VerFreeOp (s : St) : Op → Prop
  | .setFlag _ _ | .setRespTimeout _ | .setInterval _ | .acquire | .register _ | .release _
  | .restoreHandled _ => True
  | .recv inp _ => (Framing.feed s.pb inp).2.1 = none
  | _ => False

/-- a sequence of version-free calls, from state `s` -/
def PreAdopt (cfg : Cfg) : St → List Op → Prop
  | _, [] => True
  | s, op :: ops => VerFreeOp s op ∧ PreAdopt cfg (step cfg s op).s ops

theorem releasedState_setVer (s : St) (id v : Nat) :
    releasedState { s with ver := v } id = { releasedState s id with ver := v } := by
  unfold releasedState
  show (if isUsed s id = true then _ else _) = _
  split <;> rfl

theorem releasedStateP_setVer (s : St) (id v : Nat) :
    releasedStateP { s with ver := v } id = { releasedStateP s id with ver := v } := by
  unfold releasedStateP
  show (if isUsed s id = true then _ else _) = _
  split
  · rw [releasedState_setVer]
    unfold abandonExchange
    simp only []
    split <;> rfl
  · rfl
macro "fin2" : tactic =>
  `(tactic| (refine ⟨?_, ?_⟩ <;> first | trivial | rfl))

/-- a version-free call commutes with fixing the version -/
theorem step_setVer (cfg : Cfg) (s : St) (v : Nat) (op : Op) (h : VerFreeOp s op) :
    (step cfg { s with ver := v } op).ev = (step cfg s op).ev ∧
    (step cfg { s with ver := v } op).s = { (step cfg s op).s with ver := v } := by
  cases op with
  | setFlag f b => cases f <;> fin2
  | setRespTimeout ms => fin2
  | acquire => fin2
  | register id => fin2
  | restoreHandled ids => fin2
  | release id =>
    simp only [step, releasePacketId_eqP, releasedStateP_setVer]
    fin2
  | setInterval d =>
    simp only [step, setPingreqSendInterval]
    cases d with
    | none => fin2
    | some ms =>
      dsimp only
      by_cases h0 : ms = 0
      · simp only [h0, if_true]
        by_cases h1 : s.sendSet = true
        · simp only [h1, if_true]; fin2
        · simp only [h1, if_false]; fin2
      · simp only [h0, if_false]
        by_cases h1 : s.status = .connected
        · simp only [h1, if_true]; fin2
        · simp only [h1, if_false]; fin2
  | recv inp parse =>
    simp only [VerFreeOp] at h
    simp only [step, recv]
    rcases hf : Framing.feed s.pb inp with ⟨pb', out, rest⟩
    rw [hf] at h
    simp only at h
    subst h
    fin2
  | send _ => exact absurd h (by simp [VerFreeOp])
  | timer _ => exact absurd h (by simp [VerFreeOp])
  | closed => exact absurd h (by simp [VerFreeOp])
  | erase _ => exact absurd h (by simp [VerFreeOp])
  | restorePackets _ => exact absurd h (by simp [VerFreeOp])

theorem preAdopt_setVer (cfg : Cfg) (v : Nat) (ops : List Op) :
    ∀ s, PreAdopt cfg s ops →
      runEvents cfg { s with ver := v } ops = runEvents cfg s ops ∧
      run cfg { s with ver := v } ops = { run cfg s ops with ver := v } ∧
      (run cfg s ops).ver = s.ver := by
  induction ops with
  | nil => intro s _; exact ⟨rfl, rfl, rfl⟩
  | cons op ops ih =>
    intro s h
    obtain ⟨h1, h2⟩ := h
    obtain ⟨e1, e2⟩ := step_setVer cfg s v op h1
    obtain ⟨a1, a2, a3⟩ := ih _ h2
    simp only [runEvents, run]
    rw [e1, e2, a1, a2]
    refine ⟨rfl, rfl, ?_⟩
    rw [a3]
    have := (step_setVer cfg s s.ver op h1).2
    have hs : ({ s with ver := s.ver } : St) = s := rfl
    rw [hs] at this
    rw [this]

theorem run_append (cfg : Cfg) (ops1 ops2 : List Op) :
    ∀ s, run cfg s (ops1 ++ ops2) = run cfg (run cfg s ops1) ops2 := by
  induction ops1 with
  | nil => intro s; rfl
  | cons op ops ih => intro s; simp only [List.cons_append, run]; exact ih _

theorem runEvents_append (cfg : Cfg) (ops1 ops2 : List Op) :
    ∀ s, runEvents cfg s (ops1 ++ ops2) = runEvents cfg s ops1 ++ runEvents cfg (run cfg s ops1) ops2 := by
  induction ops1 with
  | nil => intro s; rfl
  | cons op ops ih => intro s; simp only [List.cons_append, runEvents, run, ih]

/-- **C17, the whole life of an auto-detecting server.**  Any version-free prefix `pre`
    (configuration calls, identifier management, partial frames), then the call that completes
    the first CONNECT with level `v`, then **any** calls `ops`: the connection created
    undetermined and the connection created with version `v` produce the same events call by
    call, and end in the same state. -/
theorem C17_undetermined_session_equiv (cfg : Cfg) (s : St) (pre : List Op) (inp : List Nat)
    (parse : Nat → Nat → List Nat → Except Nat Pkt) (pb' : Framing.PB) (fh : Nat)
    (data rest : List Nat) (v : Nat) (ops : List Op) (h0 : s.ver = 0) (hpre : PreAdopt cfg s pre)
    (hc : Completes (run cfg s pre) inp pb' fh data rest)
    (hsz : totalSize data.length ≤ (run cfg s pre).mpsRecv) (ht : fh / 16 = 1)
    (hrole : cfg.role ≠ .client) (hl : 7 ≤ data.length) (hlv : data.getD 6 0 = v)
    (hv : v = 4 ∨ v = 5) :
    runEvents cfg s (pre ++ .recv inp parse :: ops) =
      runEvents cfg { s with ver := v } (pre ++ .recv inp parse :: ops) ∧
    run cfg s (pre ++ .recv inp parse :: ops) =
      run cfg { s with ver := v } (pre ++ .recv inp parse :: ops) := by
  obtain ⟨a1, a2, a3⟩ := preAdopt_setVer cfg v pre s hpre
  have := C17_undetermined_trace_equiv cfg (run cfg s pre) inp parse pb' fh data rest v hc
    (by rw [a3, h0]) hsz ht hrole hl hlv hv ops
  rw [runEvents_append, runEvents_append, run_append, run_append, a1, a2]
  exact ⟨by rw [this.1], this.2⟩

/-! ## non-vacuity: concrete instances of the hypotheses -/

/-- PINGREQ, and a v5.0 CONNECT (13-byte body: "MQTT", level 5, clean start, keep alive 60) -/
def C17.exPingreq : List Nat := [0xC0, 0]
def C17.exConnect (lvl : Nat) : List Nat := [0x10, 13, 0, 4, 77, 81, 84, 84, lvl, 2, 0, 60, 0, 0, 0]
def C17.exConnectBody (lvl : Nat) : List Nat := [0, 4, 77, 81, 84, 84, lvl, 2, 0, 60, 0, 0, 0]
def C17.exParse : Nat → Nat → List Nat → Except Nat Pkt :=
  fun v fh _ => if fh = 0x10 then .ok { ver := v, kind := .connect, size := 15, keepAlive := 60, clean := true }
                else .error eMalformed

instance (s : St) (inp : List Nat) (pb' : Framing.PB) (fh : Nat) (data rest : List Nat) :
    Decidable (Completes s inp pb' fh data rest) := by unfold Completes; infer_instance

def C17.cliCfg : Cfg := ⟨.client, 2⟩
def C17.srvCfg : Cfg := ⟨.server, 2⟩
def C17.anyCfg : Cfg := ⟨.any, 2⟩
def C17.exCli : St := St.init C17.cliCfg 4
def C17.exAny : St := St.init C17.anyCfg 4
def C17.exStored : Pkt := { ver := 5, kind := .pubrel, pid := some 1 }
def C17.exSrv : St :=
  { St.init C17.srvCfg 5 with status := .connected, needStore := true, store := [(1, C17.exStored)] }
def C17.exUndet : St := St.init C17.srvCfg 0

/-- a v3.1.1 client receives PINGREQ: hypotheses of `C17_recv_gate` and its conclusion -/
example :
    Completes C17.exCli C17.exPingreq {} 0xC0 [] [] ∧ totalSize 0 ≤ C17.exCli.mpsRecv ∧
    Spec.mayReceive .client C17.exCli.ver (0xC0 / 16) = false ∧
    (step C17.cliCfg C17.exCli (.recv C17.exPingreq C17.exParse)).ev = [.error 0x82] := by decide

/-- role Any, v3.1.1, type 15: hypotheses of `C17_impossible_type` -/
example :
    Completes C17.exAny [0xF0, 0] {} 0xF0 [] [] ∧ Spec.mayReceive .any C17.exAny.ver (0xF0 / 16) = true ∧
    Spec.typeImpossible C17.exAny.ver (0xF0 / 16) = true ∧
    (step C17.anyCfg C17.exAny (.recv [0xF0, 0] C17.exParse)).ev = [.error 0x81] := by decide

/-- a connected v5.0 server with a stored packet receives a second CONNECT: hypotheses of
    `C17_connect_on_established`; DISCONNECT(0x82) + close + error, store untouched -/
example :
    Completes C17.exSrv (C17.exConnect 5) {} 0x10 (C17.exConnectBody 5) [] ∧
    totalSize (C17.exConnectBody 5).length ≤ C17.exSrv.mpsRecv ∧
    (step C17.srvCfg C17.exSrv (.recv (C17.exConnect 5) C17.exParse)).ev =
      [.send (mkV5Disconnect 0x82) none, .close, .error 0x82] ∧
    (step C17.srvCfg C17.exSrv (.recv (C17.exConnect 5) C17.exParse)).s.store = C17.exSrv.store := by
  decide

/-- an undetermined server receives CONNECT level 5 / level 4 / level 3 / a PINGREQ:
    hypotheses of `C17_undetermined_first`, `C17_undetermined_bisim`, and the outcomes -/
example :
    Completes C17.exUndet (C17.exConnect 5) {} 0x10 (C17.exConnectBody 5) [] ∧
    (C17.exConnectBody 5).getD 6 0 = 5 ∧ 7 ≤ (C17.exConnectBody 5).length ∧
    (step C17.srvCfg C17.exUndet (.recv (C17.exConnect 5) C17.exParse)).s.ver = 5 ∧
    (step C17.srvCfg C17.exUndet (.recv (C17.exConnect 4) C17.exParse)).s.ver = 4 ∧
    (step C17.srvCfg C17.exUndet (.recv (C17.exConnect 5) C17.exParse)).s.status = .connecting ∧
    (step C17.srvCfg C17.exUndet (.recv (C17.exConnect 3) C17.exParse)).ev = [.error 0x84] ∧
    (step C17.srvCfg C17.exUndet (.recv C17.exPingreq C17.exParse)).ev = [.error 0x81] := by decide

/-- hypotheses of `C17_undetermined_session_equiv`: configuration calls and the first four
    bytes of the CONNECT, then the rest of it -/
def C17.exPre : List Op :=
  [.setFlag .autoPub true, .acquire, .setRespTimeout 5000, .recv [0x10, 13, 0, 4] C17.exParse]
def C17.exRest : List Nat := [77, 81, 84, 84, 5, 2, 0, 60, 0, 0, 0]

example : PreAdopt C17.srvCfg C17.exUndet C17.exPre := by
  refine ⟨trivial, trivial, trivial, ?_, trivial⟩
  show (Framing.feed _ _).2.1 = none
  decide

example :
    Completes (run C17.srvCfg C17.exUndet C17.exPre) C17.exRest {} 0x10 (C17.exConnectBody 5) [] ∧
    (run C17.srvCfg C17.exUndet (C17.exPre ++ [.recv C17.exRest C17.exParse])).ver = 5 ∧
    (run C17.srvCfg C17.exUndet (C17.exPre ++ [.recv C17.exRest C17.exParse])).autoPub = true ∧
    (run C17.srvCfg C17.exUndet (C17.exPre ++ [.recv C17.exRest C17.exParse])).status = .connecting := by
  decide

end MqttVerif.Conn
