import MqttVerif.Codec.LemmasSpecKinds
/-!
# C03 — wire format = specification (independent reference encoder)

`MqttVerif.Spec.Wire` (`Spec/WireSpec.lean`) is a second, declarative encoder written from the
OASIS MQTT v3.1.1 / v5.0 documents with its own constants: abstract packets without cached
lengths, `encode = (type·16 + flags) :: varInt |body| ++ body`.  `Packet.abs` forgets the
cached lengths of an impl-shaped packet and reads its flag bits.  A symmetric error in the code
(a field written and read at the same wrong offset, swapped flag bits, a mistyped property id)
would be copied into the impl-shaped model by the lock-step run and then break the theorems
below; the run also evaluates the reference encoder on every builder output and on every
re-encoded parsed packet (`C03 bytes@<kind>`).
-/
namespace MqttVerif.Props.C03
open MqttVerif.Codec MqttVerif.Spec.Wire

/-! ## constants -/

/-- fixed header bytes the library writes (`FixedHeader`) = control packet type (Table 2-1) · 16 +
    reserved flags (Table 2-2); packet-type dispatch nibble = Table 2-1 value -/
theorem C03_consts_eq_spec :
    [0x10, 0x20, 0x40, 0x50, 0x62, 0x70, 0x82, 0x90, 0xa2, 0xb0, 0xc0, 0xd0, 0xe0, 0xf0]
      = ([CPType.CONNECT, .CONNACK, .PUBACK, .PUBREC, .PUBREL, .PUBCOMP, .SUBSCRIBE, .SUBACK, .UNSUBSCRIBE, .UNSUBACK,
          .PINGREQ, .PINGRESP, .DISCONNECT, .AUTH].map fun t => t.value * 16 + t.reservedFlags)
    ∧ [AckKind.puback, .pubrec, .pubrel, .pubcomp].map AckKind.fh
      = ([AckKind.puback, .pubrec, .pubrel, .pubcomp].map fun k => k.cp.value * 16 + k.cp.reservedFlags)
    ∧ CPType.PUBLISH.value * 16 = 0x30 := by decide

/-- the 27 property identifiers and their wire types are those of Table 2-4; no other identifier
    below 43 is accepted -/
theorem C03_property_table : ∀ id, id < 43 → (propShape id).map Shape.data = propertyType id := propTable_eq_spec

/-- identifiers ≥ 43 are unknown to the library -/
theorem C03_property_table_bound (id : Nat) (h : propShape id ≠ none) : id < 43 := propShape_le id h

/-- the specification's Variable Byte Integer algorithm = `VariableByteInteger::from_u32` -/
theorem C03_varint_eq_spec (v : Nat) (hv : v ≤ vbiMax) : varInt v = vbiEnc v := spec_varInt v hv

example : (2097152 : Nat) ≤ vbiMax ∧ vbiEnc 2097152 = [0x80, 0x80, 0x80, 0x01] := by decide

/-! ## encoder -/

/-- every property a constructor can produce is written as Table 2-4 prescribes -/
theorem C03_property_eq_spec (p : Property) (h : p.ok = true) : encodeProp p.abs = p.encode := spec_prop p h

example : (Property.u32 39 65536).ok = true ∧ (Property.pair 38 [0x6b] [0x76]).ok = true := by decide

/-- **encode_eq_spec**: for every well-formed packet (all 29 kinds, both id widths) the bytes of
    `to_continuous_buffer` are exactly the bytes the reference encoder prescribes for its field values -/
theorem C03_encode_eq_spec (pw : Nat) (p : Packet) (hpw : pw = 2 ∨ pw = 4) (h : p.wf pw = true) :
    p.encode pw = (Packet.abs p).encode pw := (Packet.spec_eq pw p hpw h).symm

example : (2 = 2 ∨ 2 = 4) ∧
    Packet.wf 2 (.connect5 ⟨29, 0x06, 60, 3, [.u16 33 5], [0x63], 5, [.u32 24 1], [0x74], [1], [], []⟩) = true := by decide

/-- **parse_spec_encoding**: the specification's encoding of a well-formed packet's field values
    splits into a frame whose body the library's parser accepts, consuming all of it, and the
    result is that packet — hence every accessor returns the encoded value (`abs` of the result
    = the abstract packet that was encoded) -/
theorem C03_parse_spec_encoding (pw : Nat) (p : Packet) (hpw : pw = 2 ∨ pw = 4) (h : p.wf pw = true) :
    ∃ fh body q, frameBody ((Packet.abs p).encode pw) = some (fh, body.length, body) ∧
      Packet.parse p.version pw fh body = some (.ok q body.length) ∧ Packet.abs q = Packet.abs p := by
  obtain ⟨fh, body, _, hfb, hp, _, hrl⟩ := Packet.roundTrips pw p hpw h
  refine ⟨fh, body, p, ?_, hp, rfl⟩
  rw [Packet.spec_eq pw p hpw h, hfb, hrl]

end MqttVerif.Props.C03
