import MqttVerif.Conn.Lemmas.PairExchange2
/-!
# C01 at the level of the two `Conn` models (L2): any number of losses at any points,
# any sequence of exchanges

`Props/C01L2.lean` treats ONE exchange with ONE transport loss after `k` deliveries of the
loss-free schedule.  Here:

**T1 - arbitrary schedules.**  A schedule is any `acts : List Act`, `Act = deliver | lose`
(`Conn/Lemmas/PairExchange2.lean`): `deliver` delivers the head of a non-empty channel (`deliver1`,
client→server channel first; `C01_l2b_one_channel`: at most one channel is non-empty anyway),
`lose` is `lose` followed at once by `resume v` (both endpoints get `.closed`, CONNECT(clean =
false) / CONNACK(session present) are exchanged, the model's `sendStored`/`resendStored`
retransmit).  For `v ∈ {4, 5}`, both directions `d` (`start v true P = startC v P`,
`start v false P = startS v P`), every `IsPub v q P`, EVERY `acts`:

* `C01_l2b_qos2_run`, `C01_l2b_qos1_run`: the system after `acts` IS (logs aside) the shape of the
  phase the explicit transducer `next2`/`next1` reaches, and the observations in the logs ARE the
  transducer's output (`Obs`): no `.error` in either log, the receiver's PUBLISH notifications are
  `notes2 P acts` / `notes1 P acts`, the publisher is notified of no PUBLISH, the publisher's
  released identifiers are the transducer's, the receiver releases nothing;
* (a) `C01_l2b_safety_qos2`, `C01_l2b_safety_qos1`: no `.error` event at either side, ever;
* (b) `C01_l2b_qos2_at_most_once` (any moment), `C01_l2b_qos2_exactly_once` (after a final `drain n`,
  `4 ≤ n`: `Good v d [Q]` = quiescent, exactly one notification `Q`, `Q = P.asDup` iff the schedule
  begins with a loss, else `Q = P`; identifier released exactly once);
* (c) `C01_l2b_qos1_only_the_message` (any moment), `C01_l2b_qos1_at_least_once` (after `drain n`,
  `2 ≤ n`: `Good v d N`, `N ≠ []`, all `sameMsg P`, `N.length = 1 + ackLosses acts` = one duplicate per
  loss that hit while the PUBACK was in flight; `N = [P]` if `acts` has no `lose`).

**T2 - sequences of exchanges.**  `Exch` = direction, QoS, PUBLISH, schedule, final drain;
`runAll v (established v) es`.  `C01_l2b_sequence`: after any list of well-formed exchanges the
system is quiescent (`Quiet`: both endpoints `idle`, channels empty), no `.error` in either log,
the server application's notifications are exactly the concatenation, in order, of the expected
notifications `expNotes e` of the client→server exchanges, the client application's those of the
server→client ones, and each side released identifier 1 once per exchange it published;
`expNotes_spec`: QoS 2 - exactly one, QoS 1 - at least one, only the message.
`C01_l2b_sequence_in_progress`: the same history plus an exchange still running under an arbitrary
schedule: no error, QoS 2 at most one notification so far.  `acquire_from_quiet`: the
allocator hands out identifier 1 again in every quiescent state, so `IsPub` (`pid = some 1`) is
the right hypothesis for every exchange of the sequence.

**T3 - two exchanges in flight** (`C01_l2b_two_in_flight`): the application publishes `P1` (identifier 1)
and `P2` (identifier 2, `acquire_second_gives_2`) back to back, any QoS 1/2 each, both directions,
both versions, NO loss, first for the deterministic delivery order `drain` (client→server channel first):
quiescent, no error, the receiver notified of exactly `[P1, P2]`, both identifiers released once.
`C01_l2b_two_in_flight_any_order`: the same after ANY interleaving of deliveries to the two endpoints
(generic confluence `drain_runSides`).  Not treated for T3: losses while two exchanges are in flight.

**Not idealised**: the DUP flag of retransmissions (`P.asDup` in the channel and in the
notification), the v5.0 PUBCOMP reason code 0x92 (`pubcompAgain`) for a PUBREL retransmitted
after the receiver completed (phase `comp true`), `publish_recv` emptied by the reconnect
(phase `rel false`, `pubAgain`) are all part of the shapes `sysOf2`.

**Not covered**: a loss in the middle of the CONNECT/CONNACK handshake itself (the `lose`
action runs the handshake atomically), several exchanges in flight under loss, flow-control /
size / alias limits, the byte-level codec (as in `C01L2.lean`).

No counter-example was found: every statement attempted holds in the model as it is.
-/
set_option linter.unusedSimpArgs false
set_option linter.unusedVariables false
namespace MqttVerif.Conn.Pair
open MqttVerif MqttVerif.Conn

/-- the log of the receiving / the publishing side (`d` = the client publishes) -/
def recvLog (d : Bool) (y : Sys) : List Ev := if d then y.logS else y.logC
def sendLog (d : Bool) (y : Sys) : List Ev := if d then y.logC else y.logS

/-! ## the transducers: pure facts -/

/-- phase and expected notifications after a schedule -/
def phase2 (acts : List Act) : Ph2 := phRun next2 (.pub false) acts
def notes2 (P : Pkt) (acts : List Act) : List Pkt := outRun next2 (note2 P) (.pub false) acts
def phase1 (acts : List Act) : Ph1 := phRun next1 (.pub false) acts
def notes1 (P : Pkt) (acts : List Act) : List Pkt := outRun next1 (note1 P) (.pub false) acts

/-- the losses that hit while the PUBACK is in flight (QoS 1): each costs one duplicate -/
def ackLossesFrom : Ph1 → List Act → Nat
  | _, [] => 0
  | ph, a :: as => (if ph = .ack ∧ a = .lose then 1 else 0) + ackLossesFrom (next1 ph a) as
def ackLosses (acts : List Act) : Nat := ackLossesFrom (.pub false) acts

def deliv (n : Nat) : List Act := List.replicate n .deliver

theorem deliv_succ (n : Nat) : deliv (n + 1) = .deliver :: deliv n := rfl

theorem deliv_add (a b : Nat) : deliv (a + b) = deliv a ++ deliv b := by
  induction a with
  | zero => simp [deliv]
  | succ a ih => rw [Nat.add_right_comm, deliv_succ, deliv_succ, ih]; rfl

/-- QoS 2 invariant: nothing notified while the first PUBLISH is on its way, exactly one
    notification afterwards -/
def I2 (P : Pkt) : Ph2 → List Pkt → Prop
  | .pub _, N => N = []
  | _, N => ∃ Q, N = [Q] ∧ sameMsg P Q

theorem I2_step (P : Pkt) (ph : Ph2) (a : Act) (N : List Pkt) (h : I2 P ph N) :
    I2 P (next2 ph a) (N ++ note2 P ph a) := by
  cases ph <;> cases a <;> simp only [I2, next2, note2, List.append_nil] at * <;> try exact h
  · rename_i dup
    subst h
    cases dup
    · exact ⟨P, rfl, Or.inl rfl⟩
    · exact ⟨P.asDup, rfl, Or.inr rfl⟩

/-- released exactly when done -/
def J2 : Ph2 → List Nat → Prop
  | .done, R => R = [1]
  | _, R => R = []

theorem J2_step (ph : Ph2) (a : Act) (R : List Nat) (h : J2 ph R) : J2 (next2 ph a) (R ++ rel2 ph a) := by
  cases ph <;> cases a <;> simp only [J2, next2, rel2, List.append_nil] at * <;> simp [h]

theorem done2_of_deliv4 (ph : Ph2) : phRun next2 ph (deliv 4) = .done := by
  cases ph <;> rfl

theorem done2_stable (n : Nat) : phRun next2 .done (deliv n) = .done := by
  induction n with
  | zero => rfl
  | succ n ih => simpa [deliv_succ, phRun, next2] using ih

theorem done2_of_deliv (ph : Ph2) (n : Nat) (hn : 4 ≤ n) : phRun next2 ph (deliv n) = .done := by
  obtain ⟨m, rfl⟩ := Nat.exists_eq_add_of_le hn
  have : deliv (4 + m) = deliv 4 ++ deliv m := deliv_add 4 m
  rw [this, phRun_append, done2_of_deliv4, done2_stable]

/-- after the PUBLISH has reached the receiver nothing more is notified -/
theorem note2_none (P : Pkt) (acts : List Act) : ∀ ph, (∀ dup, ph ≠ .pub dup) → outRun next2 (note2 P) ph acts = [] := by
  induction acts with
  | nil => intro ph _; rfl
  | cons a as ih =>
    intro ph h
    cases ph <;> cases a <;> first
      | exact absurd rfl (h _)
      | (simp only [outRun, note2, next2, List.nil_append]; exact ih _ (by intro dup; simp))

theorem notes2_dup (P : Pkt) (n : Nat) (acts : List Act) :
    outRun next2 (note2 P) (.pub true) (acts ++ deliv (n + 1)) = [P.asDup] := by
  induction acts with
  | nil =>
    simp only [List.nil_append, deliv_succ, outRun, note2, next2, if_true]
    rw [note2_none _ _ _ (by intro dup; simp)]; rfl
  | cons a as ih =>
    cases a
    · simp only [List.cons_append, outRun, note2, next2, if_true]
      rw [note2_none _ _ _ (by intro dup; simp)]; rfl
    · simpa only [List.cons_append, outRun, note2, next2, List.nil_append] using ih

/-- the schedule begins with a loss: the first PUBLISH never arrives, the receiver sees the
    retransmission -/
def lossFirst : List Act → Bool
  | .lose :: _ => true
  | _ => false

/-- QoS 2, exact: one notification; it carries DUP iff the schedule begins with a loss -/
theorem notes2_final (P : Pkt) (acts : List Act) (n : Nat) (hn : 1 ≤ n) :
    notes2 P (acts ++ deliv n) = [if lossFirst acts then P.asDup else P] := by
  obtain ⟨m, rfl⟩ := Nat.exists_eq_add_of_le hn
  rw [Nat.add_comm]
  unfold notes2
  cases acts with
  | nil =>
    simp only [List.nil_append, deliv_succ, outRun, note2, next2, lossFirst]
    rw [note2_none _ _ _ (by intro dup; simp)]; rfl
  | cons a as =>
    cases a
    · simp only [List.cons_append, outRun, note2, next2, lossFirst]
      rw [note2_none _ _ _ (by intro dup; simp)]; rfl
    · simp only [List.cons_append, outRun, note2, next2, lossFirst, List.nil_append, if_true]
      exact notes2_dup P m as

/-- QoS 1 invariant: only the message -/
def I1 (P : Pkt) : Ph1 → List Pkt → Prop
  | .pub false, N => N = []
  | .pub true, N => ∀ Q ∈ N, sameMsg P Q
  | _, N => N ≠ [] ∧ ∀ Q ∈ N, sameMsg P Q

theorem I1_step (P : Pkt) (ph : Ph1) (a : Act) (N : List Pkt) (h : I1 P ph N) :
    I1 P (next1 ph a) (N ++ note1 P ph a) := by
  cases ph with
  | pub dup =>
    cases dup <;> cases a <;> simp only [I1, next1, note1, List.append_nil] at *
    · subst h; simp [sameMsg]
    · subst h; simp
    · refine ⟨by simp, ?_⟩
      intro Q hQ
      rcases List.mem_append.1 hQ with hQ | hQ
      · exact h Q hQ
      · simp at hQ; exact Or.inr hQ
    · exact h
  | ack => cases a <;> simp only [I1, next1, note1, List.append_nil] at * <;> first | exact h | exact h.2
  | done => cases a <;> simp only [I1, next1, note1, List.append_nil] at * <;> exact h

def J1 : Ph1 → List Nat → Prop
  | .done, R => R = [1]
  | _, R => R = []

theorem J1_step (ph : Ph1) (a : Act) (R : List Nat) (h : J1 ph R) : J1 (next1 ph a) (R ++ rel1 ph a) := by
  cases ph <;> cases a <;> simp only [J1, next1, rel1, List.append_nil] at * <;> simp [h]

theorem done1_of_deliv2 (ph : Ph1) : phRun next1 ph (deliv 2) = .done := by
  cases ph <;> rfl

theorem done1_stable (n : Nat) : phRun next1 .done (deliv n) = .done := by
  induction n with
  | zero => rfl
  | succ n ih => simpa [deliv_succ, phRun, next1] using ih

theorem done1_of_deliv (ph : Ph1) (n : Nat) (hn : 2 ≤ n) : phRun next1 ph (deliv n) = .done := by
  obtain ⟨m, rfl⟩ := Nat.exists_eq_add_of_le hn
  have : deliv (2 + m) = deliv 2 ++ deliv m := deliv_add 2 m
  rw [this, phRun_append, done1_of_deliv2, done1_stable]

theorem note1_done (P : Pkt) (n : Nat) : outRun next1 (note1 P) .done (deliv n) = [] := by
  induction n with
  | zero => rfl
  | succ n ih => simpa [deliv_succ, outRun, next1, note1] using ih

/-- QoS 1, exact count: one notification plus one per loss while the PUBACK was in flight -/
theorem notes1_length_from (P : Pkt) (n : Nat) (acts : List Act) : ∀ ph,
    (outRun next1 (note1 P) ph (acts ++ deliv (n + 2))).length =
      (match ph with | .pub _ => 1 | _ => 0) + ackLossesFrom ph acts := by
  induction acts with
  | nil =>
    intro ph
    cases ph <;> simp [deliv_succ, outRun, note1, next1, note1_done, ackLossesFrom]
  | cons a as ih =>
    intro ph
    cases ph <;> cases a <;> simp [outRun, note1, next1, ackLossesFrom, ih] <;> omega

theorem notes1_length (P : Pkt) (acts : List Act) (n : Nat) (hn : 2 ≤ n) :
    (notes1 P (acts ++ deliv n)).length = 1 + ackLosses acts := by
  obtain ⟨m, rfl⟩ := Nat.exists_eq_add_of_le hn
  rw [Nat.add_comm]
  exact notes1_length_from P m acts _

theorem notes1_no_loss (P : Pkt) (acts : List Act) (n : Nat) (hn : 2 ≤ n) (hl : ∀ a ∈ acts, a = Act.deliver) :
    notes1 P (acts ++ deliv n) = [P] := by
  have e : acts = deliv acts.length := by
    unfold deliv; exact List.eq_replicate_iff.2 ⟨rfl, hl⟩
  obtain ⟨m, rfl⟩ := Nat.exists_eq_add_of_le hn
  have : acts ++ deliv (2 + m) = deliv ((acts.length + m) + 2) := by
    rw [e, ← deliv_add]; congr 1; simp [deliv]; omega
  rw [this]
  simp [notes1, deliv_succ, outRun, note1, next1, note1_done]

/-! ## T1: the pair follows the transducer under every schedule -/

section
variable {v : Nat} {P : Pkt} (hv : v = 4 ∨ v = 5)
include hv

/-- **QoS 2, any schedule**: shape and observations are the transducer's -/
theorem C01_l2b_qos2_run (hP : IsPub v 2 P) (d : Bool) (acts : List Act) :
    Obs d (sysOf2 v d P (phase2 acts)) (notes2 P acts) (outRun next2 rel2 (.pub false) acts)
      (runActs v (start v d P) acts) := by
  have := run_obs (v := v) (d := d) (sysOf2 v d P) next2 (note2 P) rel2 (sysOf2_logs v d P)
    (closure2 hv hP d) acts _ _ _ _ (start2 hv hP d)
  unfold phase2 notes2
  simpa using this

/-- **QoS 1, any schedule** -/
theorem C01_l2b_qos1_run (hP : IsPub v 1 P) (d : Bool) (acts : List Act) :
    Obs d (sysOf1 v d P (phase1 acts)) (notes1 P acts) (outRun next1 rel1 (.pub false) acts)
      (runActs v (start v d P) acts) := by
  have := run_obs (v := v) (d := d) (sysOf1 v d P) next1 (note1 P) rel1 (sysOf1_logs v d P)
    (closure1 hv hP d) acts _ _ _ _ (start1 hv hP d)
  unfold phase1 notes1
  simpa using this

/-- **(a) safety, QoS 2**: whatever the schedule, neither side ever reports a protocol error -/
theorem C01_l2b_safety_qos2 (hP : IsPub v 2 P) (d : Bool) (acts : List Act) :
    errFree (runActs v (start v d P) acts).logC ∧ errFree (runActs v (start v d P) acts).logS :=
  ⟨(C01_l2b_qos2_run hv hP d acts).errC, (C01_l2b_qos2_run hv hP d acts).errS⟩

/-- **(a) safety, QoS 1** -/
theorem C01_l2b_safety_qos1 (hP : IsPub v 1 P) (d : Bool) (acts : List Act) :
    errFree (runActs v (start v d P) acts).logC ∧ errFree (runActs v (start v d P) acts).logS :=
  ⟨(C01_l2b_qos1_run hv hP d acts).errC, (C01_l2b_qos1_run hv hP d acts).errS⟩

/-- during one exchange at most one channel is non-empty: the `deliver` action never has a
    choice -/
theorem C01_l2b_one_channel (hq : q = 1 ∨ q = 2) (hP : IsPub v q P) (d : Bool) (acts : List Act) :
    (runActs v (start v d P) acts).c2s = [] ∨ (runActs v (start v d P) acts).s2c = [] := by
  rcases hq with rfl | rfl
  · have h := C01_l2b_qos1_run hv hP d acts
    rw [h.c2s, h.s2c]
    cases d <;> cases phase1 acts <;> simp [sysOf1, mkSys]
  · have h := C01_l2b_qos2_run hv hP d acts
    rw [h.c2s, h.s2c]
    cases d <;> cases phase2 acts <;> simp [sysOf2, mkSys]

/-- **(b) QoS 2, at any moment of any schedule**: at most one notification, only of the
    message; the publisher hears no PUBLISH; the identifier is released at most once and only
    by the publisher -/
theorem C01_l2b_qos2_at_most_once (hP : IsPub v 2 P) (d : Bool) (acts : List Act) :
    let y := runActs v (start v d P) acts
    (pubNotes (recvLog d y)).length ≤ 1 ∧ (∀ Q ∈ pubNotes (recvLog d y), sameMsg P Q) ∧
    pubNotes (sendLog d y) = [] ∧ (releasedIds (sendLog d y)).length ≤ 1 ∧ releasedIds (recvLog d y) = [] := by
  intro y
  have h := C01_l2b_qos2_run hv hP d acts
  have hN : pubNotes (recvLog d y) = notes2 P acts := h.notes
  have hR : releasedIds (sendLog d y) = _ := h.released
  have i := outRun_inv next2 (note2 P) (I2 P) (I2_step P) acts (.pub false) [] rfl
  have j := outRun_inv next2 rel2 J2 J2_step acts (.pub false) [] rfl
  simp only [List.nil_append] at i j
  refine ⟨?_, ?_, h.noEcho, ?_, h.releasedR⟩
  · rw [hN]; unfold notes2
    cases hph : phRun next2 (.pub false) acts <;> rw [hph] at i <;> simp only [I2] at i <;>
      first | (rw [i]; simp) | (obtain ⟨Q, e, _⟩ := i; rw [e]; simp)
  · rw [hN]; unfold notes2
    cases hph : phRun next2 (.pub false) acts <;> rw [hph] at i <;> simp only [I2] at i <;>
      first | (rw [i]; simp) | (obtain ⟨Q, e, hs⟩ := i; rw [e]; simpa using hs)
  · rw [hR]
    cases hph : phRun next2 (.pub false) acts <;> rw [hph] at j <;> simp only [J2] at j <;> rw [j] <;> simp

/-- **(b) QoS 2, everything delivered**: after any schedule and a final drain the system is
    quiescent, no error, the receiving application was notified EXACTLY ONCE - of `P`, with the
    DUP flag iff the first PUBLISH was lost -, the identifier released exactly once -/
theorem C01_l2b_qos2_exactly_once (hP : IsPub v 2 P) (d : Bool) (acts : List Act) (n : Nat) (hn : 4 ≤ n) :
    Good v d [if lossFirst acts then P.asDup else P] (drain n (runActs v (start v d P) acts)) := by
  rw [drain_eq_runActs v, ← runActs_append]
  have h := C01_l2b_qos2_run hv hP d (acts ++ deliv n)
  have hph : phase2 (acts ++ deliv n) = .done := by
    unfold phase2; rw [phRun_append]; exact done2_of_deliv _ n hn
  have j := outRun_inv next2 rel2 J2 J2_step (acts ++ deliv n) (.pub false) [] rfl
  rw [show phRun next2 (.pub false) (acts ++ deliv n) = .done from hph] at j
  simp only [List.nil_append, J2] at j
  rw [hph, j, notes2_final P acts n (by omega)] at h
  rw [Good_iff_Obs hv, established_eq v hv]
  cases d <;> exact h

omit hv in
theorem sameMsg_lossFirst (acts : List Act) : sameMsg P (if lossFirst acts then P.asDup else P) := by
  split
  · exact Or.inr rfl
  · exact Or.inl rfl

/-- **(c) QoS 1, at any moment**: only the message is ever notified -/
theorem C01_l2b_qos1_only_the_message (hP : IsPub v 1 P) (d : Bool) (acts : List Act) :
    let y := runActs v (start v d P) acts
    (∀ Q ∈ pubNotes (recvLog d y), sameMsg P Q) ∧ pubNotes (sendLog d y) = [] ∧
    (releasedIds (sendLog d y)).length ≤ 1 ∧ releasedIds (recvLog d y) = [] := by
  intro y
  have h := C01_l2b_qos1_run hv hP d acts
  have hN : pubNotes (recvLog d y) = notes1 P acts := h.notes
  have hR : releasedIds (sendLog d y) = _ := h.released
  have i := outRun_inv next1 (note1 P) (I1 P) (I1_step P) acts (.pub false) [] rfl
  have j := outRun_inv next1 rel1 J1 J1_step acts (.pub false) [] rfl
  simp only [List.nil_append] at i j
  refine ⟨?_, h.noEcho, ?_, h.releasedR⟩
  · rw [hN]; unfold notes1
    cases hph : phRun next1 (.pub false) acts with
    | pub dup => rw [hph] at i; cases dup <;> simp only [I1] at i
                 · rw [i]; simp
                 · exact i
    | ack => rw [hph] at i; exact i.2
    | done => rw [hph] at i; exact i.2
  · rw [hR]
    cases hph : phRun next1 (.pub false) acts <;> rw [hph] at j <;> simp only [J1] at j <;> rw [j] <;> simp

/-- **(c) QoS 1, everything delivered**: quiescent, no error, the notifications are the
    transducer's `N`: at least one, only the message, exactly one more than the number of losses
    that hit while the PUBACK was in flight; exactly `[P]` under a loss-free schedule -/
theorem C01_l2b_qos1_at_least_once (hP : IsPub v 1 P) (d : Bool) (acts : List Act) (n : Nat) (hn : 2 ≤ n) :
    let N := notes1 P (acts ++ deliv n)
    Good v d N (drain n (runActs v (start v d P) acts)) ∧
    1 ≤ N.length ∧ (∀ Q ∈ N, sameMsg P Q) ∧ N.length = 1 + ackLosses acts ∧
    ((∀ a ∈ acts, a = Act.deliver) → N = [P]) := by
  intro N
  have hG : Good v d N (drain n (runActs v (start v d P) acts)) := by
    rw [drain_eq_runActs v, ← runActs_append]
    have h := C01_l2b_qos1_run hv hP d (acts ++ deliv n)
    have hph : phase1 (acts ++ deliv n) = .done := by
      unfold phase1; rw [phRun_append]; exact done1_of_deliv _ n hn
    have j := outRun_inv next1 rel1 J1 J1_step (acts ++ deliv n) (.pub false) [] rfl
    rw [show phRun next1 (.pub false) (acts ++ deliv n) = .done from hph] at j
    simp only [List.nil_append, J1] at j
    rw [hph, j] at h
    rw [Good_iff_Obs hv, established_eq v hv]
    cases d <;> exact h
  have hlen := notes1_length P acts n hn
  have i := outRun_inv next1 (note1 P) (I1 P) (I1_step P) (acts ++ deliv n) (.pub false) [] rfl
  have hph : phRun next1 (.pub false) (acts ++ deliv n) = .done := by
    rw [phRun_append]; exact done1_of_deliv _ n hn
  rw [hph] at i
  simp only [List.nil_append, I1] at i
  exact ⟨hG, by show 1 ≤ (notes1 P (acts ++ deliv n)).length; omega, i.2, hlen, notes1_no_loss P acts n hn⟩

/-! ### the two directions spelled out (`startC` / `startS` of `C01L2.lean`) -/

theorem C01_l2b_qos2_exactly_once_c2s (hP : IsPub v 2 P) (acts : List Act) (n : Nat) (hn : 4 ≤ n) :
    ∃ Q, sameMsg P Q ∧ Good v true [Q] (drain n (runActs v (startC v P) acts)) :=
  ⟨_, sameMsg_lossFirst acts, C01_l2b_qos2_exactly_once hv hP true acts n hn⟩

theorem C01_l2b_qos2_exactly_once_s2c (hP : IsPub v 2 P) (acts : List Act) (n : Nat) (hn : 4 ≤ n) :
    ∃ Q, sameMsg P Q ∧ Good v false [Q] (drain n (runActs v (startS v P) acts)) :=
  ⟨_, sameMsg_lossFirst acts, C01_l2b_qos2_exactly_once hv hP false acts n hn⟩

theorem C01_l2b_qos1_at_least_once_c2s (hP : IsPub v 1 P) (acts : List Act) (n : Nat) (hn : 2 ≤ n) :
    ∃ N, Good v true N (drain n (runActs v (startC v P) acts)) ∧ 1 ≤ N.length ∧ (∀ Q ∈ N, sameMsg P Q) ∧
      ((∀ a ∈ acts, a = Act.deliver) → N = [P]) := by
  have h := C01_l2b_qos1_at_least_once hv hP true acts n hn
  exact ⟨_, h.1, h.2.1, h.2.2.1, h.2.2.2.2⟩

theorem C01_l2b_qos1_at_least_once_s2c (hP : IsPub v 1 P) (acts : List Act) (n : Nat) (hn : 2 ≤ n) :
    ∃ N, Good v false N (drain n (runActs v (startS v P) acts)) ∧ 1 ≤ N.length ∧ (∀ Q ∈ N, sameMsg P Q) ∧
      ((∀ a ∈ acts, a = Act.deliver) → N = [P]) := by
  have h := C01_l2b_qos1_at_least_once hv hP false acts n hn
  exact ⟨_, h.1, h.2.1, h.2.2.1, h.2.2.2.2⟩

end

/-! ## T2: any sequence of exchanges -/

/-- one exchange: direction, QoS, message, schedule, final drain -/
structure Exch where
  toServer : Bool
  q : Nat
  P : Pkt
  acts : List Act
  n : Nat

def Exch.ok (v : Nat) (e : Exch) : Prop := (e.q = 1 ∨ e.q = 2) ∧ IsPub v e.q e.P ∧ 4 ≤ e.n

/-- the publishing application acquires an identifier and sends; the schedule runs; then
    everything in flight is delivered -/
def runExch (v : Nat) (y : Sys) (e : Exch) : Sys :=
  drain e.n (runActs v (startFrom e.toServer y e.P) e.acts)

def runAll (v : Nat) : Sys → List Exch → Sys
  | y, [] => y
  | y, e :: es => runAll v (runExch v y e) es

/-- the notifications the exchange must produce at the receiving application: a function of
    the schedule alone -/
def expNotes (e : Exch) : List Pkt :=
  if e.q = 2 then notes2 e.P (e.acts ++ deliv e.n) else notes1 e.P (e.acts ++ deliv e.n)

/-- quiescent: both endpoints idle (stores, wait sets, handled sets empty, every identifier
    free, connected), nothing in flight; the logs are arbitrary -/
def Quiet (v : Nat) (y : Sys) : Prop := y.c = idle v true ∧ y.s = idle v false ∧ y.c2s = [] ∧ y.s2c = []

theorem Quiet.eq_prep {v : Nat} (hv : v = 4 ∨ v = 5) {y : Sys} (h : Quiet v y) :
    y = prep y.logC y.logS (established v) := by
  rw [established_eq v hv]
  exact eq_prep_of_core h.1 h.2.1 h.2.2.1 h.2.2.2 ⟨rfl, rfl⟩

theorem runExch_prep (v : Nat) (lc ls : List Ev) (y : Sys) (e : Exch) :
    runExch v (prep lc ls y) e = prep lc ls (runExch v y e) := by
  simp only [runExch, startFrom_prep, runActs_prep, drain_prep]

/-- in a quiescent state the allocator hands out identifier 1 (again), at either endpoint -/
theorem acquire_from_quiet {v : Nat} {y : Sys} (h : Quiet v y) :
    (acquire { cfg := cfgC, s := y.c }).1 = some 1 ∧ (acquire { cfg := cfgS, s := y.s }).1 = some 1 := by
  rw [h.1, h.2.1]
  constructor <;> simp [acquire, Alloc.allocate, Alloc.allocateP, idle, mkSt]

section
variable {v : Nat} (hv : v = 4 ∨ v = 5)
include hv

/-- one exchange from `established` -/
theorem exch_good (e : Exch) (hok : e.ok v) : Good v e.toServer (expNotes e) (runExch v (established v) e) := by
  obtain ⟨hq, hP, hn⟩ := hok
  unfold runExch expNotes
  rcases hq with h1 | h2
  · rw [h1] at hP
    rw [if_neg (by omega)]
    exact (C01_l2b_qos1_at_least_once hv hP e.toServer e.acts e.n (by omega)).1
  · rw [h2] at hP
    rw [if_pos h2, notes2_final _ _ _ (by omega)]
    exact C01_l2b_qos2_exactly_once hv hP e.toServer e.acts e.n hn

/-- what is expected of one exchange: QoS 2 exactly one notification, QoS 1 at least one;
    only the message -/
theorem expNotes_spec (e : Exch) (hok : e.ok v) :
    (e.q = 2 → ∃ Q, expNotes e = [Q] ∧ sameMsg e.P Q) ∧
    (e.q = 1 → 1 ≤ (expNotes e).length ∧ (∀ Q ∈ expNotes e, sameMsg e.P Q) ∧
      (expNotes e).length = 1 + ackLosses e.acts ∧ ((∀ a ∈ e.acts, a = Act.deliver) → expNotes e = [e.P])) := by
  obtain ⟨hq, hP, hn⟩ := hok
  constructor
  · intro h2
    unfold expNotes
    rw [if_pos h2, notes2_final _ _ _ (by omega)]
    exact ⟨_, rfl, sameMsg_lossFirst _⟩
  · intro h1
    rw [h1] at hP
    unfold expNotes
    rw [if_neg (by omega)]
    exact (C01_l2b_qos1_at_least_once hv hP e.toServer e.acts e.n (by omega)).2

/-- an exchange started in ANY quiescent state: the same exchange from `established`, with the
    history prepended; the result is quiescent again -/
theorem exch_from_quiet (e : Exch) (hok : e.ok v) (y : Sys) (hq : Quiet v y) :
    runExch v y e = prep y.logC y.logS (runExch v (established v) e) ∧ Quiet v (runExch v y e) := by
  have e1 : runExch v y e = prep y.logC y.logS (runExch v (established v) e) := by
    conv => lhs; rw [hq.eq_prep hv]
    exact runExch_prep _ _ _ _ _
  have g := exch_good hv e hok
  refine ⟨e1, ?_⟩
  rw [e1]
  exact ⟨g.cIdle, g.sIdle, g.c2s, g.s2c⟩

/-- the notifications / releases a list of exchanges must produce at one side -/
def notesAt (toServer : Bool) (es : List Exch) : List Pkt :=
  ((es.filter (fun e => e.toServer == toServer)).map expNotes).flatten
def relAt (toServer : Bool) (es : List Exch) : List Nat :=
  (es.filter (fun e => e.toServer == toServer)).map (fun _ => 1)

omit hv in
theorem notesAt_cons (b : Bool) (e : Exch) (es : List Exch) :
    notesAt b (e :: es) = (if e.toServer = b then expNotes e else []) ++ notesAt b es := by
  unfold notesAt
  by_cases h : e.toServer = b <;> simp [List.filter_cons, h]

omit hv in
theorem relAt_cons (b : Bool) (e : Exch) (es : List Exch) :
    relAt b (e :: es) = (if e.toServer = b then [1] else []) ++ relAt b es := by
  unfold relAt
  by_cases h : e.toServer = b <;> simp [List.filter_cons, h]

/-- the log suffix a list of exchanges appends to any quiescent state -/
theorem runAll_from_quiet (es : List Exch) (hok : ∀ e ∈ es, e.ok v) : ∀ (y : Sys), Quiet v y →
    Quiet v (runAll v y es) ∧
    ∃ LC LS, (runAll v y es).logC = y.logC ++ LC ∧ (runAll v y es).logS = y.logS ++ LS ∧
      errFree LC ∧ errFree LS ∧
      pubNotes LS = notesAt true es ∧ pubNotes LC = notesAt false es ∧
      releasedIds LC = relAt true es ∧ releasedIds LS = relAt false es := by
  induction es with
  | nil =>
    intro y hq
    exact ⟨hq, [], [], by simp [runAll], by simp [runAll], rfl, rfl, rfl, rfl, rfl, rfl⟩
  | cons e es ih =>
    intro y hq
    have hoke := hok e (List.mem_cons_self ..)
    obtain ⟨e1, q1⟩ := exch_from_quiet hv e hoke y hq
    have g := exch_good hv e hoke
    obtain ⟨q2, LC, LS, hC, hS, eC, eS, nS, nC, rC, rS⟩ := ih (fun x hx => hok x (List.mem_cons_of_mem _ hx)) _ q1
    refine ⟨q2, (runExch v (established v) e).logC ++ LC, (runExch v (established v) e).logS ++ LS, ?_, ?_,
      (errFree_append _ _).2 ⟨g.errC, eC⟩, (errFree_append _ _).2 ⟨g.errS, eS⟩, ?_, ?_, ?_, ?_⟩
    · show (runAll v (runExch v y e) es).logC = _
      rw [hC, e1]; simp [prep]
    · show (runAll v (runExch v y e) es).logS = _
      rw [hS, e1]; simp [prep]
    · rw [pubNotes_append, nS, notesAt_cons]
      have gn := g.notes; have ge := g.noEcho
      cases hd : e.toServer <;> simp [hd] at gn ge <;> simp [hd, gn, ge]
    · rw [pubNotes_append, nC, notesAt_cons]
      have gn := g.notes; have ge := g.noEcho
      cases hd : e.toServer <;> simp [hd] at gn ge <;> simp [hd, gn, ge]
    · rw [releasedIds_append, rC, relAt_cons]
      have gn := g.released; have ge := g.releasedR
      cases hd : e.toServer <;> simp [hd] at gn ge <;> simp [hd, gn, ge]
    · rw [releasedIds_append, rS, relAt_cons]
      have gn := g.released; have ge := g.releasedR
      cases hd : e.toServer <;> simp [hd] at gn ge <;> simp [hd, gn, ge]

omit hv in
theorem quiet_established (hv : v = 4 ∨ v = 5) : Quiet v (established v) := by
  rw [established_eq v hv]; exact ⟨rfl, rfl, rfl, rfl⟩

/-- **T2**: after ANY finite sequence of exchanges - each with its own message, QoS,
    direction, arbitrary schedule of deliveries and losses, and a final drain -: quiescent, no
    error at either side, the server application was notified of exactly the expected
    notifications of the client→server exchanges in order (`expNotes_spec`: exactly one per QoS 2
    message, at least one per QoS 1 message, only the messages), the client application likewise
    of the server→client ones, each side released identifier 1 once per message it published -/
theorem C01_l2b_sequence (es : List Exch) (hok : ∀ e ∈ es, e.ok v) :
    let y := runAll v (established v) es
    Quiet v y ∧ errFree y.logC ∧ errFree y.logS ∧
    pubNotes y.logS = notesAt true es ∧ pubNotes y.logC = notesAt false es ∧
    releasedIds y.logC = relAt true es ∧ releasedIds y.logS = relAt false es := by
  intro y
  obtain ⟨q, LC, LS, hC, hS, eC, eS, nS, nC, rC, rS⟩ := runAll_from_quiet hv es hok _ (quiet_established hv)
  have l0 : (established v).logC = [] ∧ (established v).logS = [] := by
    rw [established_eq v hv]; exact ⟨rfl, rfl⟩
  rw [l0.1, List.nil_append] at hC
  rw [l0.2, List.nil_append] at hS
  refine ⟨q, ?_, ?_, ?_, ?_, ?_, ?_⟩
  · show errFree (runAll v (established v) es).logC; rw [hC]; exact eC
  · show errFree (runAll v (established v) es).logS; rw [hS]; exact eS
  · show pubNotes (runAll v (established v) es).logS = _; rw [hS]; exact nS
  · show pubNotes (runAll v (established v) es).logC = _; rw [hC]; exact nC
  · show releasedIds (runAll v (established v) es).logC = _; rw [hC]; exact rC
  · show releasedIds (runAll v (established v) es).logS = _; rw [hS]; exact rS

omit hv in
theorem in_progress_eq (hv : v = 4 ∨ v = 5) {y0 : Sys} (hQ : Quiet v y0) (d : Bool) (P : Pkt) (acts : List Act) :
    runActs v (startFrom d y0 P) acts = prep y0.logC y0.logS (runActs v (start v d P) acts) := by
  conv => lhs; rw [hQ.eq_prep hv]
  rw [startFrom_prep, runActs_prep]; rfl

/-- **T2, an exchange in progress**: after any sequence of completed exchanges, while a further
    exchange runs under an arbitrary schedule (not yet drained): still no error at either side,
    the notifications at the receiving side are those of the history plus (QoS 2) at most one /
    (QoS 1) only copies of the message; the allocator did hand out identifier 1 -/
theorem C01_l2b_sequence_in_progress (es : List Exch) (hok : ∀ e ∈ es, e.ok v) (d : Bool) (q : Nat) (P : Pkt)
    (hq : q = 1 ∨ q = 2) (hP : IsPub v q P) (acts : List Act) :
    let y0 := runAll v (established v) es
    let y := runActs v (startFrom d y0 P) acts
    (acquire { cfg := cfgC, s := y0.c }).1 = some 1 ∧ (acquire { cfg := cfgS, s := y0.s }).1 = some 1 ∧
    errFree y.logC ∧ errFree y.logS ∧
    ∃ N, pubNotes (recvLog d y) = notesAt d es ++ N ∧ pubNotes (sendLog d y) = notesAt (!d) es ∧
      (∀ Q ∈ N, sameMsg P Q) ∧ (q = 2 → N.length ≤ 1) := by
  intro y0 y
  obtain ⟨hQ, e0C, e0S, n0S, n0C, _, _⟩ := C01_l2b_sequence hv es hok
  have hy : y = prep y0.logC y0.logS (runActs v (start v d P) acts) := in_progress_eq hv hQ d P acts
  refine ⟨(acquire_from_quiet hQ).1, (acquire_from_quiet hQ).2, ?_⟩
  rcases hq with rfl | rfl
  · have s := C01_l2b_safety_qos1 hv hP d acts
    have m := C01_l2b_qos1_only_the_message hv hP d acts
    refine ⟨?_, ?_, pubNotes (recvLog d (runActs v (start v d P) acts)), ?_, ?_, m.1, by omega⟩
    · rw [hy]; exact (errFree_append _ _).2 ⟨e0C, s.1⟩
    · rw [hy]; exact (errFree_append _ _).2 ⟨e0S, s.2⟩
    · rw [hy]; cases d <;> simp only [recvLog, prep, if_true, if_false, Bool.false_eq_true, pubNotes_append] <;>
        first | rw [n0S] | rw [n0C]
    · have me := m.2.1
      rw [hy]; cases d <;> simp only [sendLog, prep, if_true, if_false, Bool.false_eq_true, pubNotes_append] at me ⊢ <;>
        rw [me] <;> simp <;> assumption
  · have s := C01_l2b_safety_qos2 hv hP d acts
    have m := C01_l2b_qos2_at_most_once hv hP d acts
    refine ⟨?_, ?_, pubNotes (recvLog d (runActs v (start v d P) acts)), ?_, ?_, m.2.1, fun _ => m.1⟩
    · rw [hy]; exact (errFree_append _ _).2 ⟨e0C, s.1⟩
    · rw [hy]; exact (errFree_append _ _).2 ⟨e0S, s.2⟩
    · rw [hy]; cases d <;> simp only [recvLog, prep, if_true, if_false, Bool.false_eq_true, pubNotes_append] <;>
        first | rw [n0S] | rw [n0C]
    · have me := m.2.2.1
      rw [hy]; cases d <;> simp only [sendLog, prep, if_true, if_false, Bool.false_eq_true, pubNotes_append] at me ⊢ <;>
        rw [me] <;> simp <;> assumption

end

/-! ## T3: two exchanges in flight at once (identifiers 1 and 2, same direction, no loss) -/

/-- the publishing application acquires an identifier and sends `P1`, acquires another one and
    sends `P2`, before anything is delivered -/
def startTwo (v : Nat) (d : Bool) (P1 P2 : Pkt) : Sys := startFrom d (start v d P1) P2

theorem Obs.stable {d : Bool} {t : Sys} {N : List Pkt} {R : List Nat} {y : Sys} {a : Nat}
    (h : Obs d t N R (drain a y)) (h1 : t.c2s = []) (h2 : t.s2c = []) (n : Nat) (hn : a ≤ n) :
    drain n y = drain a y := by
  obtain ⟨m, rfl⟩ := Nat.exists_eq_add_of_le hn
  rw [drain_add, drain_empty _ _ (h.c2s.trans h1) (h.s2c.trans h2)]

syntax "t3simp" "[" Lean.Parser.Tactic.simpLemma,* "]" : tactic
macro_rules
  | `(tactic| t3simp [$ts,*]) => `(tactic|
      (simp [startTwo, start, startFrom, startFromC, startFromS, appC, appS, deliverS, deliverC, deliver1, drain, cfgC, cfgS,
        sends, $ts,*]
       constructor <;>
         simp [pubNotes, releasedIds, errFree, isErr, ack, ack2, connectPkt_kind, connackPkt_kind, Pkt.asDup, $ts,*]))

section
variable {v : Nat} {P1 P2 : Pkt} (hv : v = 4 ∨ v = 5)
include hv

/-- the second identifier handed out is 2 (both directions) -/
theorem acquire_second_gives_2 {q : Nat} (hq : q = 1 ∨ q = 2) (hA : IsPub v q P1) :
    (acquire { cfg := cfgC, s := (start v true P1).c }).1 = some 2 ∧
    (acquire { cfg := cfgS, s := (start v false P1).s }).1 = some 2 := by
  rcases hq with rfl | rfl
  · rw [(start1 hv hA true).c, (start1 hv hA false).s]
    exact ⟨acquire2_gives_2 _ _ _ _ _ _ _ _, acquire2_gives_2 _ _ _ _ _ _ _ _⟩
  · rw [(start2 hv hA true).c, (start2 hv hA false).s]
    exact ⟨acquire2_gives_2 _ _ _ _ _ _ _ _, acquire2_gives_2 _ _ _ _ _ _ _ _⟩

theorem t3_22 (hA : IsPub v 2 P1) (hB : IsPubN v 2 2 P2) (d : Bool) :
    Obs d (established v) [P1, P2] [1, 2] (drain 8 (startTwo v d P1 P2)) := by
  cases d <;>
  t3simp [established_eq _ hv, step_acquire _ _ hv, step_acquire2, step_send_pub2 _ _ hv hA,
    step_send2_q2 _ _ hv hB, step_recv_pub2 _ _ hv hA, r_pub2q2_h1 _ _ hv hA hB, s22_rec1 _ _ hv hA hB,
    r_rel1_h21 _ _ hv hA hB, s22_rec2 _ _ hv hA hB, r_rel2_h2 _ _ hv hA hB, s22_comp1 _ _ hv hA hB,
    s_comp2 _ _ hv hA hB, IsPub.kind hA, IsPubN.kind hB]

theorem t3_21 (hA : IsPub v 2 P1) (hB : IsPubN v 1 2 P2) (d : Bool) :
    Obs d (established v) [P1, P2] [2, 1] (drain 6 (startTwo v d P1 P2)) := by
  cases d <;>
  t3simp [established_eq _ hv, step_acquire _ _ hv, step_acquire2, step_send_pub2 _ _ hv hA,
    step_send2_q1 _ _ hv hB, step_recv_pub2 _ _ hv hA, r_pub2q1_h1 _ _ hv hA hB, s21_rec1 _ _ hv hA hB,
    step_recv_pubrel _ _ hv, s21_ack2 _ _ hv hA hB, step_recv_pubcomp _ _ hv, IsPub.kind hA, IsPubN.kind hB]

theorem t3_12 (hA : IsPub v 1 P1) (hB : IsPubN v 2 2 P2) (d : Bool) :
    Obs d (established v) [P1, P2] [1, 2] (drain 6 (startTwo v d P1 P2)) := by
  cases d <;>
  t3simp [established_eq _ hv, step_acquire _ _ hv, step_acquire2, step_send_pub1 _ _ hv hA,
    step_send2_q2 _ _ hv hB, step_recv_pub1 _ _ hv hA, r_pub2q2_idle _ _ hv hA hB, s12_ack1 _ _ hv hA hB,
    s12_rec2 _ _ hv hA hB, r_rel2_h2 _ _ hv hA hB, s_comp2 _ _ hv hA hB, IsPub.kind hA, IsPubN.kind hB]

theorem t3_11 (hA : IsPub v 1 P1) (hB : IsPubN v 1 2 P2) (d : Bool) :
    Obs d (established v) [P1, P2] [1, 2] (drain 4 (startTwo v d P1 P2)) := by
  cases d <;>
  t3simp [established_eq _ hv, step_acquire _ _ hv, step_acquire2, step_send_pub1 _ _ hv hA,
    step_send2_q1 _ _ hv hB, step_recv_pub1 _ _ hv hA, r_pub2q1_idle _ _ hv hA hB, s11_ack1 _ _ hv hA hB,
    s11_ack2 _ _ hv hA hB, IsPub.kind hA, IsPubN.kind hB]

/-- **T3**: two messages published back to back (identifiers 1 and 2, any QoS 1/2 each), both
    exchanges in flight at once, no loss, everything delivered: quiescent (both endpoints
    `idle`, channels empty), no error, the receiving application notified of exactly `[P1, P2]`
    - each exactly once, in order, no DUP -, the publisher of nothing, both identifiers released
    exactly once by the publisher (in the order the exchanges complete) -/
theorem C01_l2b_two_in_flight {q1 q2 : Nat} (h1 : q1 = 1 ∨ q1 = 2) (h2 : q2 = 1 ∨ q2 = 2)
    (hA : IsPub v q1 P1) (hB : IsPubN v q2 2 P2) (d : Bool) (n : Nat) (hn : 8 ≤ n) :
    Obs d (established v) [P1, P2] (if q1 = 2 ∧ q2 = 1 then [2, 1] else [1, 2]) (drain n (startTwo v d P1 P2)) := by
  have e : (established v).c2s = [] ∧ (established v).s2c = [] := by
    rw [established_eq v hv]; exact ⟨rfl, rfl⟩
  rcases h1 with rfl | rfl <;> rcases h2 with rfl | rfl
  · have k := t3_11 hv hA hB d
    rw [k.stable e.1 e.2 n (by omega)]; simpa using k
  · have k := t3_12 hv hA hB d
    rw [k.stable e.1 e.2 n (by omega)]; simpa using k
  · have k := t3_21 hv hA hB d
    rw [k.stable e.1 e.2 n (by omega)]; simpa using k
  · have k := t3_22 hv hA hB d
    rw [k.stable e.1 e.2 n (by omega)]; simpa using k

/-- **T3, any interleaving**: the same after ANY interleaving `σ` of deliveries to the server
    and to the client (an action on an empty channel does nothing), followed by delivery of
    whatever is still in flight: the final state - logs included - is the one the
    deterministic order reaches (`drain_runSides`: deliveries to the two endpoints commute) -/
theorem C01_l2b_two_in_flight_any_order {q1 q2 : Nat} (h1 : q1 = 1 ∨ q1 = 2) (h2 : q2 = 1 ∨ q2 = 2)
    (hA : IsPub v q1 P1) (hB : IsPubN v q2 2 P2) (d : Bool) (σ : List Side) (n : Nat) (hn : 8 ≤ n) :
    drain n (runSides (startTwo v d P1 P2) σ) = drain n (startTwo v d P1 P2) ∧
    Obs d (established v) [P1, P2] (if q1 = 2 ∧ q2 = 1 then [2, 1] else [1, 2])
      (drain n (runSides (startTwo v d P1 P2) σ)) := by
  have k := C01_l2b_two_in_flight hv h1 h2 hA hB d n hn
  have e : (established v).c2s = [] ∧ (established v).s2c = [] := by
    rw [established_eq v hv]; exact ⟨rfl, rfl⟩
  have q := drain_runSides n σ (startTwo v d P1 P2) (k.c2s.trans e.1) (k.s2c.trans e.2)
  exact ⟨q, by rw [q]; exact k⟩

end

end MqttVerif.Conn.Pair

/-! ## non-vacuity: concrete packets and schedules, recomputed by `decide` (independently of
    the step lemmas and of the transducer) -/
namespace MqttVerif.Conn.Pair
local notation "D" => Act.deliver
local notation "L" => Act.lose

-- the empty schedule: the PUBLISH is in flight, nothing notified yet; then everything delivered
example : (runActs 5 (startC 5 (exPub 5 2)) []).c2s = [exPub 5 2] ∧
    pubNotes (runActs 5 (startC 5 (exPub 5 2)) []).logS = [] := by decide +kernel
example : goodB 5 true [exPub 5 2] (drain 4 (runActs 5 (startC 5 (exPub 5 2)) [])) = true := by decide +kernel
-- two losses at different phases (PUBREC in flight; PUBREL in flight)
example : goodB 4 true [exPub 4 2]
    (drain 4 (runActs 4 (startC 4 (exPub 4 2)) [D, L, D, D, L])) = true := by decide +kernel
example : goodB 5 true [exPub 5 2]
    (drain 4 (runActs 5 (startC 5 (exPub 5 2)) [D, L, D, D, L])) = true := by decide +kernel
-- a loss immediately after another loss (at the very start: the notification carries DUP)
example : goodB 5 true [(exPub 5 2).asDup] (drain 4 (runActs 5 (startC 5 (exPub 5 2)) [L, L])) = true := by
  decide +kernel
example : goodB 4 true [(exPub 4 2).asDup] (drain 4 (runActs 4 (startC 4 (exPub 4 2)) [L, L, L])) = true := by
  decide +kernel
-- the retransmission in the channel carries DUP; the receiver that already handled it answers PUBREC only
example : (runActs 5 (startC 5 (exPub 5 2)) [L]).c2s = [(exPub 5 2).asDup] := by decide +kernel
example : (runActs 5 (startC 5 (exPub 5 2)) [D, L, L]).c2s = [(exPub 5 2).asDup] ∧
    pubNotes (runActs 5 (startC 5 (exPub 5 2)) [D, L, L, D]).logS = [exPub 5 2] := by decide +kernel
-- losses while PUBCOMP is in flight, twice, with a loss right after a loss: the v5.0 receiver answers
-- the retransmitted PUBREL with PUBCOMP "Packet Identifier not found" (0x92); still exactly once
example : goodB 5 true [exPub 5 2]
    (drain 4 (runActs 5 (startC 5 (exPub 5 2)) [D, D, D, L, L, D, L])) = true := by
  decide +kernel
example : Ev.send ackRc none ∈
    (drain 4 (runActs 5 (startC 5 (exPub 5 2)) [D, D, D, L, L, D, L])).logS := by
  decide +kernel
example : (runActs 5 (startC 5 (exPub 5 2)) [D, D, D, L, D]).s2c = [ackRc] := by
  decide +kernel
-- a loss at every step
example : goodB 4 true [(exPub 4 2).asDup]
    (drain 4 (runActs 4 (startC 4 (exPub 4 2)) [L, D, L, D, L, D, L, D, L, D,
      L, D, L])) = true := by decide +kernel
-- QoS 1: two losses while the PUBACK is in flight = two duplicates (`ackLosses = 2`), all marked DUP
example : goodB 4 true [exPub 4 1, (exPub 4 1).asDup, (exPub 4 1).asDup]
    (drain 2 (runActs 4 (startC 4 (exPub 4 1)) [D, L, D, L])) = true := by decide +kernel
example : ackLosses [D, L, D, L] = 2 := by decide
example : goodB 5 true [(exPub 5 1).asDup] (drain 2 (runActs 5 (startC 5 (exPub 5 1)) [L, L])) = true := by
  decide +kernel
example : goodB 5 true [exPub 5 1] (drain 2 (runActs 5 (startC 5 (exPub 5 1)) [D, D, L, L])) = true := by
  decide +kernel
-- server publishes
example : goodB 5 false [exPub 5 2]
    (drain 4 (runActs 5 (startS 5 (exPub 5 2)) [D, L, L, D, D, L])) = true := by decide +kernel
example : goodB 4 false [(exPub 4 2).asDup]
    (drain 4 (runActs 4 (startS 4 (exPub 4 2)) [L, D, D, D, L, L])) = true := by decide +kernel
example : goodB 5 false [exPub 5 1, (exPub 5 1).asDup]
    (drain 2 (runActs 5 (startS 5 (exPub 5 1)) [D, L, L])) = true := by decide +kernel
-- the shapes are the model's: the system after a schedule equals `sysOf2` of the transducer's phase, logs aside
example : { runActs 5 (startC 5 (exPub 5 2)) [D, L, D, D, L] with logC := [], logS := [] } =
    sysOf2 5 true (exPub 5 2) (.rel false) := by decide +kernel
example : phase2 [D, L, D, D, L] = .rel false := by decide
example : { runActs 5 (startS 5 (exPub 5 2)) [D, D, D, L, D] with logC := [], logS := [] } =
    sysOf2 5 false (exPub 5 2) (.comp true) := by decide +kernel

/-- a sequence: QoS 2 client→server under losses, QoS 1 server→client with a duplicate, QoS 1
    client→server loss-free, QoS 2 server→client whose first PUBLISH is lost -/
def exSeq (v : Nat) : List Exch :=
  [⟨true, 2, exPub v 2, [L, D, L, L, D, D, L], 4⟩,
   ⟨false, 1, exPub v 1, [D, L], 4⟩,
   ⟨true, 1, exPub v 1, [D], 4⟩,
   ⟨false, 2, exPub v 2, [L, D, D, D, L], 5⟩]

example : ∀ e ∈ exSeq 5, e.ok 5 := by
  intro e he
  simp only [exSeq, List.mem_cons, List.not_mem_nil, or_false] at he
  rcases he with rfl | rfl | rfl | rfl <;>
    exact ⟨by decide, ⟨rfl, rfl, rfl, rfl, rfl, by decide, by decide, by decide⟩, by decide⟩

example : notesAt true (exSeq 5) = [(exPub 5 2).asDup, exPub 5 1] ∧
    notesAt false (exSeq 5) = [exPub 5 1, (exPub 5 1).asDup, (exPub 5 2).asDup] := by decide +kernel
example : let y := runAll 5 (established 5) (exSeq 5)
    y.c = idle 5 true ∧ y.s = idle 5 false ∧ y.c2s = [] ∧ y.s2c = [] ∧
    pubNotes y.logS = [(exPub 5 2).asDup, exPub 5 1] ∧
    pubNotes y.logC = [exPub 5 1, (exPub 5 1).asDup, (exPub 5 2).asDup] ∧
    releasedIds y.logC = [1, 1] ∧ releasedIds y.logS = [1, 1] ∧
    y.logC.all (fun e => !isErr e) = true ∧ y.logS.all (fun e => !isErr e) = true := by decide +kernel
example : let y := runAll 4 (established 4) (exSeq 4)
    y.c = idle 4 true ∧ y.s = idle 4 false ∧ y.c2s = [] ∧ y.s2c = [] ∧
    pubNotes y.logS = notesAt true (exSeq 4) ∧ pubNotes y.logC = notesAt false (exSeq 4) := by decide +kernel


-- T3: two exchanges in flight, concrete (recomputed by `decide`)
def exPubB (v q : Nat) : Pkt :=
  { ver := v, kind := .publish, qos := q, pid := some 2, topic := [99], payloadLen := 3, tag := 78, size := 10 }
example : IsPubN 5 2 2 (exPubB 5 2) := ⟨rfl, rfl, rfl, rfl, rfl, by decide, by decide, by decide⟩
example : IsPubN 4 1 2 (exPubB 4 1) := ⟨rfl, rfl, rfl, rfl, rfl, by decide, by decide, by decide⟩
example : let y := drain 8 (startTwo 5 true (exPub 5 2) (exPubB 5 2))
    y.c = idle 5 true ∧ y.s = idle 5 false ∧ y.c2s = [] ∧ y.s2c = [] ∧
    pubNotes y.logS = [exPub 5 2, exPubB 5 2] ∧ pubNotes y.logC = [] ∧ releasedIds y.logC = [1, 2] ∧
    y.logC.all (fun e => !isErr e) = true ∧ y.logS.all (fun e => !isErr e) = true := by decide +kernel
example : let y := drain 6 (startTwo 4 false (exPub 4 2) (exPubB 4 1))
    y.c = idle 4 true ∧ y.s = idle 4 false ∧ y.c2s = [] ∧ y.s2c = [] ∧
    pubNotes y.logC = [exPub 4 2, exPubB 4 1] ∧ pubNotes y.logS = [] ∧ releasedIds y.logS = [2, 1] := by decide +kernel
-- both exchanges really are in flight at once: two PUBLISH in the channel, then two PUBREC
example : (startTwo 5 true (exPub 5 2) (exPubB 5 2)).c2s = [exPub 5 2, exPubB 5 2] := by decide +kernel
example : ((drain 2 (startTwo 5 true (exPub 5 2) (exPubB 5 2))).s2c.map (·.kind)) = [.pubrec, .pubrec] := by decide +kernel
-- another interleaving: the client is served as early as possible; same final state, logs included
example : drain 8 (runSides (startTwo 5 true (exPub 5 2) (exPubB 5 2)) [.toS, .toC, .toC, .toS, .toC, .toS, .toS]) =
    drain 8 (startTwo 5 true (exPub 5 2) (exPubB 5 2)) := by decide +kernel
example : runSides (startTwo 5 true (exPub 5 2) (exPubB 5 2)) [.toS, .toC] ≠
    drain 2 (startTwo 5 true (exPub 5 2) (exPubB 5 2)) := by decide +kernel
-- 7 deliveries are not enough for QoS 2 + QoS 2
example : (drain 7 (startTwo 5 true (exPub 5 2) (exPubB 5 2))).s2c ≠ [] := by decide +kernel

end MqttVerif.Conn.Pair

/-! ## axiom audit -/
#print axioms MqttVerif.Conn.Pair.closure2
#print axioms MqttVerif.Conn.Pair.closure1
#print axioms MqttVerif.Conn.Pair.run_obs
#print axioms MqttVerif.Conn.Pair.C01_l2b_qos2_run
#print axioms MqttVerif.Conn.Pair.C01_l2b_qos1_run
#print axioms MqttVerif.Conn.Pair.C01_l2b_safety_qos2
#print axioms MqttVerif.Conn.Pair.C01_l2b_safety_qos1
#print axioms MqttVerif.Conn.Pair.C01_l2b_one_channel
#print axioms MqttVerif.Conn.Pair.C01_l2b_qos2_at_most_once
#print axioms MqttVerif.Conn.Pair.C01_l2b_qos2_exactly_once
#print axioms MqttVerif.Conn.Pair.C01_l2b_qos1_only_the_message
#print axioms MqttVerif.Conn.Pair.C01_l2b_qos1_at_least_once
#print axioms MqttVerif.Conn.Pair.C01_l2b_qos2_exactly_once_c2s
#print axioms MqttVerif.Conn.Pair.C01_l2b_qos2_exactly_once_s2c
#print axioms MqttVerif.Conn.Pair.C01_l2b_qos1_at_least_once_c2s
#print axioms MqttVerif.Conn.Pair.C01_l2b_qos1_at_least_once_s2c
#print axioms MqttVerif.Conn.Pair.acquire_from_quiet
#print axioms MqttVerif.Conn.Pair.expNotes_spec
#print axioms MqttVerif.Conn.Pair.C01_l2b_sequence
#print axioms MqttVerif.Conn.Pair.C01_l2b_sequence_in_progress
#print axioms MqttVerif.Conn.Pair.acquire_second_gives_2
#print axioms MqttVerif.Conn.Pair.C01_l2b_two_in_flight
#print axioms MqttVerif.Conn.Pair.drain_runSides
#print axioms MqttVerif.Conn.Pair.C01_l2b_two_in_flight_any_order
