import MqttVerif.Conn.Step
/-!
# C14 (round 5) — `notify_closed` forgets the peer's Maximum Packet Size

Driver monitors `VIOL sig=C14 refused_within_limit@<site>` / `C11 refused_by_stale_limit@<site>`: a
send refused with `PacketTooLarge` although no limit is in force (none is after a close) or the
limit of THIS connection is well above the packet's size.  The monitor's ghost limit is reset to
"none" by `closed`; this file shows the model's field is, too (the receive-side analogue is
`C14_closed_resets_announced` in Props/C14).

For **every** context `c` (any state, reachable or not):

* `C14_closed_resets_send_limit` — `(notifyClosed c).s.mpsSend = noLimit`;
* `C14_closed_resets_both_limits` — in addition `mpsRecv = noLimit`, `status = .disconnected`,
  both alias tables are gone and the packet builder is reset;
* `C14_closed_resets_send_limit_step` — the same for the API call `step cfg s .closed`.

Self-contained (imports the model only).
-/
set_option linter.unusedVariables false
namespace MqttVerif.Conn
open MqttVerif

/-- the fields `notify_closed` resets first and nothing later in it touches -/
def r5_L (s : St) : Nat × Nat × Status × Option TAS × Option TAR :=
  (s.mpsSend, s.mpsRecv, s.status, s.tas, s.tar)

theorem r5_L_releaseIfUsed (c : C) (id : Nat) : r5_L (releaseIfUsed c id).s = r5_L c.s := by
  unfold releaseIfUsed releaseId
  (repeat' (first | split | (simp only []; split))) <;> rfl

theorem r5_L_releaseAll (l : List Nat) : ∀ c : C, r5_L (releaseAll c l).s = r5_L c.s := by
  induction l with
  | nil => intro c; rfl
  | cons x rest ih => intro c; rw [releaseAll, ih, r5_L_releaseIfUsed]

theorem r5_L_cancelTimers (c : C) : r5_L (cancelTimers c).s = r5_L c.s ∧ (cancelTimers c).s.pb = c.s.pb := by
  cases h1 : c.s.sendSet <;> cases h2 : c.s.recvSet <;> cases h3 : c.s.respSet <;>
    simp [cancelTimers, h1, h2, h3, r5_L, C.push]

theorem r5_L_notifyClosed (c : C) :
    r5_L (notifyClosed c).s = (noLimit, noLimit, .disconnected, none, none) ∧
    (notifyClosed c).s.pb = Framing.PB.reset := by
  unfold notifyClosed
  extract_lets s0 c1 sub s1 c2 unsub s2 c3 s3 c4 a s4 c5 b s5 c6 d s6 c7 s7 c8 s8 c9
  rw [(r5_L_cancelTimers c9).1, (r5_L_cancelTimers c9).2]
  refine ⟨?_, rfl⟩
  have h1 : r5_L c1.s = (noLimit, noLimit, .disconnected, none, none) := rfl
  have h2 : r5_L c2.s = (noLimit, noLimit, .disconnected, none, none) := (r5_L_releaseAll sub _).trans h1
  have h3 : r5_L c3.s = (noLimit, noLimit, .disconnected, none, none) := (r5_L_releaseAll unsub _).trans h2
  have h4 : r5_L c4.s = (noLimit, noLimit, .disconnected, none, none) := h3
  have h5 : r5_L c5.s = (noLimit, noLimit, .disconnected, none, none) := (r5_L_releaseAll a _).trans h4
  have h6 : r5_L c6.s = (noLimit, noLimit, .disconnected, none, none) := (r5_L_releaseAll b _).trans h5
  have h7 : r5_L c7.s = (noLimit, noLimit, .disconnected, none, none) := (r5_L_releaseAll d _).trans h6
  have h8 : r5_L c8.s = (noLimit, noLimit, .disconnected, none, none) := by
    simp only [c8]; split
    · exact h7
    · exact h3
  exact h8

/-- **C14** — after `notify_closed` no send-side size limit is in force -/
theorem C14_closed_resets_send_limit (c : C) : (notifyClosed c).s.mpsSend = noLimit :=
  congrArg Prod.fst (r5_L_notifyClosed c).1

theorem C14_closed_resets_both_limits (c : C) :
    (notifyClosed c).s.mpsSend = noLimit ∧ (notifyClosed c).s.mpsRecv = noLimit ∧
    (notifyClosed c).s.status = .disconnected ∧ (notifyClosed c).s.tas = none ∧
    (notifyClosed c).s.tar = none ∧ (notifyClosed c).s.pb = Framing.PB.reset := by
  obtain ⟨h, hpb⟩ := r5_L_notifyClosed c
  simp only [r5_L, Prod.mk.injEq] at h
  exact ⟨h.1, h.2.1, h.2.2.1, h.2.2.2.1, h.2.2.2.2, hpb⟩

theorem C14_closed_resets_send_limit_step (cfg : Cfg) (s : St) :
    (step cfg s .closed).s.mpsSend = noLimit ∧ (step cfg s .closed).s.mpsRecv = noLimit ∧
    (step cfg s .closed).s.status = .disconnected :=
  let h := C14_closed_resets_both_limits { cfg := cfg, s := s }
  ⟨h.1, h.2.1, h.2.2.1⟩

/-! ## non-vacuity: a state reached by running the model from `St.init` -/
namespace C14R5Ex
def cfg : Cfg := { role := .client, pw := 2 }
def connect : Pkt := { ver := 5, kind := .connect, size := 15 }
def connack : Pkt := { ver := 5, kind := .connack, size := 8, rc := some 0, props := [(pMPS, 10)] }
def pub : Pkt := { ver := 5, kind := .publish, topic := [97], payloadLen := 20 }
/-- a client whose server announced Maximum Packet Size 10 -/
def s : St := run cfg (St.init cfg 5) [.send connect, .recv [0x20, 0] (fun _ _ _ => .ok connack)]
example : Reachable cfg 5 s := ⟨_, rfl⟩
example : s.mpsSend = 10 ∧ s.status = .connected := by decide
example : (step cfg s (.send pub)).ev = [.error eTooLarge] := by decide
example : (step cfg s .closed).s.mpsSend = noLimit := (C14_closed_resets_send_limit_step cfg s).1
-- on the next connection (before its CONNACK) the stale limit does not refuse the CONNECT
example : (step cfg (step cfg s .closed).s (.send { connect with size := 30 })).ev
    = [.send { connect with size := 30 } none] := by decide
end C14R5Ex

end MqttVerif.Conn
