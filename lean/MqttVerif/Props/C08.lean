import MqttVerif.Conn.Lemmas.PidsStore
import MqttVerif.Conn.Lemmas.Pend9
/-!
# C08 — packet identifiers: unique while in use, released exactly once, never leaked

Statement (properties.jsonl): an identifier handed out by acquire is never handed out again,
and cannot be registered, while it is in use; every identifier from 1 to the type's maximum
can be in use simultaneously and exhaustion is reported as an error.  The library announces a
release exactly when it turns an in-use identifier free — never for a free identifier and
never twice — when the exchange owning it completes, when a send carrying it is refused, and
for every non-persistent in-flight exchange when the connection closes; the only unannounced
change is the wholesale reset of all identifiers when a new session starts; id-management
calls are total for every id value including 0.

Model: `step cfg s op` (`Conn/Step.lean`).  All theorems hold for **every** configuration with
a non-empty id range (`1 ≤ cfg.idMax`, in particular `cfg.pw = 2` and `cfg.pw = 4`), every
state satisfying the invariant `PidWf` (which holds initially and is preserved by every
operation, for arbitrary peer bytes and parser results), every operation.
-/
set_option linter.unusedSimpArgs false
set_option linter.unusedVariables false
namespace MqttVerif.Conn
open MqttVerif

/-! ## 0. the id range -/

theorem Cfg.idMax_pos_of_pw {cfg : Cfg} (h : 1 ≤ cfg.pw) : 1 ≤ cfg.idMax := by
  have : 256 ^ 1 ≤ 256 ^ cfg.pw := Nat.pow_le_pow_right (by omega) h
  unfold Cfg.idMax; omega

/-- u16 and u32 identifiers -/
theorem Cfg.idMax_pos {cfg : Cfg} (h : cfg.pw = 2 ∨ cfg.pw = 4) : 1 ≤ cfg.idMax :=
  Cfg.idMax_pos_of_pw (by omega)

/-! ## 1. allocator well-formedness is an invariant; the id calls are total -/

theorem C08_wf_init (cfg : Cfg) (ver : Nat) (h : 1 ≤ cfg.idMax) : PidWf cfg (St.init cfg ver) :=
  Alloc.W_new h

theorem C08_wf_step {cfg : Cfg} {s : St} (h : 1 ≤ cfg.idMax) (w : PidWf cfg s) (op : Op) :
    PidWf cfg (step cfg s op).s := by
  have hw : Wf { cfg := cfg, s := s } := ⟨h, w⟩
  have := (step_wf hw op).2
  rwa [step_cfg hw op] at this

theorem C08_wf_run {cfg : Cfg} (h : 1 ≤ cfg.idMax) (ops : List Op) :
    ∀ {s : St}, PidWf cfg s → PidWf cfg (run cfg s ops) := by
  induction ops with
  | nil => intro s w; exact w
  | cons op ops ih => intro s w; exact ih (C08_wf_step h w op)

theorem C08_wf_reachable {cfg : Cfg} (h : 1 ≤ cfg.idMax) {ver : Nat} {s : St}
    (r : Reachable cfg ver s) : PidWf cfg s := by
  obtain ⟨ops, rfl⟩ := r
  exact C08_wf_run h ops (C08_wf_init cfg ver h)

/-- every id in use lies in `[1, idMax]`: `0 ∉ used`, nothing above the maximum -/
theorem C08_used_in_range {cfg : Cfg} {s : St} (w : PidWf cfg s) {id : Nat} (hu : isUsed s id = true) :
    1 ≤ id ∧ id ≤ cfg.idMax := w.w.isUsed_range hu

/-- **idcalls_total**: `acquire`, `register id`, `release id` never panic — for every id value,
    including 0 and values above the maximum (finding #6 on the pinned tree: `release 0`
    panicked).  `acquire` / `register` change nothing but the allocator; what `release` changes:
    `C08_release_abandons_exchange`. -/
theorem C08_idcalls_total {cfg : Cfg} {s : St} (h : 1 ≤ cfg.idMax) (w : PidWf cfg s) :
    (step cfg s .acquire).s.panic = s.panic ∧
    (∀ id, (step cfg s (.register id)).s.panic = s.panic) ∧
    (∀ id, (step cfg s (.release id)).s.panic = s.panic) := by
  refine ⟨rfl, fun _ => rfl, fun id => ?_⟩
  have hw : Wf { cfg := cfg, s := s } := ⟨h, w⟩
  show (releasePacketId { cfg := cfg, s := s } id).s.panic = s.panic
  cases hu : isUsed s id with
  | false => rw [releasePacketId_unused hu]
  | true => rw [releasePacketId_used hw hu]; rfl

/-- **release_abandons_exchange** (fix ba1a812).  `release id` of an identifier in use: exactly one
    event `NotifyPacketIdReleased id`; the allocator frees `id` (every other identifier as before);
    `id` leaves the wait sets `suback` / `unsuback` / `puback` / `pubrec` (the exchange it was obtained
    for is abandoned); the Receive-Maximum counter decreases by one if `id` was awaited by PUBACK /
    PUBREC (`countAfterRelease`: only under a Receive Maximum, never below zero); nothing else
    changes (`pubcomp`, the store, … are untouched).  The point of the fix: afterwards `id` is in NONE
    of `suback` / `unsuback` / `puback` / `pubrec`, so a later `notify_closed` / SUBACK / UNSUBACK /
    PUBACK / PUBREC cannot release it again under a new owner.
    `release id` of an identifier not in use: no event, the state is unchanged. -/
theorem C08_release_abandons_exchange {cfg : Cfg} {s : St} (h : 1 ≤ cfg.idMax) (w : PidWf cfg s) (id : Nat) :
    (isUsed s id = true →
      (step cfg s (.release id)).ev = [.released id] ∧
      (step cfg s (.release id)).s =
        { s with pidMan := (Alloc.deallocate s.pidMan id).2, suback := del id s.suback, unsuback := del id s.unsuback, puback := del id s.puback, pubrec := del id s.pubrec, sendCount := countAfterRelease s id } ∧
      isUsed (step cfg s (.release id)).s id = false ∧
      (∀ x, x ≠ id → isUsed (step cfg s (.release id)).s x = isUsed s x) ∧
      id ∉ (step cfg s (.release id)).s.suback ∧ id ∉ (step cfg s (.release id)).s.unsuback ∧
      id ∉ (step cfg s (.release id)).s.puback ∧ id ∉ (step cfg s (.release id)).s.pubrec) ∧
    (isUsed s id = false →
      (step cfg s (.release id)).ev = [] ∧ (step cfg s (.release id)).s = s) := by
  have hw : Wf { cfg := cfg, s := s } := ⟨h, w⟩
  constructor
  · intro hu
    have e : step cfg s (.release id) = releasePacketId { cfg := cfg, s := s } id := rfl
    rw [e, releasePacketId_used hw hu]
    obtain ⟨_, _, d3⟩ := w.w.dealloc hu
    refine ⟨rfl, rfl, ?_, ?_, ?_, ?_, ?_, ?_⟩
    · cases hc : isUsed ({ s with pidMan := (Alloc.deallocate s.pidMan id).2 } : St) id with
      | false => exact hc
      | true => exact absurd rfl ((d3 id).1 hc).2
    · intro x hx
      cases hc : isUsed s x with
      | true => exact (d3 x).2 ⟨hc, hx⟩
      | false =>
        cases hc' : isUsed ({ s with pidMan := (Alloc.deallocate s.pidMan id).2 } : St) x with
        | false => exact hc'
        | true => have := ((d3 x).1 hc').1; simp only [isUsed] at hc; simp_all
    · exact fun hm => (mem_del'.1 hm).2 rfl
    · exact fun hm => (mem_del'.1 hm).2 rfl
    · exact fun hm => (mem_del'.1 hm).2 rfl
    · exact fun hm => (mem_del'.1 hm).2 rfl
  · intro hu
    have e : step cfg s (.release id) = releasePacketId { cfg := cfg, s := s } id := rfl
    rw [e, releasePacketId_unused hu]
    exact ⟨rfl, rfl⟩

/-- along any operation sequence consisting of id calls only, from any well-formed state,
    there is never a panic -/
theorem C08_idcalls_total_run {cfg : Cfg} (h : 1 ≤ cfg.idMax) (ops : List Op)
    (hops : ∀ op ∈ ops, op = .acquire ∨ (∃ id, op = .register id) ∨ (∃ id, op = .release id)) :
    ∀ {s : St}, PidWf cfg s → (run cfg s ops).panic = s.panic := by
  induction ops with
  | nil => intro s w; rfl
  | cons op ops ih =>
    intro s w
    have t := C08_idcalls_total h w
    have := ih (fun o ho => hops o (List.mem_cons_of_mem _ ho)) (C08_wf_step h w op)
    simp only [run, this]
    rcases hops op (List.mem_cons_self) with rfl | ⟨id, rfl⟩ | ⟨id, rfl⟩
    · exact t.1
    · exact t.2.1 id
    · exact t.2.2 id

/-! ## 2. acquire / register -/

/-- **acquire_fresh**: `acquire` returns only an id that was not in use (and in range);
    afterwards exactly that id has been added to the ids in use. -/
theorem C08_acquire_fresh {cfg : Cfg} {s : St} (w : PidWf cfg s) {id : Nat}
    (ha : (acquire { cfg := cfg, s := s }).1 = some id) :
    isUsed s id = false ∧ 1 ≤ id ∧ id ≤ cfg.idMax ∧
      ∀ x, isUsed (step cfg s .acquire).s x = true ↔ (isUsed s x = true ∨ x = id) := by
  obtain ⟨a, b, c, _, e⟩ := w.w.alloc_some ha
  exact ⟨a, b, c, e⟩

/-- **exhaustion**: `acquire` fails (`PacketIdentifierFullyUsed`) exactly when every id of
    `[1, idMax]` is in use; the state is then unchanged. -/
theorem C08_exhaustion {cfg : Cfg} {s : St} (w : PidWf cfg s) :
    ((acquire { cfg := cfg, s := s }).1 = none ↔ ∀ id, 1 ≤ id → id ≤ cfg.idMax → isUsed s id = true) ∧
    ((acquire { cfg := cfg, s := s }).1 = none → (step cfg s .acquire).s = s) := by
  refine ⟨⟨fun h => (w.w.alloc_none h).2, fun h => ?_⟩, fun h => ?_⟩
  · cases ha : (acquire { cfg := cfg, s := s }).1 with
    | none => rfl
    | some v =>
      obtain ⟨a, b, c, _⟩ := w.w.alloc_some ha
      have := h v b c
      simp [isUsed] at this a; simp_all
  · have := (w.w.alloc_none h).1
    show ({ s with pidMan := (Alloc.allocate s.pidMan).2 } : St) = s
    rw [this]

/-- **register_iff_free**: `register id` succeeds iff `id` is in range and not in use;
    afterwards the ids in use are the old ones plus `id` (when it succeeded). -/
theorem C08_register_iff_free {cfg : Cfg} {s : St} (w : PidWf cfg s) (id : Nat) :
    ((register { cfg := cfg, s := s } id).1 = true ↔ (1 ≤ id ∧ id ≤ cfg.idMax ∧ isUsed s id = false)) ∧
    (∀ x, isUsed (step cfg s (.register id)).s x = true ↔
      (isUsed s x = true ∨ ((register { cfg := cfg, s := s } id).1 = true ∧ x = id))) := by
  obtain ⟨a, _, c⟩ := w.w.use id
  exact ⟨a, c⟩

/-- an id in use is never handed out again, and cannot be registered -/
theorem C08_used_not_reissued {cfg : Cfg} {s : St} (w : PidWf cfg s) {id : Nat} (hu : isUsed s id = true) :
    (acquire { cfg := cfg, s := s }).1 ≠ some id ∧ (register { cfg := cfg, s := s } id).1 = false := by
  constructor
  · intro ha
    have := (C08_acquire_fresh w ha).1
    simp_all
  · cases hr : (register { cfg := cfg, s := s } id).1 with
    | false => rfl
    | true => have := ((C08_register_iff_free w id).1.1 hr).2.2; simp_all

theorem run_append (cfg : Cfg) (s : St) (a b : List Op) : run cfg s (a ++ b) = run cfg (run cfg s a) b := by
  induction a generalizing s with
  | nil => rfl
  | cons op a ih => simp only [List.cons_append, run, ih]

/-- **all ids usable simultaneously**: for every `n ≤ idMax` the `n` calls
    `register 1 … register n` on a fresh connection all succeed and leave exactly the ids
    `1..n` in use — with `n = idMax` every identifier of the type is in use at once (and then
    `acquire` reports exhaustion, `C08_exhaustion`). -/
theorem C08_all_ids_usable (cfg : Cfg) (ver : Nat) (h : 1 ≤ cfg.idMax) (n : Nat) (hn : n ≤ cfg.idMax) :
    let s := run cfg (St.init cfg ver) ((List.range n).map (fun k => Op.register (k + 1)))
    (∀ id, isUsed s id = true ↔ (1 ≤ id ∧ id ≤ n)) ∧
    (n = cfg.idMax → (acquire { cfg := cfg, s := s }).1 = none) := by
  have key : ∀ n, n ≤ cfg.idMax →
      PidWf cfg (run cfg (St.init cfg ver) ((List.range n).map (fun k => Op.register (k + 1)))) ∧
      ∀ id, isUsed (run cfg (St.init cfg ver) ((List.range n).map (fun k => Op.register (k + 1)))) id = true ↔
        (1 ≤ id ∧ id ≤ n) := by
    intro n
    induction n with
    | zero =>
      intro _
      refine ⟨C08_wf_init cfg ver h, fun id => ?_⟩
      have : isUsed (St.init cfg ver) id = false := Alloc.new_isUsed _ _
      simp only [List.range_zero, List.map_nil, run, this]
      constructor
      · intro h; simp at h
      · intro h; omega
    | succ n ih =>
      intro hn
      obtain ⟨w, u⟩ := ih (by omega)
      rw [List.range_succ, List.map_append, run_append]
      simp only [List.map_cons, List.map_nil, run]
      refine ⟨C08_wf_step h w _, fun id => ?_⟩
      obtain ⟨r1, r2⟩ := C08_register_iff_free w (n + 1)
      have hfree : isUsed (run cfg (St.init cfg ver) ((List.range n).map (fun k => Op.register (k + 1)))) (n + 1) = false := by
        cases hc : isUsed (run cfg (St.init cfg ver) ((List.range n).map (fun k => Op.register (k + 1)))) (n + 1) with
        | false => rfl
        | true => have := (u (n + 1)).1 hc; omega
      have hok := r1.2 ⟨by omega, hn, hfree⟩
      rw [r2 id, u id]
      simp only [hok, true_and]
      omega
  obtain ⟨w, u⟩ := key n hn
  refine ⟨u, fun e => ?_⟩
  exact (C08_exhaustion w).1.2 (fun id h1 h2 => (u id).2 ⟨h1, by omega⟩)

/-! ## 3. announcements: released exactly when an in-use id turns free -/

/-- **release_exact.**  For every operation, with `rel` the ids announced by
    `NotifyPacketIdReleased` events of the call:
    (a) no duplicates; (b) each was in use before; (c) each is free afterwards;
    (d) unless the call starts a new session, an id in use before and free afterwards is in
        `rel`;
    (e) if the call starts a new session, no id is in use afterwards (the wholesale reset);
    (f) apart from `acquire` / `register` / `restorePackets` (which announce nothing and free
        nothing) no call makes an id used. -/
theorem C08_release_exact {cfg : Cfg} {s : St} (h : 1 ≤ cfg.idMax) (w : PidWf cfg s) (op : Op) :
    let rel := Mon.releasedIds (step cfg s op).ev
    let s' := (step cfg s op).s
    rel.Nodup ∧
    (∀ id ∈ rel, isUsed s id = true) ∧
    (∀ id ∈ rel, isUsed s' id = false) ∧
    (startsNewSession cfg s op = false → ∀ id, isUsed s id = true → isUsed s' id = false → id ∈ rel) ∧
    (startsNewSession cfg s op = true → ∀ id, isUsed s' id = false) ∧
    (takesIds op = false → ∀ id, isUsed s' id = true → isUsed s id = true) ∧
    (takesIds op = true → rel = [] ∧ ∀ id, isUsed s id = true → isUsed s' id = true) := by
  have hw : Wf { cfg := cfg, s := s } := ⟨h, w⟩
  cases hg : takesIds op with
  | false =>
    obtain ⟨_, _, r, e, a2, a3, a4, a5, a6⟩ := step_eff hw op hg
    simp only [Mon.releasedIds, List.nil_append] at e
    simp only [e]
    refine ⟨a2, fun id hm => (a3 id hm).1, fun id hm => (a3 id hm).2, ?_, a6, fun _ => a4, by simp⟩
    intro hb id hu hf
    cases hd : decide (id ∈ r) with
    | true => exact of_decide_eq_true hd
    | false => have := a5 hb id hu (of_decide_eq_false hd); simp_all
  | true =>
    obtain ⟨_, _, e, m⟩ := step_grow hw op hg
    simp only [Mon.releasedIds] at e
    have hs : startsNewSession cfg s op = false := by cases op <;> simp_all [takesIds, startsNewSession]
    simp only [e, hs]
    refine ⟨List.nodup_nil, by simp, by simp, ?_, by simp, by simp, fun _ => ⟨trivial, m⟩⟩
    intro _ id hu hf
    have := m id hu; simp_all

/-- a free id stays free, and is never announced, as long as no id-taking call
    (`acquire` / `register` / `restorePackets`) is made -/
theorem C08_free_stays_free {cfg : Cfg} (h : 1 ≤ cfg.idMax) (ops : List Op)
    (hno : ∀ o ∈ ops, takesIds o = false) {id : Nat} :
    ∀ {s : St}, PidWf cfg s → isUsed s id = false →
      isUsed (run cfg s ops) id = false ∧ ∀ evs ∈ runEvents cfg s ops, id ∉ Mon.releasedIds evs := by
  induction ops with
  | nil => intro s w hf; exact ⟨hf, by simp [runEvents]⟩
  | cons op ops ih =>
    intro s w hf
    obtain ⟨_, b, _, _, _, f, _⟩ := C08_release_exact h w op
    have hop := hno op List.mem_cons_self
    have hf' : isUsed (step cfg s op).s id = false := by
      cases hc : isUsed (step cfg s op).s id with
      | false => rfl
      | true => have := f hop id hc; simp_all
    obtain ⟨r1, r2⟩ := ih (fun o ho => hno o (List.mem_cons_of_mem _ ho)) (C08_wf_step h w op) hf'
    refine ⟨r1, ?_⟩
    intro evs hm
    simp only [runEvents, List.mem_cons] at hm
    rcases hm with rfl | hm
    · intro hin; have := b id hin; simp_all
    · exact r2 evs hm

/-- **never twice**: once an id has been announced as released it is not announced again by
    any later call — until the application takes it again. -/
theorem C08_released_once {cfg : Cfg} {s : St} (h : 1 ≤ cfg.idMax) (w : PidWf cfg s) (op : Op)
    (ops : List Op) (hno : ∀ o ∈ ops, takesIds o = false) {id : Nat}
    (hr : id ∈ Mon.releasedIds (step cfg s op).ev) :
    ∀ evs ∈ runEvents cfg (step cfg s op).s ops, id ∉ Mon.releasedIds evs :=
  (C08_free_stays_free h ops hno (C08_wf_step h w op) ((C08_release_exact h w op).2.2.1 id hr)).2

/-! ## 5. when releases are announced -/

/-- **release_on_completion.**  A PUBACK / PUBCOMP / failing PUBREC (the model releases for
    every non-success reason code of a v5.0 PUBREC) / SUBACK / UNSUBACK that is delivered to
    its handler, parses, and whose id is in the corresponding wait set: the call announces
    exactly that id if it is in use (and nothing if it is not). -/
theorem C08_release_on_completion {cfg : Cfg} {s : St} {inp : List Nat}
    {parse : Nat → Nat → List Nat → Except Nat Pkt} {t : Nat} {p : Pkt}
    (d : Delivers cfg s inp parse t (.ok p))
    (hm : (t = 4 ∧ p.pid.getD 0 ∈ s.puback) ∨ (t = 7 ∧ p.pid.getD 0 ∈ s.pubcomp) ∨
          (t = 5 ∧ p.pid.getD 0 ∈ s.pubrec ∧ ¬ (p.ver = 4 ∨ p.rc = none ∨ p.rc = some 0)) ∨
          (t = 9 ∧ p.pid.getD 0 ∈ s.suback) ∨ (t = 11 ∧ p.pid.getD 0 ∈ s.unsuback)) :
    Mon.releasedIds (step cfg s (.recv inp parse)).ev =
      if isUsed s (p.pid.getD 0) = true then [p.pid.getD 0] else [] := by
  obtain ⟨pb, e⟩ := step_recv_delivers d
  rw [e]
  rcases hm with ⟨rfl, hm⟩ | ⟨rfl, hm⟩ | ⟨rfl, hm, hf⟩ | ⟨rfl, hm⟩ | ⟨rfl, hm⟩
  · exact prPuback_rel { cfg := cfg, s := { s with pb := pb } } p hm
  · exact prPubcomp_rel { cfg := cfg, s := { s with pb := pb } } p hm
  · exact prPubrec_rel { cfg := cfg, s := { s with pb := pb } } p hm hf
  · exact prSuback_rel { cfg := cfg, s := { s with pb := pb } } p hm
  · exact prUnsuback_rel { cfg := cfg, s := { s with pb := pb } } p hm

/-- **release_on_refusal.**  A `send` of a QoS>0 PUBLISH, SUBSCRIBE or UNSUBSCRIBE carrying an
    in-use id that is answered with a `NotifyError` announces exactly that id — whatever the
    reason of the refusal.  The refusal reasons covered (all that exist for these packets once
    the id is in use): protocol version mismatch (`VersionMismatch`) and role check
    (`PacketNotAllowedToSend`) — fix 1d0ef05, see `C08_release_on_version_or_role_refusal`;
    v3.1.1/v5.0 PUBLISH not allowed in the current status
    (`PacketNotAllowedToSend`); v5.0 PUBLISH / SUBSCRIBE / UNSUBSCRIBE larger than the peer's
    Maximum Packet Size (`PacketTooLarge`); v5.0 PUBLISH over the peer's Receive Maximum
    (`ReceiveMaximumExceeded`); v5.0 PUBLISH with an unusable Topic Alias (empty topic and
    unknown / out-of-range alias, or alias out of range) (`PacketNotAllowedToSend`);
    SUBSCRIBE / UNSUBSCRIBE while not connected. -/
theorem C08_release_on_refusal {cfg : Cfg} {s : St} (p : Pkt) (id : Nat)
    (hk : (p.kind = .publish ∧ p.qos > 0) ∨ p.kind = .subscribe ∨ p.kind = .unsubscribe)
    (hp : p.pid = some id) (hu : isUsed s id = true)
    (he : errs (step cfg s (.send p)).ev ≠ []) :
    Mon.releasedIds (step cfg s (.send p)).ev = [id] := by
  have hi : initiatingId p = some id :=
    initiatingId_of_kind (by rcases hk with ⟨hk, _⟩ | hk | hk <;> simp [hk]) hp
  have key : Refuse { cfg := cfg, s := s } (step cfg s (.send p)) id := by
    simp only [step, send]
    split
    · exact refuseSend_refuse _ _ p id hi hu
    split
    · exact refuseSend_refuse _ _ p id hi hu
    unfold processSend
    rcases hk with ⟨hk, hq⟩ | hk | hk
    · by_cases h4 : p.ver = 4 <;> simp only [h4, if_true, if_false, hk]
      · exact psV3Publish_refuse _ p id hq hp hu
      · exact psV5Publish_refuse _ p id hq hp hu
    · by_cases h4 : p.ver = 4 <;> simp only [h4, if_true, if_false, hk] <;>
        exact psSubUnsub_refuse _ p id hp hu
    · by_cases h4 : p.ver = 4 <;> simp only [h4, if_true, if_false, hk] <;>
        exact psSubUnsub_refuse _ p id hp hu
  rcases key with k | k
  · exact absurd k he
  · simpa [Mon.releasedIds] using k

theorem hasError_false_of_errs : ∀ (l : List Ev), errs l = [] → Mon.hasError l = false := by
  intro l
  induction l with
  | nil => intro _; rfl
  | cons e t ih =>
    intro h
    cases e <;> simp_all [errs, Mon.hasError]

theorem hasError_errs {l : List Ev} (h : Mon.hasError l = true) : errs l ≠ [] := by
  intro he
  rw [hasError_false_of_errs l he] at h
  cases h

theorem mem_releasedIds {l : List Ev} {id : Nat} : id ∈ Mon.releasedIds l ↔ Ev.released id ∈ l := by
  induction l with
  | nil => simp [Mon.releasedIds]
  | cons e t ih => cases e <;> simp_all [Mon.releasedIds]

/-- **the refused-send monitor is a theorem of the model** (driver monitor
    `VIOL sig=C08 refused_send_keeps_id@<site>`).  A `send` of a packet that starts an exchange
    (QoS>0 PUBLISH, SUBSCRIBE, UNSUBSCRIBE) with identifier `id`, `id` in use before the call,
    whose events contain a `NotifyError`: `NotifyPacketIdReleased id` is among the events (it is
    the only announcement) and `id` is free afterwards — for EVERY refusal path: protocol version,
    role, status, Maximum Packet Size, Receive Maximum, Topic Alias (none keeps the identifier;
    `PacketIdentifierInvalid` cannot occur since the identifier is in use).  The monitor's further
    conditions (no `RequestSendPacket` among the events, the identifier not stored afterwards, owned
    by no exchange and not stored before) are not needed. -/
theorem C08_refused_send_releases {cfg : Cfg} {s : St} (h : 1 ≤ cfg.idMax) (w : PidWf cfg s) (p : Pkt) (id : Nat)
    (hk : (p.kind = .publish ∧ p.qos > 0) ∨ p.kind = .subscribe ∨ p.kind = .unsubscribe)
    (hp : p.pid = some id) (hu : isUsed s id = true)
    (he : Mon.hasError (step cfg s (.send p)).ev = true) :
    Ev.released id ∈ (step cfg s (.send p)).ev ∧ Mon.releasedIds (step cfg s (.send p)).ev = [id] ∧
    isUsed (step cfg s (.send p)).s id = false := by
  have hr := C08_release_on_refusal (cfg := cfg) (s := s) p id hk hp hu (hasError_errs he)
  have hm : id ∈ Mon.releasedIds (step cfg s (.send p)).ev := by rw [hr]; simp
  exact ⟨mem_releasedIds.1 hm, hr, (C08_release_exact h w (.send p)).2.2.1 id hm⟩

/-- the monitor's condition, literally: the violation it reports never occurs in the model -/
theorem C08_monitor_refused_send_sound {cfg : Cfg} {s : St} (h : 1 ≤ cfg.idMax) (w : PidWf cfg s) (p : Pkt) (id : Nat)
    (hstarts : (p.kind = .publish ∧ p.qos > 0) ∨ p.kind = .subscribe ∨ p.kind = .unsubscribe)
    (hp : p.pid = some id) (he : Mon.hasError (step cfg s (.send p)).ev = true)
    (hnosend : ∀ q r, Ev.send q r ∉ (step cfg s (.send p)).ev)
    (hnotstored : storeHas id (step cfg s (.send p)).s.store = false)
    (husedBefore : isUsed s id = true) (hnotowned : ¬ owned s id) :
    ¬ (isUsed (step cfg s (.send p)).s id = true) := by
  rw [(C08_refused_send_releases h w p id hstarts hp husedBefore he).2.2]; simp

/-- the error a send refused before its handler reports -/
def C08.gateErr (s : St) (p : Pkt) : Nat := if s.ver ≠ p.ver then eVersionMismatch else eNotAllowed

/-- **release_on_version_or_role_refusal** (fix 1d0ef05).  A `send` refused because the packet's
    protocol version is not the connection's, or because the role may never send the kind,
    with `id` the identifier the packet was given to start an exchange (`initiatingId`: that of
    a PUBLISH / SUBSCRIBE / UNSUBSCRIBE):
    * `id` in use: the events are exactly `[NotifyError e, NotifyPacketIdReleased id]`, only
      the allocator changes, `id` is free afterwards and every other id is as before;
    * `id` not in use: the events are exactly `[NotifyError e]` and the state (the allocator in
      particular) is unchanged.
    Before the fix the identifier stayed in use and nothing was announced. -/
theorem C08_release_on_version_or_role_refusal {cfg : Cfg} {s : St} (h : 1 ≤ cfg.idMax) (w : PidWf cfg s)
    (p : Pkt) (id : Nat)
    (hg : s.ver ≠ p.ver ∨ roleMaySend cfg.role p = false) (hi : initiatingId p = some id) :
    (isUsed s id = true →
      (step cfg s (.send p)).ev = [.error (C08.gateErr s p), .released id] ∧
      (step cfg s (.send p)).s = { s with pidMan := (Alloc.deallocate s.pidMan id).2 } ∧
      isUsed (step cfg s (.send p)).s id = false ∧
      ∀ x, x ≠ id → isUsed (step cfg s (.send p)).s x = isUsed s x) ∧
    (isUsed s id = false →
      (step cfg s (.send p)).ev = [.error (C08.gateErr s p)] ∧ (step cfg s (.send p)).s = s) := by
  have hw : Wf { cfg := cfg, s := s } := ⟨h, w⟩
  have e : step cfg s (.send p) = refuseSend { cfg := cfg, s := s } (C08.gateErr s p) p := by
    simp only [step, send, C08.gateErr]
    by_cases hv : s.ver = p.ver
    · have hr : roleMaySend cfg.role p = false := by
        rcases hg with hg | hg
        · exact absurd hv hg
        · exact hg
      simp [hv, hr]
    · simp [hv]
  rw [e]
  constructor
  · intro hu
    rw [refuseSend_used hw _ p id hi hu]
    obtain ⟨_, _, d3⟩ := w.w.dealloc hu
    refine ⟨rfl, rfl, ?_, ?_⟩
    · cases hc : isUsed ({ s with pidMan := (Alloc.deallocate s.pidMan id).2 } : St) id with
      | false => rfl
      | true => exact absurd rfl ((d3 id).1 hc).2
    · intro x hx
      cases hc : isUsed s x with
      | true => exact (d3 x).2 ⟨hc, hx⟩
      | false =>
        cases hc' : isUsed ({ s with pidMan := (Alloc.deallocate s.pidMan id).2 } : St) x with
        | false => rfl
        | true => have := ((d3 x).1 hc').1; simp only [isUsed] at hc; simp_all
  · intro hu
    rw [refuseSend_unused _ _ p id hi hu]
    exact ⟨rfl, rfl⟩

/-- Refusals that do **not** release (nothing is announced, no id changes): a version or role
    refusal of a packet that does not start an exchange (`initiatingId p = none`: anything but
    PUBLISH / SUBSCRIBE / UNSUBSCRIBE with an identifier), and every refusal of a PUBREL
    (version, role, too large, not allowed — finding #23).  (`PacketIdentifierInvalid` cannot
    release: the id is not in use.)  Since fix 1d0ef05 a version or role refusal of a packet
    that does carry such an identifier releases it: `C08_release_on_version_or_role_refusal`. -/
theorem C08_refusal_without_release {cfg : Cfg} {s : St} (p : Pkt)
    (hk : ((s.ver ≠ p.ver ∨ roleMaySend cfg.role p = false) ∧ initiatingId p = none) ∨ p.kind = .pubrel) :
    Mon.releasedIds (step cfg s (.send p)).ev = [] ∧
      ∀ id, isUsed (step cfg s (.send p)).s id = isUsed s id := by
  have hi : initiatingId p = none := by
    rcases hk with hk | hk
    · exact hk.2
    · simp [initiatingId, hk]
  have q : Quiet { cfg := cfg, s := s } (step cfg s (.send p)) := by
    simp only [step, send]
    split
    · rw [refuseSend_none _ _ p hi]; quiet_tac
    split
    · rw [refuseSend_none _ _ p hi]; quiet_tac
    · rename_i hv hr
      rcases hk with hk | hk
      · rcases hk.1 with hk' | hk'
        · exact absurd hk' hv
        · simp [hk'] at hr
      · unfold processSend
        split <;> simp only [hk] <;> exact psPubrel_q _ _
  exact ⟨by simpa [Mon.releasedIds] using q.2.2, fun id => isUsed_congr q.2.1 id⟩

/-- **release_on_close.**  `notify_closed` announces every in-use id of `suback ∪ unsuback`,
    and — when the session is not persistent (`¬ needStore`) — every in-use id of
    `puback ∪ pubrec ∪ pubcomp`. -/
theorem C08_release_on_close {cfg : Cfg} {s : St} (h : 1 ≤ cfg.idMax) (w : PidWf cfg s) {id : Nat}
    (hm : id ∈ s.suback ∨ id ∈ s.unsuback ∨
      (s.needStore = false ∧ (id ∈ s.puback ∨ id ∈ s.pubrec ∨ id ∈ s.pubcomp)))
    (hu : isUsed s id = true) :
    id ∈ Mon.releasedIds (step cfg s .closed).ev := by
  have hw : Wf { cfg := cfg, s := s } := ⟨h, w⟩
  have hf : isUsed (step cfg s .closed).s id = false := notifyClosed_free hw hm
  exact (C08_release_exact h w .closed).2.2.2.1 rfl id hu hf

/-! ## 4. the ownership invariant `PidInv` — what holds and what does not

`PidInv s` (`Conn/Lemmas/PidsInv.lean`): (i) every id of a wait set is in use, (ii) every
stored packet's id is in use, (iii) store ids are pairwise distinct.  It holds initially.
(iii) is an unconditional invariant (`C08_store_ids_distinct`).  (i)+(ii) are **not**
preserved by arbitrary peer input: see `C08_PidInv_step_full_false` and the witnesses below. -/

theorem C08_PidInv_init (cfg : Cfg) (ver : Nat) : PidInv (St.init cfg ver) := by
  refine ⟨by simp [waitIds, St.init], by simp [St.init], by simp [St.init]⟩

/-- **(iii) holds unconditionally**: store ids are pairwise distinct initially and after every
    operation — every `send`, arbitrary `recv` bytes / parser results, `restorePackets` of any
    list — with no hypothesis at all (`store.add` refuses a duplicate: it is then the panic
    site `store.add().unwrap()`, and the state is unchanged). -/
theorem C08_store_ids_distinct_step {cfg : Cfg} {s : St} (hs : (s.store.map (·.1)).Nodup) (op : Op) :
    ((step cfg s op).s.store.map (·.1)).Nodup := step_kn hs op

theorem C08_store_ids_distinct {cfg : Cfg} {ver : Nat} {s : St} (r : Reachable cfg ver s) :
    (s.store.map (·.1)).Nodup := by
  obtain ⟨ops, rfl⟩ := r
  suffices ∀ (ops : List Op) (s : St), (s.store.map (·.1)).Nodup → ((run cfg s ops).store.map (·.1)).Nodup from
    this ops _ (by simp [St.init])
  intro ops
  induction ops with
  | nil => intro s h; exact h
  | cons op ops ih => intro s h; exact ih _ (C08_store_ids_distinct_step h op)

/-- legality of an application call with respect to identifiers (no condition on `recv`, none
    on `restorePackets`): an id carried by a sent PUBLISH / SUBSCRIBE / UNSUBSCRIBE is not owned by
    another exchange or stored packet (if it is, every refusal path of the send frees it under its
    owner); an id that is released by hand is not awaited by PUBCOMP and carried by no stored packet
    (`witness_release_stored`, `witness_release_pubcomp`).  Since fix ba1a812 `release` of an id
    awaited by SUBACK / UNSUBACK / PUBACK / PUBREC is legal — the exchange is abandoned with it
    (`C08_release_abandons_exchange`, `witness_release_owned_fixed`); before the fix it had to be
    excluded (`¬ owned s id`). -/
def LegalOp (s : St) : Op → Prop
  | .release id => id ∉ s.pubcomp ∧ storeHas id s.store = false
  | .send p => (p.kind = .publish ∨ p.kind = .subscribe ∨ p.kind = .unsubscribe) → ¬ owned s (p.pid.getD 0)
  | _ => True

instance (s : St) (op : Op) : Decidable (LegalOp s op) := by
  cases op <;> simp only [LegalOp] <;> infer_instance

/-- the full inductive statement asked for -/
def C08_PidInv_step_full : Prop :=
  ∀ (cfg : Cfg) (s : St) (op : Op), 1 ≤ cfg.idMax → PidWf cfg s → PidInv s → LegalOp s op →
    PidInv (step cfg s op).s

/-- **restorePackets keeps the ownership invariant for ANY packet list** (duplicate ids, id 0,
    ids above the maximum, ids already in use): finding #24 is fixed — the wait-set entry and
    the store entry are made only for a packet whose id could be registered. -/
theorem C08_PidInv_restorePackets {cfg : Cfg} {s : St} (h : 1 ≤ cfg.idMax) (w : PidWf cfg s)
    (i : PidInv s) (ps : List Pkt) : PidInv (step cfg s (.restorePackets ps)).s :=
  restorePackets_inv ps { cfg := cfg, s := s } ⟨h, w⟩ i

/-- the ops for which preservation is proved: the id calls (with legality for `release`),
    `restorePackets` (any list), timers and settings, and `notify_closed` of a non-persistent
    session -/
def simpleOp (s : St) : Op → Bool
  | .acquire | .register _ | .release _ | .timer _ | .setInterval _ | .setFlag _ _
  | .setRespTimeout _ | .restoreHandled _ | .restorePackets _ => true
  | .closed => !s.needStore
  | _ => false

theorem C08_PidInv_step_partial {cfg : Cfg} {s : St} (h : 1 ≤ cfg.idMax) (w : PidWf cfg s)
    (i : PidInv s) (op : Op) (hs : simpleOp s op = true) (hl : LegalOp s op) :
    PidInv (step cfg s op).s := by
  have hw : Wf { cfg := cfg, s := s } := ⟨h, w⟩
  have same : ∀ {c' : C}, Still { cfg := cfg, s := s } c' → c'.s.pidMan = s.pidMan → PidInv c'.s :=
    fun st hp => PidInv.of_still (c := { cfg := cfg, s := s }) i st
      (fun id _ hu => by rw [isUsed_congr hp]; exact hu)
  cases op with
  | acquire =>
    exact PidInv.of_still (c := { cfg := cfg, s := s }) i ⟨rfl, rfl, rfl, rfl, rfl, rfl⟩
      (fun id _ hu => (acquire_grow hw).mono id hu)
  | register id =>
    exact PidInv.of_still (c := { cfg := cfg, s := s }) i ⟨rfl, rfl, rfl, rfl, rfl, rfl⟩
      (fun x _ hu => (register_grow hw id).mono x hu)
  | release id => exact releasePacketId_inv hw i hl.1 hl.2
  | timer k => exact same (notifyTimerFired_still _ k) (notifyTimerFired_q _ k).2.1
  | setInterval d => exact same (setPingreqSendInterval_still _ d) (setPingreqSendInterval_q _ d).2.1
  | setFlag f b => exact same (by cases f <;> exact ⟨rfl, rfl, rfl, rfl, rfl, rfl⟩) (by cases f <;> rfl)
  | setRespTimeout ms => exact same ⟨rfl, rfl, rfl, rfl, rfl, rfl⟩ rfl
  | restoreHandled ids => exact same ⟨rfl, rfl, rfl, rfl, rfl, rfl⟩ rfl
  | closed =>
    simp only [simpleOp, Bool.not_eq_true'] at hs
    obtain ⟨e1, e2⟩ := notifyClosed_nonpersistent hw hs
    show PidInv (notifyClosed _).s
    unfold PidInv
    rw [e1, e2]
    exact ⟨by simp, by simp, by simp⟩
  | send p => simp [simpleOp] at hs
  | recv a b => simp [simpleOp] at hs
  | erase id => simp [simpleOp] at hs
  | restorePackets ps => exact C08_PidInv_restorePackets h w i ps

/-! ### witnesses (all `decide`-checked on states reached from `St.init` by `run`) -/
namespace W
def cfgC : Cfg := { role := .client, pw := 2 }
def okp (p : Pkt) : Nat → Nat → List Nat → Except Nat Pkt := fun _ _ _ => .ok p
def connect5 : Pkt := { ver := 5, kind := .connect, size := 20, props := [(pSEI, 100)] }
def connack5 (sp : Bool) (props : List (Nat × Nat)) : Pkt :=
  { ver := 5, kind := .connack, size := 8, rc := some 0, sp := sp, props := props }
def pub1 : Pkt := { ver := 5, kind := .publish, pid := some 1, qos := 1, topic := [97], payloadLen := 100 }
def sub1 : Pkt := { ver := 5, kind := .subscribe, pid := some 1, size := 10 }
def puback (v id : Nat) : Pkt := { ver := v, kind := .puback, pid := some id, size := 4 }
def pubrel1 : Pkt := { ver := 5, kind := .pubrel, pid := some 1, size := 4 }
def disc5 : Pkt := { ver := 5, kind := .disconnect, size := 2 }
def pq (q id : Nat) : Pkt := { ver := 5, kind := .publish, pid := some id, qos := q, topic := [97] }
def connackBytes : List Nat := [0x20, 3, 0, 0, 0]
def pubackBytes : List Nat := [0x40, 2, 0, 1]
def s0 : St := St.init cfgC 5

/-- client, persistent session, connected, QoS 1 PUBLISH id 1 in flight and stored, connection
    closed, CONNECT sent again -/
def opsA : List Op :=
  [.send connect5, .recv connackBytes (okp (connack5 false [])), .acquire, .send pub1, .closed,
   .send connect5]
def sA : St := run cfgC s0 opsA
/-- the broker resumes the session, announcing Maximum Packet Size 20 -/
def opA : Op := .recv connackBytes (okp (connack5 true [(pMPS, 20)]))
end W
open W

/-- `send_stored` dropping an oversize stored packet (found independently here and by the C05
    proof; fixed in /repo 08017c0 and in the model): on resume the packet is dropped, its id
    released and announced, **and** — since the fix — removed from `pid_puback` / `pid_pubrec` /
    `pid_pubcomp`.  Before the fix the id stayed awaited: a later re-acquisition for a
    SUBSCRIBE plus a late PUBACK released it under the SUBSCRIBE. -/
theorem witness_sendStored_drop_fixed :
    PidWf cfgC sA ∧ PidInv sA ∧ sA.puback = [1] ∧ sA.store.length = 1 ∧
    Mon.releasedIds (step cfgC sA opA).ev = [1] ∧
    (step cfgC sA opA).s.puback = [] ∧ (step cfgC sA opA).s.store = [] ∧
    isUsed (step cfgC sA opA).s 1 = false ∧ PidInv (step cfgC sA opA).s := by decide

namespace W
/-- connected client with SUBSCRIBE id 1 in flight sends DISCONNECT (`notify_closed` not yet called) -/
def sD : St := run cfgC s0 [.send connect5, .recv connackBytes (okp (connack5 false [])), .acquire,
  .send sub1, .send disc5]
def opD : Op := .recv connackBytes (okp (connack5 false []))
end W

/-- the full statement is false: peer input needs no legality, the state is reachable by a legal
    application and satisfies everything (witness: `witness_connack_while_disconnected`) -/
theorem C08_PidInv_step_full_false : ¬ C08_PidInv_step_full := by
  intro hfull
  have := hfull cfgC sD opD (by decide) (by decide) (by decide) trivial
  exact absurd this (by decide)

/-- **finding (peer breaks (i))**: a CONNACK received while *disconnected* (after DISCONNECT
    was sent, before `notify_closed`; also: never connected at all) is accepted, makes the
    connection `connected` and resets all ids, while `pid_suback` still holds id 1: afterwards
    id 1 is free and awaited, nothing was announced. -/
theorem witness_connack_while_disconnected :
    let s' := (step cfgC sD opD).s
    PidWf cfgC sD ∧ PidInv sD ∧ sD.panic = none ∧ sD.status = .disconnected ∧
      s'.status = .connected ∧ s'.suback = [1] ∧ isUsed s' 1 = false ∧
      Mon.releasedIds (step cfgC sD opD).ev = [] ∧ ¬ PidInv s' := by decide

/-- second way (a modelling artefact, not a defect): `recv` quantifies over arbitrary parser
    results; a PUBACK *parsed as another protocol version* does not erase the stored packet
    (`Store::erase` compares versions) yet releases the id: (ii) breaks.  A real parser for
    version `v` returns version-`v` packets. -/
theorem witness_foreign_version_ack :
    let s := run cfgC s0 [.send connect5, .recv connackBytes (okp (connack5 false [])), .acquire, .send pub1]
    let s' := (step cfgC s (.recv pubackBytes (okp (puback 4 1)))).s
    PidInv s ∧ s'.store.length = 1 ∧ isUsed s' 1 = false := by decide

/-- fixed by ba1a812 (was `witness_release_owned`: `release id` of an id owned by a wait set broke
    (i) — the id stayed awaited by SUBACK while free): the id now leaves the wait set with the
    release, the ownership invariant holds afterwards, and `notify_closed` announces nothing for it. -/
theorem witness_release_owned_fixed :
    let s := run cfgC s0 [.send connect5, .recv connackBytes (okp (connack5 false [])), .acquire, .send sub1]
    PidInv s ∧ s.suback = [1] ∧ owned s 1 ∧ LegalOp s (.release 1) ∧
    (step cfgC s (.release 1)).ev = [.released 1] ∧ (step cfgC s (.release 1)).s.suback = [] ∧
    PidInv (step cfgC s (.release 1)).s ∧
    Mon.releasedIds (step cfgC (run cfgC s [.release 1, .acquire]) .closed).ev = [] := by decide

/-- the same for a QoS 1 PUBLISH in flight on a non-persistent session under Receive Maximum 10: the
    id leaves `puback` and the credit comes back -/
theorem witness_release_awaited_publish_fixed :
    let s := run cfgC s0 [.send { connect5 with props := [] }, .recv connackBytes (okp (connack5 false [(pRM, 10)])),
      .acquire, .send pub1]
    PidInv s ∧ s.puback = [1] ∧ s.store = [] ∧ s.sendCount = 1 ∧ LegalOp s (.release 1) ∧
    (step cfgC s (.release 1)).ev = [.released 1] ∧ (step cfgC s (.release 1)).s.puback = [] ∧
    (step cfgC s (.release 1)).s.sendCount = 0 ∧ PidInv (step cfgC s (.release 1)).s := by decide

/-- still there after ba1a812 (the fix does not touch the store): `release id` of the id of a STORED
    PUBLISH leaves the stored packet with a free identifier — (ii) breaks: legality must exclude it. -/
theorem witness_release_stored :
    let s := run cfgC s0 [.send connect5, .recv connackBytes (okp (connack5 false [])), .acquire, .send pub1]
    PidInv s ∧ s.puback = [1] ∧ s.store.map (·.1) = [1] ∧ ¬ LegalOp s (.release 1) ∧
    (step cfgC s (.release 1)).s.puback = [] ∧ (step cfgC s (.release 1)).s.store.map (·.1) = [1] ∧
    isUsed (step cfgC s (.release 1)).s 1 = false ∧ ¬ PidInv (step cfgC s (.release 1)).s := by decide

/-- still there after ba1a812 (`pubcomp` is not among the sets the release clears): `release id` of an
    id awaited by PUBCOMP breaks (i): legality must exclude it. -/
theorem witness_release_pubcomp :
    let s := run cfgC s0 [.send { connect5 with props := [] }, .recv connackBytes (okp (connack5 false [])), .acquire,
      .send pubrel1]
    PidInv s ∧ s.pubcomp = [1] ∧ s.store = [] ∧ ¬ LegalOp s (.release 1) ∧
    (step cfgC s (.release 1)).s.pubcomp = [1] ∧ isUsed (step cfgC s (.release 1)).s 1 = false ∧
    ¬ PidInv (step cfgC s (.release 1)).s := by decide

/-- finding #24 (fixed): a restored export with a duplicate id, id 0 and an id above the maximum
    registers id 5 once (first entry wins: `puback`), ignores the rest, and keeps `PidInv`
    (`C08_PidInv_restorePackets` proves this for every list). -/
theorem witness_restore_fixed :
    let s := (step cfgC s0 (.restorePackets [pq 1 5, pq 2 5, pq 1 0, pq 2 65536])).s
    s.puback = [5] ∧ s.pubrec = [] ∧ s.store.length = 1 ∧ isUsed s 5 = true ∧ PidInv s := by decide

/-- fixed by 1d0ef05 (was part of `witness_silent_refusals`): a version mismatch and a role
    refusal (`Server` sending SUBSCRIBE) release the identifier like every other refusal -/
theorem witness_gate_refusals_release :
    let s1 := (step cfgC s0 .acquire).s
    isUsed s1 1 = true ∧
    (step cfgC s1 (.send { sub1 with ver := 4 })).ev = [.error eVersionMismatch, .released 1] ∧
    isUsed (step cfgC s1 (.send { sub1 with ver := 4 })).s 1 = false ∧
    (step { cfgC with role := .server } s1 (.send sub1)).ev = [.error eNotAllowed, .released 1] ∧
    isUsed (step { cfgC with role := .server } s1 (.send sub1)).s 1 = false := by decide

/-- the refusal that still keeps the id silently (cf. `C08_refusal_without_release`): PUBREL
    while not connected and not persistent (finding #23: afterwards id 1 is in use, owned by
    nobody, and survives `notify_closed`). -/
theorem witness_silent_refusals :
    let s1 := (step cfgC s0 .acquire).s
    (step cfgC s1 (.send pubrel1)).ev = [.error eNotAllowed] ∧
    isUsed (run cfgC s1 [.send pubrel1, .closed]) 1 = true ∧
    waitIds (run cfgC s1 [.send pubrel1, .closed]) = [] := by decide

/-! ## 6. non-vacuity: concrete reachable states / inputs satisfying the hypotheses -/
namespace W
/-- connected client, SUBSCRIBE id 1 and QoS 1 PUBLISH id 2 in flight (the PUBLISH stored) -/
def sB : St := run cfgC s0 [.send connect5, .recv connackBytes (okp (connack5 false [])), .acquire,
  .send sub1, .acquire, .send { pub1 with pid := some 2 }]
/-- an allocator `[1, 255]` (`pw = 1`) with every id handed out -/
def cfg1 : Cfg := { role := .client, pw := 1 }
def sFull : St := run cfg1 (St.init cfg1 4) (List.replicate 255 .acquire)
end W

example : W.cfgC.pw = 2 ∨ W.cfgC.pw = 4 := by decide
example : 1 ≤ W.cfgC.idMax ∧ W.cfgC.idMax = 65535 := by decide
/-- hypotheses of §1–§3: a well-formed reachable state with ids in use, wait sets and store non-empty -/
example : Reachable W.cfgC 5 W.sB ∧ PidWf W.cfgC W.sB ∧ W.sB.suback = [1] ∧ W.sB.puback = [2] ∧
    W.sB.store.length = 1 ∧ isUsed W.sB 1 = true ∧ isUsed W.sB 2 = true ∧ isUsed W.sB 3 = false :=
  ⟨⟨_, rfl⟩, by decide⟩
/-- `C08_acquire_fresh`: the next id is 3 -/
example : (acquire { cfg := W.cfgC, s := W.sB }).1 = some 3 := by decide
/-- `C08_exhaustion`: all 255 ids of a one-byte id type in use, `acquire` reports exhaustion,
    and the id calls stay total there (0, max, max+1) -/
example : PidWf W.cfg1 W.sFull ∧ (acquire { cfg := W.cfg1, s := W.sFull }).1 = none ∧
    isUsed W.sFull 1 = true ∧ isUsed W.sFull 255 = true ∧ isUsed W.sFull 0 = false ∧
    isUsed W.sFull 256 = false ∧
    (step W.cfg1 W.sFull (.release 0)).s.panic = none ∧ (step W.cfg1 W.sFull (.release 255)).s.panic = none ∧
    (step W.cfg1 W.sFull (.release 256)).s.panic = none ∧
    (register { cfg := W.cfg1, s := W.sFull } 0).1 = false ∧
    (register { cfg := W.cfg1, s := (step W.cfg1 W.sFull (.release 255)).s } 255).1 = true := by
  decide +kernel
/-- `C08_used_not_reissued` / `C08_register_iff_free` -/
example : isUsed W.sB 2 = true ∧ (register { cfg := W.cfgC, s := W.sB } 2).1 = false ∧
    (register { cfg := W.cfgC, s := W.sB } 7).1 = true ∧ (register { cfg := W.cfgC, s := W.sB } 0).1 = false ∧
    (register { cfg := W.cfgC, s := W.sB } 65536).1 = false := by decide
/-- `C08_release_exact` (d)/(e): a call that starts a new session, and one that does not -/
example : startsNewSession W.cfgC (run W.cfgC W.sB [.closed]) (.send { W.connect5 with clean := true }) = true ∧
    startsNewSession W.cfgC W.sB (.recv W.pubackBytes (W.okp (W.puback 5 2))) = false ∧
    Mon.releasedIds (step W.cfgC W.sB (.recv W.pubackBytes (W.okp (W.puback 5 2)))).ev = [2] := by decide
/-- `C08_released_once`: PUBACK 2 announces id 2; a second PUBACK 2 and a close announce it no more -/
example : 2 ∈ Mon.releasedIds (step W.cfgC W.sB (.recv W.pubackBytes (W.okp (W.puback 5 2)))).ev ∧
    (∀ o ∈ [Op.recv W.pubackBytes (W.okp (W.puback 5 2)), Op.closed], takesIds o = false) ∧
    (runEvents W.cfgC (step W.cfgC W.sB (.recv W.pubackBytes (W.okp (W.puback 5 2)))).s
      [Op.recv W.pubackBytes (W.okp (W.puback 5 2)), Op.closed]).map Mon.releasedIds = [[], [1]] := by
  refine ⟨by decide, ?_, by decide⟩
  intro o ho
  simp only [List.mem_cons, List.not_mem_nil, or_false] at ho
  rcases ho with rfl | rfl <;> rfl
/-- `C08_release_on_completion`: a PUBACK for id 2 is delivered -/
example : Delivers W.cfgC W.sB W.pubackBytes (W.okp (W.puback 5 2)) 4 (.ok (W.puback 5 2)) ∧
    (W.puback 5 2).pid.getD 0 ∈ W.sB.puback :=
  ⟨⟨{}, 0x40, [0, 1], [], by decide, by decide, by decide, by decide, by decide, rfl⟩, by decide⟩
/-- `C08_release_on_refusal`: v5.0 PUBLISH QoS 1 with in-use id 3, larger than the peer's
    Maximum Packet Size (the refusal that kept the id silently before the fix of finding #5) -/
example :
    let s := run W.cfgC W.s0 [.send W.connect5, .recv W.connackBytes (W.okp (W.connack5 false [(pMPS, 50)])),
      .acquire]
    let p : Pkt := { W.pub1 with pid := some 1 }
    s.ver = p.ver ∧ roleMaySend W.cfgC.role p = true ∧ (p.kind = .publish ∧ p.qos > 0) ∧
      p.pid = some 1 ∧ isUsed s 1 = true ∧ errs (step W.cfgC s (.send p)).ev = [eTooLarge] := by decide
/-- `C08_refused_send_releases` on the same call: the monitor's hypotheses hold -/
example :
    let s := run W.cfgC W.s0 [.send W.connect5, .recv W.connackBytes (W.okp (W.connack5 false [(pMPS, 50)])),
      .acquire]
    let p : Pkt := { W.pub1 with pid := some 1 }
    Mon.hasError (step W.cfgC s (.send p)).ev = true ∧ (∀ q r, Ev.send q r ∉ (step W.cfgC s (.send p)).ev) ∧
      storeHas 1 (step W.cfgC s (.send p)).s.store = false ∧ isUsed s 1 = true ∧ ¬ owned s 1 ∧
      (step W.cfgC s (.send p)).ev = [.error eTooLarge, .released 1] := by
  refine ⟨by decide, ?_, by decide, by decide, by decide, by decide⟩
  intro q r hm
  have : (step W.cfgC (run W.cfgC W.s0 [.send W.connect5, .recv W.connackBytes (W.okp (W.connack5 false [(pMPS, 50)])),
      .acquire]) (.send { W.pub1 with pid := some 1 })).ev = [.error eTooLarge, .released 1] := by decide
  rw [this] at hm
  simp at hm
/-- `C08_release_on_close` -/
example : 1 ∈ W.sB.suback ∧ isUsed W.sB 1 = true ∧ W.sB.needStore = true := by decide
/-- `C08_PidInv_step_partial`: a legal `release` (id 3 held by the application) in a state with
    non-empty wait sets and store -/
example : PidInv (step W.cfgC W.sB .acquire).s ∧ simpleOp (step W.cfgC W.sB .acquire).s (.release 3) = true ∧
    LegalOp (step W.cfgC W.sB .acquire).s (.release 3) :=
  ⟨by decide, by decide, by show _ ∉ _ ∧ _ = false; decide⟩


/-! ## 7. the driver monitor `C08 completion_not_released` is a theorem of the model

The driver (`Driver/ConnDrv.lean`, `monitorCall`) keeps a ghost `pend : List (Nat × Nat)` of the
outbound exchanges of the running connection — `(id, type nibble of the awaited acknowledgement)` —
and reports `VIOL sig=C08 completion_not_released@<site>` when an awaited PUBACK / PUBREC / PUBCOMP
is not delivered, or its identifier not released.  Below: the ghost update as Lean functions
(`C08.pendReset`, `C08.pendStep`: `Conn/Lemmas/Pend.lean`, verbatim the driver's code), the
relational invariant `PendAgree` — part of `C08.PendInv` —, its preservation by every call under the
contract `C08.PendLegal` (`C08_pend_step`, `C08_pend_run`), and the monitor's claim
(`C08_completion_released`, `C08_monitor_completion_sound`, `C08_completion_released_run`). -/

/-- the ghost the monitor reads (`pend0`): emptied by `closed`, and by a call whose events — the
    whole list, judged before folding — start a new session or a new connection -/
abbrev C08.pendReset (op : Op) (evs : List Ev) (pend : List (Nat × Nat)) : List (Nat × Nat) := Pend.pendReset op evs pend
/-- the fold of the call's events over the ghost (`.send` PUBLISH QoS 1 → `(id,4)`, QoS 2 → `(id,5)`,
    PUBREL → `(id,7)`, each replacing older entries of `id`; a delivered PUBACK / PUBREC / PUBCOMP and
    `NotifyPacketIdReleased` remove the entries of the id) -/
abbrev C08.pendStep (pend0 : List (Nat × Nat)) (evs : List Ev) : List (Nat × Nat) := Pend.pendStep pend0 evs
/-- the ghost after the call -/
abbrev C08.pendNext (op : Op) (evs : List Ev) (pend : List (Nat × Nat)) : List (Nat × Nat) :=
  C08.pendStep (C08.pendReset op evs pend) evs
/-- the ghost along a run -/
abbrev C08.pendRun (cfg : Cfg) (s : St) (pend : List (Nat × Nat)) (ops : List Op) : List (Nat × Nat) :=
  Pend.pendRun cfg s pend ops

/-- **the relational invariant**: a ghost entry `(id, 4 / 5 / 7)` is awaited by the model — `id` is in
    `pid_puback` / `pid_pubrec` / `pid_pubcomp` -/
abbrev PendAgree (s : St) (pend : List (Nat × Nat)) : Prop := Pend.PendAgree s pend

/-- the inductive invariant: `PendAgree`; every stored PUBLISH / PUBREL has its key as identifier, the
    connection's version, pairwise distinct keys, and is awaited (`Pend.StoreOk` — needed because
    `send_stored` re-creates ghost entries from the store); the ghost is empty while `connecting` -/
abbrev C08.PendInv (s : St) (pend : List (Nat × Nat)) : Prop := Pend.PInv s pend

/-- the contract (`Pend.Legal`): `send p` — `p.ver ≠ 0`; `recv` — `Pend.ParseOk parse` (a packet parsed
    for version `v` has `ver = v`, and its kind is the frame's type nibble) and, between connections,
    `closed` was called (ghost empty) or the last peer's Maximum Packet Size admits a 5-byte CONNACK;
    `erase id` — `id` is in use or has no ghost entry; `restorePackets` — PUBLISH / PUBREL packets have
    the connection's determined version; `release id` — no stored packet carries `id` (since fix
    ba1a812 the identifier leaves `puback` / `pubrec` together with its ghost entry, but a stored
    packet would stay behind unawaited and be resent on resume: example below).  NOTHING is required
    of identifier reuse, of `closed`, timers … -/
abbrev C08.PendLegal (s : St) (pend : List (Nat × Nat)) (op : Op) : Prop := Pend.Legal s pend op

theorem C08.pendAgree_def (s : St) (pend : List (Nat × Nat)) :
    PendAgree s pend ↔ ∀ id, ((id, 4) ∈ pend → id ∈ s.puback) ∧ ((id, 5) ∈ pend → id ∈ s.pubrec) ∧
      ((id, 7) ∈ pend → id ∈ s.pubcomp) := Iff.rfl

/-- justifies `VIOL sig=C08 completion_not_released@<site>` (ghost bookkeeping): initially -/
theorem C08_pend_init (cfg : Cfg) (ver : Nat) : C08.PendInv (St.init cfg ver) [] := Pend.PInv_init cfg ver

/-- justifies `VIOL sig=C08 completion_not_released@<site>` (ghost bookkeeping).  **Every** call keeps
    the invariant, the ghost being updated exactly as the driver does: reset judged on the whole
    event list of the call, then the fold.  In particular (a) an oversize stored packet dropped by
    `send_stored` whose identifier is not in use (no `NotifyPacketIdReleased`) leaves no ghost entry:
    the loop is entered with an empty ghost and distinct keys; (b) `notify_closed`, (c) every session
    reset (`clearStoreRelated`, incl. CONNACK Session Expiry Interval 0: a delivered successful CONNACK
    resets the ghost whatever its properties) happen in calls in which the driver empties the ghost;
    (d) `pubRefuseCleanup` deletes wait-set entries only together with `NotifyPacketIdReleased`;
    `erase_stored_publish` needs the contract; (e),(f) a PUBLISH / PUBREL is requested for sending
    only after its identifier entered the wait set, and only while connected. -/
theorem C08_pend_step {cfg : Cfg} {s : St} {pend : List (Nat × Nat)} (h : C08.PendInv s pend) (op : Op)
    (hl : C08.PendLegal s pend op) :
    C08.PendInv (step cfg s op).s (C08.pendNext op (step cfg s op).ev pend) := Pend.PInv_step h op hl

/-- justifies `VIOL sig=C08 completion_not_released@<site>`: along every run from a fresh connection
    object whose calls are within the contract, ghost `[]` initially -/
theorem C08_pend_run {cfg : Cfg} {ver : Nat} (ops : List Op)
    (hl : Pend.LegalRun cfg (St.init cfg ver) [] ops) :
    C08.PendInv (run cfg (St.init cfg ver) ops) (C08.pendRun cfg (St.init cfg ver) [] ops) :=
  Pend.PInv_run ops (Pend.PInv_init cfg ver) hl

/-- **the claim of `VIOL sig=C08 completion_not_released@<site>`**.  A `recv` that completes a frame
    `(fh, data)` not larger than the announced maximum, on a connection of determined version, whose
    parsed packet `p` is a PUBACK / PUBREC / PUBCOMP (kind = the frame's type nibble) carrying
    identifier `id`, with `(id, nibble)` in the ghost the monitor reads (`pend0`): the events contain
    `NotifyPacketReceived p`; and, for PUBACK, PUBCOMP and a v5.0 PUBREC with reason code ≥ 0x80, if
    `id` is in use, `NotifyPacketIdReleased id`.
    Not needed: status `connected` (the monitor's `stBefore = "C"`), `p.ver = s.ver`.
    `hpid` is what lets the monitor test `q.pid = some id`; `isUsed s id` follows from `PidInv`
    (`C08_completion_released_of_PidInv`) — it FAILS after the application reused the identifier
    of a running exchange for a SUBSCRIBE (`example` below): the ownership contract `LegalOp`. -/
theorem C08_completion_released {cfg : Cfg} {s : St} {pend : List (Nat × Nat)} {inp : List Nat}
    {parse : Nat → Nat → List Nat → Except Nat Pkt} {pb : Framing.PB} {fh : Nat} {data rest : List Nat}
    {p : Pkt} {id : Nat}
    (h : PendAgree s pend)
    (hf : Framing.feed s.pb inp = (pb, some (.complete fh data), rest))
    (hsz : totalSize data.length ≤ s.mpsRecv) (hv0 : s.ver ≠ 0)
    (hp : parse s.ver fh data = .ok p) (hnib : p.kind.nibble = fh / 16)
    (hk : p.kind.nibble = 4 ∨ p.kind.nibble = 5 ∨ p.kind.nibble = 7) (hpid : p.pid = some id)
    (hpend : (id, p.kind.nibble) ∈ C08.pendReset (.recv inp parse) (step cfg s (.recv inp parse)).ev pend) :
    Ev.recv p ∈ (step cfg s (.recv inp parse)).ev ∧
    ((p.kind.nibble = 4 ∨ p.kind.nibble = 7 ∨ (p.kind.nibble = 5 ∧ Mon.isErrorRc p.rc = true ∧ p.ver ≠ 4)) →
      isUsed s id = true → id ∈ Mon.releasedIds (step cfg s (.recv inp parse)).ev) := by
  have hin : (id, p.kind.nibble) ∈ pend := by
    rcases Pend.pendReset_cases (.recv inp parse) (step cfg s (.recv inp parse)).ev pend with e | e
    · rw [C08.pendReset, e] at hpend; cases hpend
    · rw [C08.pendReset, e] at hpend; exact hpend
  have hid : p.pid.getD 0 = id := by simp [hpid]
  have ht : fh / 16 = 4 ∨ fh / 16 = 5 ∨ fh / 16 = 7 := by rw [← hnib]; exact hk
  rw [Pend.step_recv_ack hf hsz hv0 ht, hp, ← hnib]
  rcases hk with hk | hk | hk
  · rw [hk] at hin ⊢
    have hm : p.pid.getD 0 ∈ ({ cfg := cfg, s := { s with pb := pb } } : C).s.puback := by rw [hid]; exact (h id).1 hin
    obtain ⟨d1, d2⟩ := Pend.prPuback_delivers _ p hm
    exact ⟨d1, fun _ hu => Pend.mem_releasedIds.2 (hid ▸ d2 (by rw [hid]; exact hu))⟩
  · rw [hk] at hin ⊢
    have hm : p.pid.getD 0 ∈ ({ cfg := cfg, s := { s with pb := pb } } : C).s.pubrec := by rw [hid]; exact (h id).2.1 hin
    obtain ⟨d1, d2⟩ := Pend.prPubrec_delivers _ p hm
    refine ⟨d1, fun hr hu => Pend.mem_releasedIds.2 (hid ▸ d2 ?_ (by rw [hid]; exact hu))⟩
    rcases hr with hr | hr | ⟨_, hr, hv⟩
    · omega
    · omega
    · intro hs
      rcases hs with hs | hs | hs
      · exact hv hs
      · rw [hs] at hr; cases hr
      · rw [hs] at hr; simp [Mon.isErrorRc] at hr
  · rw [hk] at hin ⊢
    have hm : p.pid.getD 0 ∈ ({ cfg := cfg, s := { s with pb := pb } } : C).s.pubcomp := by rw [hid]; exact (h id).2.2 hin
    obtain ⟨d1, d2⟩ := Pend.prPubcomp_delivers _ p hm
    exact ⟨d1, fun _ hu => Pend.mem_releasedIds.2 (hid ▸ d2 (by rw [hid]; exact hu))⟩

/-- the ownership invariant `PidInv` (every identifier of a wait set is in use) supplies `isUsed` -/
theorem C08_completion_released_of_PidInv {cfg : Cfg} {s : St} {pend : List (Nat × Nat)} {inp : List Nat}
    {parse : Nat → Nat → List Nat → Except Nat Pkt} {pb : Framing.PB} {fh : Nat} {data rest : List Nat}
    {p : Pkt} {id : Nat}
    (h : PendAgree s pend) (hi : PidInv s)
    (hf : Framing.feed s.pb inp = (pb, some (.complete fh data), rest))
    (hsz : totalSize data.length ≤ s.mpsRecv) (hv0 : s.ver ≠ 0)
    (hp : parse s.ver fh data = .ok p) (hnib : p.kind.nibble = fh / 16)
    (hk : p.kind.nibble = 4 ∨ p.kind.nibble = 5 ∨ p.kind.nibble = 7) (hpid : p.pid = some id)
    (hpend : (id, p.kind.nibble) ∈ C08.pendReset (.recv inp parse) (step cfg s (.recv inp parse)).ev pend) :
    Ev.recv p ∈ (step cfg s (.recv inp parse)).ev ∧
    ((p.kind.nibble = 4 ∨ p.kind.nibble = 7 ∨ (p.kind.nibble = 5 ∧ Mon.isErrorRc p.rc = true ∧ p.ver ≠ 4)) →
      id ∈ Mon.releasedIds (step cfg s (.recv inp parse)).ev) := by
  obtain ⟨a, b⟩ := C08_completion_released (cfg := cfg) h hf hsz hv0 hp hnib hk hpid hpend
  refine ⟨a, fun hr => b hr (hi.1 id ?_)⟩
  have hin : (id, p.kind.nibble) ∈ pend := by
    rcases Pend.pendReset_cases (.recv inp parse) (step cfg s (.recv inp parse)).ev pend with e | e
    · rw [C08.pendReset, e] at hpend; cases hpend
    · rw [C08.pendReset, e] at hpend; exact hpend
  simp only [waitIds, List.mem_append]
  rcases hk with hk | hk | hk <;> rw [hk] at hin
  · exact .inl (.inl (.inr ((h id).1 hin)))
  · exact .inl (.inr ((h id).2.1 hin))
  · exact .inr ((h id).2.2 hin)

/-- the monitor's tests, literally (`deliveredIt`, `mustRelease`, the reported condition) -/
def C08.deliveredIt (evs : List Ev) (p : Pkt) (id : Nat) : Bool :=
  evs.any fun (e : Ev) => match e with | .recv q => q.kind = p.kind ∧ q.pid = some id | _ => false
def C08.mustRelease (p : Pkt) : Prop :=
  p.kind.nibble = 4 ∨ p.kind.nibble = 7 ∨ (p.kind.nibble = 5 ∧ Mon.isErrorRc p.rc)
instance (p : Pkt) : Decidable (C08.mustRelease p) := by unfold C08.mustRelease; infer_instance
def C08.completionViol (evs : List Ev) (p : Pkt) (id : Nat) : Prop :=
  !C08.deliveredIt evs p id ∨ (C08.mustRelease p ∧ !(Mon.releasedIds evs).contains id)
instance (evs : List Ev) (p : Pkt) (id : Nat) : Decidable (C08.completionViol evs p id) := by
  unfold C08.completionViol; infer_instance

/-- **`VIOL sig=C08 completion_not_released@<site>` never fires on the model**: the monitor's
    condition, literally (`id = p.pid.getD 0`, `nib ∈ {4,5,7}`, `p.ver = ver`, `pend0.contains (id, nib)`,
    a complete frame within the announced maximum), under `PendAgree`, `p.pid = some id`, `id` in use,
    and the parser facts `p.kind.nibble = fh / 16`, `p.ver = 4 ∨ p.ver = 5`, and "a v3.1.1 PUBREC has
    no reason code". -/
theorem C08_monitor_completion_sound {cfg : Cfg} {s : St} {pend : List (Nat × Nat)} {inp : List Nat}
    {parse : Nat → Nat → List Nat → Except Nat Pkt} {pb : Framing.PB} {fh : Nat} {data rest : List Nat}
    {p : Pkt}
    (h : PendAgree s pend) (hu : isUsed s (p.pid.getD 0) = true)
    (hf : Framing.feed s.pb inp = (pb, some (.complete fh data), rest))
    (hsz : totalSize data.length ≤ s.mpsRecv)
    (hp : parse s.ver fh data = .ok p) (hnib : p.kind.nibble = fh / 16)
    (hver : p.ver = (step cfg s (.recv inp parse)).s.ver) (hv45 : p.ver = 4 ∨ p.ver = 5)
    (hrc4 : p.ver = 4 → p.rc = none) (hpid : p.pid.isSome = true)
    (hk : p.kind.nibble = 4 ∨ p.kind.nibble = 5 ∨ p.kind.nibble = 7)
    (hpend : (C08.pendReset (.recv inp parse) (step cfg s (.recv inp parse)).ev pend).contains (p.pid.getD 0, p.kind.nibble) = true) :
    ¬ C08.completionViol (step cfg s (.recv inp parse)).ev p (p.pid.getD 0) := by
  have hv0 : s.ver ≠ 0 := by
    intro h0
    have ht : fh / 16 = 4 ∨ fh / 16 = 5 ∨ fh / 16 = 7 := by rw [← hnib]; exact hk
    have hcan : canReceive cfg { s with pb := pb } (fh / 16) = true := Pend.canReceive_ack _ _ ht
    have e : (step cfg s (.recv inp parse)).s.ver = 0 := by
      have h1 : ¬ fh / 16 = 1 := by omega
      simp only [step, recv, hf, processRecvPacket, Nat.not_lt.2 hsz, if_false, hcan, Bool.not_true,
        Bool.false_eq_true, h0, if_true, h1]
      split <;> rfl
    rw [e] at hver; omega
  obtain ⟨id, hid⟩ := Option.isSome_iff_exists.1 hpid
  have hgd : p.pid.getD 0 = id := by simp [hid]
  rw [hgd] at hu hpend ⊢
  have hpend' := List.contains_iff_mem.1 hpend
  obtain ⟨a, b⟩ := C08_completion_released (cfg := cfg) h hf hsz hv0 hp hnib hk hid hpend'
  intro hviol
  rcases hviol with hv | ⟨hm, hv⟩
  · have : C08.deliveredIt (step cfg s (.recv inp parse)).ev p id = true := by
      unfold C08.deliveredIt
      rw [List.any_eq_true]
      exact ⟨_, a, by simp [hid]⟩
    rw [this] at hv; cases hv
  · have hr : id ∈ Mon.releasedIds (step cfg s (.recv inp parse)).ev := by
      refine b ?_ hu
      rcases hm with hm | hm | ⟨h5, hrc⟩
      · exact .inl hm
      · exact .inr (.inl hm)
      · refine .inr (.inr ⟨h5, hrc, fun h4 => ?_⟩)
        rw [hrc4 h4] at hrc; cases hrc
    rw [List.contains_iff_mem.2 hr] at hv; cases hv

/-- **run-level corollary** of `VIOL sig=C08 completion_not_released@<site>`: after any sequence of
    calls within the contract on a fresh connection object, with the ghost computed by the driver's
    rules from `[]`, the claim holds for the next `recv`. -/
theorem C08_completion_released_run {cfg : Cfg} {ver : Nat} (ops : List Op)
    (hl : Pend.LegalRun cfg (St.init cfg ver) [] ops)
    {inp : List Nat} {parse : Nat → Nat → List Nat → Except Nat Pkt} {pb : Framing.PB} {fh : Nat}
    {data rest : List Nat} {p : Pkt} {id : Nat}
    (hf : Framing.feed (run cfg (St.init cfg ver) ops).pb inp = (pb, some (.complete fh data), rest))
    (hsz : totalSize data.length ≤ (run cfg (St.init cfg ver) ops).mpsRecv)
    (hv0 : (run cfg (St.init cfg ver) ops).ver ≠ 0)
    (hp : parse (run cfg (St.init cfg ver) ops).ver fh data = .ok p) (hnib : p.kind.nibble = fh / 16)
    (hk : p.kind.nibble = 4 ∨ p.kind.nibble = 5 ∨ p.kind.nibble = 7) (hpid : p.pid = some id)
    (hpend : (id, p.kind.nibble) ∈ C08.pendReset (.recv inp parse)
      (step cfg (run cfg (St.init cfg ver) ops) (.recv inp parse)).ev (C08.pendRun cfg (St.init cfg ver) [] ops)) :
    Ev.recv p ∈ (step cfg (run cfg (St.init cfg ver) ops) (.recv inp parse)).ev ∧
    ((p.kind.nibble = 4 ∨ p.kind.nibble = 7 ∨ (p.kind.nibble = 5 ∧ Mon.isErrorRc p.rc = true ∧ p.ver ≠ 4)) →
      isUsed (run cfg (St.init cfg ver) ops) id = true →
      id ∈ Mon.releasedIds (step cfg (run cfg (St.init cfg ver) ops) (.recv inp parse)).ev) :=
  C08_completion_released (C08_pend_run ops hl).agree hf hsz hv0 hp hnib hk hpid hpend


/-! ### non-vacuity and necessity of every hypothesis (all `decide`-checked) -/
namespace W
/-- a parser satisfying `Pend.ParseOk`: returns `p` for frames of `p`'s type parsed for `p`'s version -/
def okv (p : Pkt) : Nat → Nat → List Nat → Except Nat Pkt :=
  fun v fh _ => if v = p.ver ∧ fh / 16 = p.kind.nibble then .ok p else .error eMalformed
theorem parseOk_okv (p : Pkt) : Pend.ParseOk (okv p) := by
  intro v fh data q h
  unfold okv at h
  split at h
  · rename_i hc; cases h; exact ⟨hc.1.symm, hc.2.symm⟩
  · cases h
theorem parseOk_err (e : Nat) : Pend.ParseOk (fun _ _ _ => .error e) := by
  intro v fh data q h; cases h
def pubackB (id : Nat) : List Nat := [0x40, 2, 0, id]
def pubrecB (id : Nat) : List Nat := [0x50, 2, 0, id]
def connectBytes : List Nat := [0x10, 7, 0, 4, 77, 81, 84, 84, 5]
def pubrec (v id : Nat) (rc : Option Nat) : Pkt := { ver := v, kind := .pubrec, pid := some id, size := 4, rc := rc }
/-- `sB` (connected client, SUBSCRIBE id 1 and QoS 1 PUBLISH id 2 in flight) as a run of legal calls -/
def opsB : List Op := [.send connect5, .recv connackBytes (okv (connack5 false [])), .acquire,
  .send sub1, .acquire, .send { pub1 with pid := some 2 }]
def sB' : St := run cfgC s0 opsB
def gB : List (Nat × Nat) := Pend.pendRun cfgC s0 [] opsB
end W

/-- `C08_pend_run`: a run within the contract; its ghost is `[(2, 4)]` and the invariant holds -/
example : Pend.LegalRun W.cfgC W.s0 [] W.opsB :=
  ⟨by simp only [Pend.Legal]; decide, ⟨W.parseOk_okv _, by decide⟩, trivial, by simp only [Pend.Legal]; decide, trivial,
    by simp only [Pend.Legal]; decide, trivial⟩
example : W.gB = [(2, 4)] ∧ C08.PendInv W.sB' W.gB ∧ W.sB'.puback = [2] ∧ W.sB'.store.length = 1 := by decide

/-- `C08_completion_released` / `C08_monitor_completion_sound`: every hypothesis holds for the PUBACK of
    identifier 2 in that state, and the conclusion is not vacuous: it is delivered and 2 is released -/
example :
    let op : Op := .recv (W.pubackB 2) (W.okv (W.puback 5 2))
    PendAgree W.sB' W.gB ∧ isUsed W.sB' 2 = true ∧
    Framing.feed W.sB'.pb (W.pubackB 2) = ({}, some (.complete 0x40 [0, 2]), []) ∧
    totalSize [0, 2].length ≤ W.sB'.mpsRecv ∧ W.sB'.ver ≠ 0 ∧
    (W.okv (W.puback 5 2) W.sB'.ver 0x40 [0, 2]).toOption = some (W.puback 5 2) ∧ (W.puback 5 2).kind.nibble = 0x40 / 16 ∧
    (2, 4) ∈ C08.pendReset op (step W.cfgC W.sB' op).ev W.gB ∧
    Ev.recv (W.puback 5 2) ∈ (step W.cfgC W.sB' op).ev ∧ Mon.releasedIds (step W.cfgC W.sB' op).ev = [2] ∧
    ¬ C08.completionViol (step W.cfgC W.sB' op).ev (W.puback 5 2) 2 ∧
    C08.pendNext op (step W.cfgC W.sB' op).ev W.gB = [] := by decide


/-! #### hypotheses of the claim (`C08_completion_released`) -/

/-- `hsz` is needed: the client announced Maximum Packet Size 3; the awaited PUBACK (4 bytes) is
    answered with `PacketTooLarge` and not delivered, although `(1, 4)` is in the ghost and `PendAgree`
    holds -/
example :
    let s := run W.cfgC W.s0 [.send { W.connect5 with props := [(pSEI, 100), (pMPS, 3)] },
      .recv W.connackBytes (W.okv (W.connack5 false [])), .acquire, .send W.pub1]
    let op : Op := .recv (W.pubackB 1) (W.okv (W.puback 5 1))
    PendAgree s [(1, 4)] ∧ s.ver ≠ 0 ∧ (1, 4) ∈ C08.pendReset op (step W.cfgC s op).ev [(1, 4)] ∧
    ¬ (totalSize [0, 1].length ≤ s.mpsRecv) ∧ Ev.recv (W.puback 5 1) ∉ (step W.cfgC s op).ev ∧
    Mon.hasErrorCode (step W.cfgC s op).ev eTooLarge = true := by decide

/-- `hv0` is needed (state not reachable within the contract: with an undetermined version nothing
    can have been sent): `PendAgree` holds, the PUBACK is refused as malformed -/
example :
    let s : St := { St.init W.cfgC 0 with puback := [1] }
    let op : Op := .recv (W.pubackB 1) (W.okp (W.puback 5 1))
    PendAgree s [(1, 4)] ∧ (1, 4) ∈ C08.pendReset op (step W.cfgC s op).ev [(1, 4)] ∧
    (step W.cfgC s op).ev = [.error eMalformed] := by decide

/-- `hnib` is needed: a frame of type 5 (PUBREC) for which the parser hands out a PUBACK goes to the
    PUBREC handler; `(2, 4)` is in the ghost, nothing is delivered -/
example :
    let op : Op := .recv (W.pubrecB 2) (W.okp (W.puback 5 2))
    PendAgree W.sB' W.gB ∧ (2, 4) ∈ C08.pendReset op (step W.cfgC W.sB' op).ev W.gB ∧
    (W.puback 5 2).kind.nibble ≠ 0x50 / 16 ∧ Ev.recv (W.puback 5 2) ∉ (step W.cfgC W.sB' op).ev := by decide

/-- `hpid` is needed for the monitor's test `q.pid = some id` (state not reachable: identifier 0 is
    never awaited): a packet without identifier is looked up as 0 and delivered, yet
    `deliveredIt` is false -/
example :
    let s : St := { W.sB' with puback := [0] }
    let p : Pkt := { ver := 5, kind := .puback, size := 2 }
    let op : Op := .recv (W.pubackB 0) (W.okp p)
    PendAgree s [(0, 4)] ∧ Ev.recv p ∈ (step W.cfgC s op).ev ∧ C08.deliveredIt (step W.cfgC s op).ev p 0 = false := by
  decide

namespace W
def suback1 : Pkt := { ver := 5, kind := .suback, pid := some 1, size := 5 }
def subackB (id : Nat) : List Nat := [0x90, 3, 0, id, 0]
/-- client, persistent session: QoS 1 PUBLISH id 1 in flight and stored; the APPLICATION REUSES
    identifier 1 for a SUBSCRIBE (allowed by `C08.PendLegal`, forbidden by the ownership contract
    `LegalOp`), whose SUBACK releases it; the connection closes and the session is resumed: the
    PUBLISH is sent again.  (Until fix ba1a812 the witness was `release 1` in place of the SUBSCRIBE /
    SUBACK; that call is now outside `C08.PendLegal` — `opsO` below.) -/
def opsE : List Op := [.send connect5, .recv connackBytes (okv (connack5 false [])), .acquire, .send pub1,
  .send sub1, .recv (subackB 1) (okv suback1), .closed, .send connect5, .recv connackBytes (okv (connack5 true []))]
def sE : St := run cfgC s0 opsE
def gE : List (Nat × Nat) := Pend.pendRun cfgC s0 [] opsE
end W

/-- **`isUsed s id` is needed — and this is where the monitor is NOT a theorem of the model under
    `C08.PendLegal` alone**: after the run `W.opsE` (every call within `C08.PendLegal`; the SUBSCRIBE
    with identifier 1 violates only `LegalOp`: the identifier is `owned`) the ghost is `[(1, 4)]`, `PendInv` holds, identifier 1 is awaited but
    free; the PUBACK is delivered, nothing is released, and the monitor's condition holds
    (`completionViol`).  Under the ownership contract (`PidInv`) it cannot happen:
    `C08_completion_released_of_PidInv`. -/
example :
    let op : Op := .recv (W.pubackB 1) (W.okv (W.puback 5 1))
    W.gE = [(1, 4)] ∧ C08.PendInv W.sE W.gE ∧ isUsed W.sE 1 = false ∧ ¬ PidInv W.sE ∧
    owned (run W.cfgC W.s0 (W.opsE.take 4)) 1 ∧ ¬ LegalOp (run W.cfgC W.s0 (W.opsE.take 4)) (.send W.sub1) ∧
    Ev.recv (W.puback 5 1) ∈ (step W.cfgC W.sE op).ev ∧ Mon.releasedIds (step W.cfgC W.sE op).ev = [] ∧
    C08.completionViol (step W.cfgC W.sE op).ev (W.puback 5 1) 1 := by decide

/-- the `p.ver ≠ 4` / "a v3.1.1 PUBREC has no reason code" clause is needed: a v3.1.1 PUBREC to which
    the parser attaches reason code 0x80 is a success for the model (no release), the monitor's
    `mustRelease` holds -/
example :
    let s := run W.cfgC (St.init W.cfgC 4) [.send { W.connect5 with ver := 4 },
      .recv W.connackBytes (W.okp { W.connack5 false [] with ver := 4 }), .acquire,
      .send { ver := 4, kind := .publish, pid := some 1, qos := 2, topic := [97] }]
    let p := W.pubrec 4 1 (some 0x80)
    let op : Op := .recv (W.pubrecB 1) (W.okp p)
    PendAgree s [(1, 5)] ∧ isUsed s 1 = true ∧ C08.mustRelease p ∧
    Ev.recv p ∈ (step W.cfgC s op).ev ∧ Mon.releasedIds (step W.cfgC s op).ev = [] := by decide

/-- a failing v5.0 PUBREC (reason code 0x80) releases; reason code 0x10 (< 0x80) is "not success" for
    the model — it releases too — but the monitor does not ask for it -/
example :
    let s := run W.cfgC W.s0 [.send W.connect5, .recv W.connackBytes (W.okv (W.connack5 false [])), .acquire,
      .send (W.pq 2 1)]
    PendAgree s [(1, 5)] ∧
    Mon.releasedIds (step W.cfgC s (.recv (W.pubrecB 1) (W.okv (W.pubrec 5 1 (some 0x80))))).ev = [1] ∧
    Mon.releasedIds (step W.cfgC s (.recv (W.pubrecB 1) (W.okv (W.pubrec 5 1 (some 0x10))))).ev = [1] ∧
    ¬ C08.mustRelease (W.pubrec 5 1 (some 0x10)) ∧
    Mon.releasedIds (step W.cfgC s (.recv (W.pubrecB 1) (W.okv (W.pubrec 5 1 none)))).ev = [] := by decide


/-- the run `W.opsE` is within the contract `C08.PendLegal` -/
example : Pend.LegalRun W.cfgC W.s0 [] W.opsE :=
  ⟨by simp only [Pend.Legal]; decide, ⟨W.parseOk_okv _, by decide⟩, trivial, by simp only [Pend.Legal]; decide,
    by simp only [Pend.Legal]; decide, ⟨W.parseOk_okv _, by decide⟩, trivial,
    by simp only [Pend.Legal]; decide, ⟨W.parseOk_okv _, by decide⟩, trivial⟩

/-! #### clauses of the contract `C08.PendLegal` (`C08_pend_step`) -/

/-- `erase id` — "in use, or no ghost entry" is needed: in the state `W.sE` (reachable within the
    contract) `erase 1` removes identifier 1 from `pid_puback` without `NotifyPacketIdReleased`
    (the identifier is not in use): the ghost keeps `(1, 4)`, `PendAgree` breaks, and the next PUBACK
    of identifier 1 is a protocol error — the monitor fires -/
example :
    let s' := (step W.cfgC W.sE (.erase 1)).s
    let g' := C08.pendNext (.erase 1) (step W.cfgC W.sE (.erase 1)).ev W.gE
    let op : Op := .recv (W.pubackB 1) (W.okv (W.puback 5 1))
    C08.PendInv W.sE W.gE ∧ isUsed W.sE 1 = false ∧ (1, 4) ∈ W.gE ∧
    g' = [(1, 4)] ∧ s'.puback = [] ∧ ¬ PendAgree s' g' ∧
    Ev.recv (W.puback 5 1) ∉ (step W.cfgC s' op).ev ∧ Mon.hasErrorCode (step W.cfgC s' op).ev eProtocol = true := by
  decide

namespace W
/-- the run that was `opsE` until fix ba1a812: the application RELEASES the identifier of the stored
    QoS 1 PUBLISH, the connection closes and the session is resumed -/
def opsO : List Op := [.send connect5, .recv connackBytes (okv (connack5 false [])), .acquire, .send pub1,
  .release 1, .closed, .send connect5, .recv connackBytes (okv (connack5 true []))]
end W

/-- `release id` — "no stored packet carries `id`" is needed (new with fix ba1a812; before it the
    release left `pid_puback` alone and this run kept `PendInv`): the prefix is within the contract,
    `release 1` violates only this clause; it takes identifier 1 out of `pid_puback` and the ghost,
    the stored PUBLISH stays (`PendInv` breaks: the stored packet is not awaited), and the resumed
    session sends it again: the ghost holds `(1, 4)`, the model awaits nothing, the PUBACK is a
    protocol error — the monitor fires -/
example :
    let s4 := run W.cfgC W.s0 (W.opsO.take 4)
    let g4 := C08.pendRun W.cfgC W.s0 [] (W.opsO.take 4)
    let s5 := run W.cfgC W.s0 (W.opsO.take 5)
    let g5 := C08.pendRun W.cfgC W.s0 [] (W.opsO.take 5)
    let s := run W.cfgC W.s0 W.opsO
    let g := C08.pendRun W.cfgC W.s0 [] W.opsO
    let op : Op := .recv (W.pubackB 1) (W.okv (W.puback 5 1))
    C08.PendInv s4 g4 ∧ g4 = [(1, 4)] ∧ s4.puback = [1] ∧ storeHas 1 s4.store = true ∧
    g5 = [] ∧ s5.puback = [] ∧ s5.store.map (·.1) = [1] ∧ PendAgree s5 g5 ∧ ¬ C08.PendInv s5 g5 ∧
    g = [(1, 4)] ∧ s.puback = [] ∧ ¬ PendAgree s g ∧
    Ev.recv (W.puback 5 1) ∉ (step W.cfgC s op).ev ∧ Mon.hasErrorCode (step W.cfgC s op).ev eProtocol = true := by
  decide
example : Pend.LegalRun W.cfgC W.s0 [] (W.opsO.take 4) ∧
    ¬ C08.PendLegal (run W.cfgC W.s0 (W.opsO.take 4)) (C08.pendRun W.cfgC W.s0 [] (W.opsO.take 4)) (.release 1) := by
  refine ⟨⟨by simp only [Pend.Legal]; decide, ⟨W.parseOk_okv _, by decide⟩, trivial, by simp only [Pend.Legal]; decide, trivial⟩, ?_⟩
  show ¬ (storeHas 1 _ = false)
  decide

/-- `recv` — `ParseOk`, kind: a frame of type 5 for which the parser hands out a packet of kind
    PUBLISH is processed as a (successful) PUBREC — identifier 1 leaves `pid_pubrec`, nothing is
    released — but the delivered packet does not remove the ghost entry: `PendAgree` breaks at once.
    (For PUBACK / PUBCOMP the `NotifyPacketIdReleased` removes the entry as long as the identifier
    is in use.) -/
example :
    let s := run W.cfgC W.s0 [.send W.connect5, .recv W.connackBytes (W.okv (W.connack5 false [])), .acquire,
      .send (W.pq 2 1)]
    let p : Pkt := { ver := 5, kind := .publish, pid := some 1, topic := [97] }
    let op : Op := .recv (W.pubrecB 1) (W.okp p)
    C08.PendInv s [(1, 5)] ∧ p.ver = s.ver ∧ p.kind.nibble ≠ 0x50 / 16 ∧
    C08.pendNext op (step W.cfgC s op).ev [(1, 5)] = [(1, 5)] ∧ (step W.cfgC s op).s.pubrec = [] ∧
    ¬ PendAgree (step W.cfgC s op).s (C08.pendNext op (step W.cfgC s op).ev [(1, 5)]) := by decide

/-- `recv` — `ParseOk`, version: a PUBACK the parser labels v3.1.1 on a v5.0 connection does not erase
    the stored PUBLISH (`Store::erase` compares versions) while the identifier leaves `pid_puback`;
    after a close and a resumed session (calls within the contract) the PUBLISH is sent again: the
    ghost holds `(2, 4)`, the model awaits nothing -/
example :
    let p := W.puback 4 2
    let ops : List Op := [.recv (W.pubackB 2) (W.okp p), .closed, .send W.connect5,
      .recv W.connackBytes (W.okv (W.connack5 true []))]
    C08.PendInv W.sB' W.gB ∧ p.kind.nibble = 0x40 / 16 ∧ p.ver ≠ W.sB'.ver ∧
    C08.pendRun W.cfgC W.sB' W.gB ops = [(2, 4)] ∧ (run W.cfgC W.sB' ops).puback = [] ∧
    ¬ PendAgree (run W.cfgC W.sB' ops) (C08.pendRun W.cfgC W.sB' W.gB ops) := by decide

namespace W
def cfgA : Cfg := { role := .any, pw := 2 }
def pub0 : Pkt := { ver := 0, kind := .publish, pid := some 1, qos := 1, topic := [97] }
def connectS5 : Pkt := { ver := 5, kind := .connect, size := 20, props := [(pSEI, 100)] }
def connackS (sp : Bool) : Pkt := { ver := 5, kind := .connack, size := 8, rc := some 0, sp := sp }
/-- an undetermined connection with offline publishing sends a "version 0" PUBLISH (stored); then a
    v5.0 client connects twice, the session being resumed both times -/
def opsZ1 : List Op := [.setFlag .offline true, .acquire, .send pub0]
def opsZ2 : List Op := [.recv connectBytes (okv connectS5), .send (connackS true),
  .recv (pubackB 1) (okv (puback 5 1)), .closed, .recv connectBytes (okv connectS5), .send (connackS true)]
def opsZ : List Op := opsZ1 ++ opsZ2
end W

/-- the calls after the version-0 `send` are within the contract (so are `setFlag` and `acquire`) -/
example : Pend.LegalRun W.cfgA (run W.cfgA (St.init W.cfgA 0) W.opsZ1) (C08.pendRun W.cfgA (St.init W.cfgA 0) [] W.opsZ1) W.opsZ2 :=
  ⟨⟨W.parseOk_okv _, by decide⟩, by simp only [Pend.Legal]; decide, ⟨W.parseOk_okv _, by decide⟩, trivial,
    ⟨W.parseOk_okv _, by decide⟩, by simp only [Pend.Legal]; decide, trivial⟩

/-- `send` — `p.ver ≠ 0` is needed: every call of `W.opsZ` but the `send` of the version-0 PUBLISH is
    within the contract; the stored packet is not erased by the v5.0 PUBACK, and the second resume
    creates the ghost entry `(1, 4)` for an exchange the model completed -/
example :
    C08.pendRun W.cfgA (St.init W.cfgA 0) [] W.opsZ = [(1, 4)] ∧ (run W.cfgA (St.init W.cfgA 0) W.opsZ).puback = [] ∧
    (run W.cfgA (St.init W.cfgA 0) W.opsZ).ver = 5 ∧
    ¬ PendAgree (run W.cfgA (St.init W.cfgA 0) W.opsZ) (C08.pendRun W.cfgA (St.init W.cfgA 0) [] W.opsZ) := by decide

/-- `restorePackets` — "PUBLISH / PUBREL packets have the connection's version" is needed: a restored
    v3.1.1 PUBLISH on a v5.0 connection, then two resumed connections with the PUBACK in between -/
example :
    let ops : List Op := [.restorePackets [{ W.pq 1 1 with ver := 4 }], .send W.connect5,
      .recv W.connackBytes (W.okv (W.connack5 true [])), .recv (W.pubackB 1) (W.okv (W.puback 5 1)), .closed,
      .send W.connect5, .recv W.connackBytes (W.okv (W.connack5 true []))]
    C08.pendRun W.cfgC W.s0 [] ops = [(1, 4)] ∧ (run W.cfgC W.s0 ops).puback = [] ∧
    ¬ PendAgree (run W.cfgC W.s0 ops) (C08.pendRun W.cfgC W.s0 [] ops) := by decide

namespace W
def cfgS : Cfg := { role := .server, pw := 2 }
/-- a server whose client announced Maximum Packet Size 4 (and to which — in the model only, no real
    v5.0 CONNACK has 3 bytes — a 3-byte CONNACK was sent), PUBREL id 1 in flight, a protocol error
    (DISCONNECT sent, `notify_closed` NOT called), then a CONNECT that fails to parse: the refusing
    CONNACK (5 bytes) does not fit -/
def opsM : List Op := [.recv connectBytes (okv { connectS5 with props := [(pSEI, 100), (pMPS, 4)] }),
  .send { connackS false with size := 3 }, .acquire, .send pubrel1,
  .recv (pubackB 9) (okv (puback 5 9))]
def sM : St := run cfgS (St.init cfgS 5) opsM
def gM : List (Nat × Nat) := Pend.pendRun cfgS (St.init cfgS 5) [] opsM
end W

/-- `recv` — "between connections `closed` was called, or the last peer's Maximum Packet Size admits
    a 5-byte CONNACK": needed by the PROOF (clause `conn` of `PendInv` breaks: `connecting` with a
    non-empty ghost); no run was found in which `PendAgree` itself breaks without it -/
example :
    let op : Op := .recv W.connectBytes (fun _ _ _ => .error eMalformed)
    W.gM = [(1, 7)] ∧ C08.PendInv W.sM W.gM ∧ W.sM.status = .disconnected ∧ W.sM.mpsSend = 4 ∧
    (step W.cfgS W.sM op).s.status = .connecting ∧ C08.pendNext op (step W.cfgS W.sM op).ev W.gM = [(1, 7)] ∧
    PendAgree (step W.cfgS W.sM op).s (C08.pendNext op (step W.cfgS W.sM op).ev W.gM) ∧
    ¬ C08.PendInv (step W.cfgS W.sM op).s (C08.pendNext op (step W.cfgS W.sM op).ev W.gM) := by decide

/-- precision, not soundness: with automatic responses the PUBREL is requested BEFORE the PUBREC is
    delivered, so the fold removes `(1, 7)` again: the ghost is empty although the model awaits the
    PUBCOMP (the monitor never checks the PUBCOMP of an automatically sent PUBREL) -/
example :
    let s := run W.cfgC W.s0 [.setFlag .autoPub true, .send W.connect5,
      .recv W.connackBytes (W.okv (W.connack5 false [])), .acquire, .send (W.pq 2 1)]
    let op : Op := .recv (W.pubrecB 1) (W.okv (W.pubrec 5 1 none))
    (step W.cfgC s op).s.pubcomp = [1] ∧ C08.pendNext op (step W.cfgC s op).ev [(1, 5)] = [] := by decide


/-- in the two examples above (`ParseOk` version, `restorePackets` version) the calls after the
    offending one are within the contract -/
example : Pend.LegalRun W.cfgC (step W.cfgC W.sB' (.recv (W.pubackB 2) (W.okp (W.puback 4 2)))).s
    (C08.pendNext (.recv (W.pubackB 2) (W.okp (W.puback 4 2))) (step W.cfgC W.sB' (.recv (W.pubackB 2) (W.okp (W.puback 4 2)))).ev W.gB)
    [.closed, .send W.connect5, .recv W.connackBytes (W.okv (W.connack5 true []))] :=
  ⟨trivial, by simp only [Pend.Legal]; decide, ⟨W.parseOk_okv _, by decide⟩, trivial⟩
example : Pend.LegalRun W.cfgC (step W.cfgC W.s0 (.restorePackets [{ W.pq 1 1 with ver := 4 }])).s []
    [.send W.connect5, .recv W.connackBytes (W.okv (W.connack5 true [])), .recv (W.pubackB 1) (W.okv (W.puback 5 1)),
      .closed, .send W.connect5, .recv W.connackBytes (W.okv (W.connack5 true []))] :=
  ⟨by simp only [Pend.Legal]; decide, ⟨W.parseOk_okv _, by decide⟩, ⟨W.parseOk_okv _, by decide⟩, trivial,
    by simp only [Pend.Legal]; decide, ⟨W.parseOk_okv _, by decide⟩, trivial⟩
/-- the run to `W.sM` is within the contract, and the offending `recv` violates only the second clause -/
example : Pend.LegalRun W.cfgS (St.init W.cfgS 5) [] W.opsM ∧ Pend.ParseOk (fun _ _ _ => (.error eMalformed : Except Nat Pkt)) :=
  ⟨⟨⟨W.parseOk_okv _, by decide⟩, by simp only [Pend.Legal]; decide, trivial, by simp only [Pend.Legal]; decide,
    ⟨W.parseOk_okv _, by decide⟩, trivial⟩, W.parseOk_err _⟩

end MqttVerif.Conn
