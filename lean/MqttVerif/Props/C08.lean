import MqttVerif.Conn.Lemmas.PidsStore
/-!
# C08 — packet identifiers: unique while in use, released exactly once, never leaked

Statement (properties.jsonl): an identifier handed out by acquire is never handed out again,
and cannot be registered, while it is in use; every identifier from 1 to the type's maximum
can be in use simultaneously and exhaustion is reported as an error.  The library announces a
release exactly when it turns an in-use identifier free — never for a free identifier and
never twice — when the exchange owning it completes, when a send carrying it is refused, and
for every non-persistent in-flight exchange when the connection closes; the only unannounced
change is the wholesale reset of all identifiers when a new session starts; id-management
calls are total for every id value including 0.

Model: `step cfg s op` (`Conn/Step.lean`).  All theorems hold for **every** configuration with
a non-empty id range (`1 ≤ cfg.idMax`, in particular `cfg.pw = 2` and `cfg.pw = 4`), every
state satisfying the invariant `PidWf` (which holds initially and is preserved by every
operation, for arbitrary peer bytes and parser results), every operation.
-/
set_option linter.unusedSimpArgs false
set_option linter.unusedVariables false
namespace MqttVerif.Conn
open MqttVerif

/-! ## 0. the id range -/

theorem Cfg.idMax_pos_of_pw {cfg : Cfg} (h : 1 ≤ cfg.pw) : 1 ≤ cfg.idMax := by
  have : 256 ^ 1 ≤ 256 ^ cfg.pw := Nat.pow_le_pow_right (by omega) h
  unfold Cfg.idMax; omega

/-- u16 and u32 identifiers -/
theorem Cfg.idMax_pos {cfg : Cfg} (h : cfg.pw = 2 ∨ cfg.pw = 4) : 1 ≤ cfg.idMax :=
  Cfg.idMax_pos_of_pw (by omega)

/-! ## 1. allocator well-formedness is an invariant; the id calls are total -/

theorem C08_wf_init (cfg : Cfg) (ver : Nat) (h : 1 ≤ cfg.idMax) : PidWf cfg (St.init cfg ver) :=
  Alloc.W_new h

theorem C08_wf_step {cfg : Cfg} {s : St} (h : 1 ≤ cfg.idMax) (w : PidWf cfg s) (op : Op) :
    PidWf cfg (step cfg s op).s := by
  have hw : Wf { cfg := cfg, s := s } := ⟨h, w⟩
  have := (step_wf hw op).2
  rwa [step_cfg hw op] at this

theorem C08_wf_run {cfg : Cfg} (h : 1 ≤ cfg.idMax) (ops : List Op) :
    ∀ {s : St}, PidWf cfg s → PidWf cfg (run cfg s ops) := by
  induction ops with
  | nil => intro s w; exact w
  | cons op ops ih => intro s w; exact ih (C08_wf_step h w op)

theorem C08_wf_reachable {cfg : Cfg} (h : 1 ≤ cfg.idMax) {ver : Nat} {s : St}
    (r : Reachable cfg ver s) : PidWf cfg s := by
  obtain ⟨ops, rfl⟩ := r
  exact C08_wf_run h ops (C08_wf_init cfg ver h)

/-- every id in use lies in `[1, idMax]`: `0 ∉ used`, nothing above the maximum -/
theorem C08_used_in_range {cfg : Cfg} {s : St} (w : PidWf cfg s) {id : Nat} (hu : isUsed s id = true) :
    1 ≤ id ∧ id ≤ cfg.idMax := w.w.isUsed_range hu

/-- **idcalls_total**: `acquire`, `register id`, `release id` never panic — for every id value,
    including 0 and values above the maximum (finding #6 on the pinned tree: `release 0`
    panicked).  They change nothing but the allocator (and `release` pushes one event). -/
theorem C08_idcalls_total {cfg : Cfg} {s : St} (h : 1 ≤ cfg.idMax) (w : PidWf cfg s) :
    (step cfg s .acquire).s.panic = s.panic ∧
    (∀ id, (step cfg s (.register id)).s.panic = s.panic) ∧
    (∀ id, (step cfg s (.release id)).s.panic = s.panic) := by
  refine ⟨rfl, fun _ => rfl, fun id => ?_⟩
  have hw : Wf { cfg := cfg, s := s } := ⟨h, w⟩
  show (releaseIfUsed { cfg := cfg, s := s } id).s.panic = s.panic
  rw [releaseIfUsed_s _ hw id]

/-- along any operation sequence consisting of id calls only, from any well-formed state,
    there is never a panic -/
theorem C08_idcalls_total_run {cfg : Cfg} (h : 1 ≤ cfg.idMax) (ops : List Op)
    (hops : ∀ op ∈ ops, op = .acquire ∨ (∃ id, op = .register id) ∨ (∃ id, op = .release id)) :
    ∀ {s : St}, PidWf cfg s → (run cfg s ops).panic = s.panic := by
  induction ops with
  | nil => intro s w; rfl
  | cons op ops ih =>
    intro s w
    have t := C08_idcalls_total h w
    have := ih (fun o ho => hops o (List.mem_cons_of_mem _ ho)) (C08_wf_step h w op)
    simp only [run, this]
    rcases hops op (List.mem_cons_self) with rfl | ⟨id, rfl⟩ | ⟨id, rfl⟩
    · exact t.1
    · exact t.2.1 id
    · exact t.2.2 id

/-! ## 2. acquire / register -/

/-- **acquire_fresh**: `acquire` returns only an id that was not in use (and in range);
    afterwards exactly that id has been added to the ids in use. -/
theorem C08_acquire_fresh {cfg : Cfg} {s : St} (w : PidWf cfg s) {id : Nat}
    (ha : (acquire { cfg := cfg, s := s }).1 = some id) :
    isUsed s id = false ∧ 1 ≤ id ∧ id ≤ cfg.idMax ∧
      ∀ x, isUsed (step cfg s .acquire).s x = true ↔ (isUsed s x = true ∨ x = id) := by
  obtain ⟨a, b, c, _, e⟩ := w.w.alloc_some ha
  exact ⟨a, b, c, e⟩

/-- **exhaustion**: `acquire` fails (`PacketIdentifierFullyUsed`) exactly when every id of
    `[1, idMax]` is in use; the state is then unchanged. -/
theorem C08_exhaustion {cfg : Cfg} {s : St} (w : PidWf cfg s) :
    ((acquire { cfg := cfg, s := s }).1 = none ↔ ∀ id, 1 ≤ id → id ≤ cfg.idMax → isUsed s id = true) ∧
    ((acquire { cfg := cfg, s := s }).1 = none → (step cfg s .acquire).s = s) := by
  refine ⟨⟨fun h => (w.w.alloc_none h).2, fun h => ?_⟩, fun h => ?_⟩
  · cases ha : (acquire { cfg := cfg, s := s }).1 with
    | none => rfl
    | some v =>
      obtain ⟨a, b, c, _⟩ := w.w.alloc_some ha
      have := h v b c
      simp [isUsed] at this a; simp_all
  · have := (w.w.alloc_none h).1
    show ({ s with pidMan := (Alloc.allocate s.pidMan).2 } : St) = s
    rw [this]

/-- **register_iff_free**: `register id` succeeds iff `id` is in range and not in use;
    afterwards the ids in use are the old ones plus `id` (when it succeeded). -/
theorem C08_register_iff_free {cfg : Cfg} {s : St} (w : PidWf cfg s) (id : Nat) :
    ((register { cfg := cfg, s := s } id).1 = true ↔ (1 ≤ id ∧ id ≤ cfg.idMax ∧ isUsed s id = false)) ∧
    (∀ x, isUsed (step cfg s (.register id)).s x = true ↔
      (isUsed s x = true ∨ ((register { cfg := cfg, s := s } id).1 = true ∧ x = id))) := by
  obtain ⟨a, _, c⟩ := w.w.use id
  exact ⟨a, c⟩

/-- an id in use is never handed out again, and cannot be registered -/
theorem C08_used_not_reissued {cfg : Cfg} {s : St} (w : PidWf cfg s) {id : Nat} (hu : isUsed s id = true) :
    (acquire { cfg := cfg, s := s }).1 ≠ some id ∧ (register { cfg := cfg, s := s } id).1 = false := by
  constructor
  · intro ha
    have := (C08_acquire_fresh w ha).1
    simp_all
  · cases hr : (register { cfg := cfg, s := s } id).1 with
    | false => rfl
    | true => have := ((C08_register_iff_free w id).1.1 hr).2.2; simp_all

theorem run_append (cfg : Cfg) (s : St) (a b : List Op) : run cfg s (a ++ b) = run cfg (run cfg s a) b := by
  induction a generalizing s with
  | nil => rfl
  | cons op a ih => simp only [List.cons_append, run, ih]

/-- **all ids usable simultaneously**: for every `n ≤ idMax` the `n` calls
    `register 1 … register n` on a fresh connection all succeed and leave exactly the ids
    `1..n` in use — with `n = idMax` every identifier of the type is in use at once (and then
    `acquire` reports exhaustion, `C08_exhaustion`). -/
theorem C08_all_ids_usable (cfg : Cfg) (ver : Nat) (h : 1 ≤ cfg.idMax) (n : Nat) (hn : n ≤ cfg.idMax) :
    let s := run cfg (St.init cfg ver) ((List.range n).map (fun k => Op.register (k + 1)))
    (∀ id, isUsed s id = true ↔ (1 ≤ id ∧ id ≤ n)) ∧
    (n = cfg.idMax → (acquire { cfg := cfg, s := s }).1 = none) := by
  have key : ∀ n, n ≤ cfg.idMax →
      PidWf cfg (run cfg (St.init cfg ver) ((List.range n).map (fun k => Op.register (k + 1)))) ∧
      ∀ id, isUsed (run cfg (St.init cfg ver) ((List.range n).map (fun k => Op.register (k + 1)))) id = true ↔
        (1 ≤ id ∧ id ≤ n) := by
    intro n
    induction n with
    | zero =>
      intro _
      refine ⟨C08_wf_init cfg ver h, fun id => ?_⟩
      have : isUsed (St.init cfg ver) id = false := Alloc.new_isUsed _ _
      simp only [List.range_zero, List.map_nil, run, this]
      constructor
      · intro h; simp at h
      · intro h; omega
    | succ n ih =>
      intro hn
      obtain ⟨w, u⟩ := ih (by omega)
      rw [List.range_succ, List.map_append, run_append]
      simp only [List.map_cons, List.map_nil, run]
      refine ⟨C08_wf_step h w _, fun id => ?_⟩
      obtain ⟨r1, r2⟩ := C08_register_iff_free w (n + 1)
      have hfree : isUsed (run cfg (St.init cfg ver) ((List.range n).map (fun k => Op.register (k + 1)))) (n + 1) = false := by
        cases hc : isUsed (run cfg (St.init cfg ver) ((List.range n).map (fun k => Op.register (k + 1)))) (n + 1) with
        | false => rfl
        | true => have := (u (n + 1)).1 hc; omega
      have hok := r1.2 ⟨by omega, hn, hfree⟩
      rw [r2 id, u id]
      simp only [hok, true_and]
      omega
  obtain ⟨w, u⟩ := key n hn
  refine ⟨u, fun e => ?_⟩
  exact (C08_exhaustion w).1.2 (fun id h1 h2 => (u id).2 ⟨h1, by omega⟩)

/-! ## 3. announcements: released exactly when an in-use id turns free -/

/-- **release_exact.**  For every operation, with `rel` the ids announced by
    `NotifyPacketIdReleased` events of the call:
    (a) no duplicates; (b) each was in use before; (c) each is free afterwards;
    (d) unless the call starts a new session, an id in use before and free afterwards is in
        `rel`;
    (e) if the call starts a new session, no id is in use afterwards (the wholesale reset);
    (f) apart from `acquire` / `register` / `restorePackets` (which announce nothing and free
        nothing) no call makes an id used. -/
theorem C08_release_exact {cfg : Cfg} {s : St} (h : 1 ≤ cfg.idMax) (w : PidWf cfg s) (op : Op) :
    let rel := Mon.releasedIds (step cfg s op).ev
    let s' := (step cfg s op).s
    rel.Nodup ∧
    (∀ id ∈ rel, isUsed s id = true) ∧
    (∀ id ∈ rel, isUsed s' id = false) ∧
    (startsNewSession cfg s op = false → ∀ id, isUsed s id = true → isUsed s' id = false → id ∈ rel) ∧
    (startsNewSession cfg s op = true → ∀ id, isUsed s' id = false) ∧
    (takesIds op = false → ∀ id, isUsed s' id = true → isUsed s id = true) ∧
    (takesIds op = true → rel = [] ∧ ∀ id, isUsed s id = true → isUsed s' id = true) := by
  have hw : Wf { cfg := cfg, s := s } := ⟨h, w⟩
  cases hg : takesIds op with
  | false =>
    obtain ⟨_, _, r, e, a2, a3, a4, a5, a6⟩ := step_eff hw op hg
    simp only [Mon.releasedIds, List.nil_append] at e
    simp only [e]
    refine ⟨a2, fun id hm => (a3 id hm).1, fun id hm => (a3 id hm).2, ?_, a6, fun _ => a4, by simp⟩
    intro hb id hu hf
    cases hd : decide (id ∈ r) with
    | true => exact of_decide_eq_true hd
    | false => have := a5 hb id hu (of_decide_eq_false hd); simp_all
  | true =>
    obtain ⟨_, _, e, m⟩ := step_grow hw op hg
    simp only [Mon.releasedIds] at e
    have hs : startsNewSession cfg s op = false := by cases op <;> simp_all [takesIds, startsNewSession]
    simp only [e, hs]
    refine ⟨List.nodup_nil, by simp, by simp, ?_, by simp, by simp, fun _ => ⟨trivial, m⟩⟩
    intro _ id hu hf
    have := m id hu; simp_all

/-- a free id stays free, and is never announced, as long as no id-taking call
    (`acquire` / `register` / `restorePackets`) is made -/
theorem C08_free_stays_free {cfg : Cfg} (h : 1 ≤ cfg.idMax) (ops : List Op)
    (hno : ∀ o ∈ ops, takesIds o = false) {id : Nat} :
    ∀ {s : St}, PidWf cfg s → isUsed s id = false →
      isUsed (run cfg s ops) id = false ∧ ∀ evs ∈ runEvents cfg s ops, id ∉ Mon.releasedIds evs := by
  induction ops with
  | nil => intro s w hf; exact ⟨hf, by simp [runEvents]⟩
  | cons op ops ih =>
    intro s w hf
    obtain ⟨_, b, _, _, _, f, _⟩ := C08_release_exact h w op
    have hop := hno op List.mem_cons_self
    have hf' : isUsed (step cfg s op).s id = false := by
      cases hc : isUsed (step cfg s op).s id with
      | false => rfl
      | true => have := f hop id hc; simp_all
    obtain ⟨r1, r2⟩ := ih (fun o ho => hno o (List.mem_cons_of_mem _ ho)) (C08_wf_step h w op) hf'
    refine ⟨r1, ?_⟩
    intro evs hm
    simp only [runEvents, List.mem_cons] at hm
    rcases hm with rfl | hm
    · intro hin; have := b id hin; simp_all
    · exact r2 evs hm

/-- **never twice**: once an id has been announced as released it is not announced again by
    any later call — until the application takes it again. -/
theorem C08_released_once {cfg : Cfg} {s : St} (h : 1 ≤ cfg.idMax) (w : PidWf cfg s) (op : Op)
    (ops : List Op) (hno : ∀ o ∈ ops, takesIds o = false) {id : Nat}
    (hr : id ∈ Mon.releasedIds (step cfg s op).ev) :
    ∀ evs ∈ runEvents cfg (step cfg s op).s ops, id ∉ Mon.releasedIds evs :=
  (C08_free_stays_free h ops hno (C08_wf_step h w op) ((C08_release_exact h w op).2.2.1 id hr)).2

/-! ## 5. when releases are announced -/

/-- **release_on_completion.**  A PUBACK / PUBCOMP / failing PUBREC (the model releases for
    every non-success reason code of a v5.0 PUBREC) / SUBACK / UNSUBACK that is delivered to
    its handler, parses, and whose id is in the corresponding wait set: the call announces
    exactly that id if it is in use (and nothing if it is not). -/
theorem C08_release_on_completion {cfg : Cfg} {s : St} {inp : List Nat}
    {parse : Nat → Nat → List Nat → Except Nat Pkt} {t : Nat} {p : Pkt}
    (d : Delivers cfg s inp parse t (.ok p))
    (hm : (t = 4 ∧ p.pid.getD 0 ∈ s.puback) ∨ (t = 7 ∧ p.pid.getD 0 ∈ s.pubcomp) ∨
          (t = 5 ∧ p.pid.getD 0 ∈ s.pubrec ∧ ¬ (p.ver = 4 ∨ p.rc = none ∨ p.rc = some 0)) ∨
          (t = 9 ∧ p.pid.getD 0 ∈ s.suback) ∨ (t = 11 ∧ p.pid.getD 0 ∈ s.unsuback)) :
    Mon.releasedIds (step cfg s (.recv inp parse)).ev =
      if isUsed s (p.pid.getD 0) = true then [p.pid.getD 0] else [] := by
  obtain ⟨pb, e⟩ := step_recv_delivers d
  rw [e]
  rcases hm with ⟨rfl, hm⟩ | ⟨rfl, hm⟩ | ⟨rfl, hm, hf⟩ | ⟨rfl, hm⟩ | ⟨rfl, hm⟩
  · exact prPuback_rel { cfg := cfg, s := { s with pb := pb } } p hm
  · exact prPubcomp_rel { cfg := cfg, s := { s with pb := pb } } p hm
  · exact prPubrec_rel { cfg := cfg, s := { s with pb := pb } } p hm hf
  · exact prSuback_rel { cfg := cfg, s := { s with pb := pb } } p hm
  · exact prUnsuback_rel { cfg := cfg, s := { s with pb := pb } } p hm

/-- **release_on_refusal.**  A `send` of a QoS>0 PUBLISH, SUBSCRIBE or UNSUBSCRIBE carrying an
    in-use id that is answered with a `NotifyError` announces exactly that id — whatever the
    reason of the refusal.  The refusal reasons covered (all that exist for these packets once
    the id is in use): protocol version mismatch (`VersionMismatch`) and role check
    (`PacketNotAllowedToSend`) — fix 1d0ef05, see `C08_release_on_version_or_role_refusal`;
    v3.1.1/v5.0 PUBLISH not allowed in the current status
    (`PacketNotAllowedToSend`); v5.0 PUBLISH / SUBSCRIBE / UNSUBSCRIBE larger than the peer's
    Maximum Packet Size (`PacketTooLarge`); v5.0 PUBLISH over the peer's Receive Maximum
    (`ReceiveMaximumExceeded`); v5.0 PUBLISH with an unusable Topic Alias (empty topic and
    unknown / out-of-range alias, or alias out of range) (`PacketNotAllowedToSend`);
    SUBSCRIBE / UNSUBSCRIBE while not connected. -/
theorem C08_release_on_refusal {cfg : Cfg} {s : St} (p : Pkt) (id : Nat)
    (hk : (p.kind = .publish ∧ p.qos > 0) ∨ p.kind = .subscribe ∨ p.kind = .unsubscribe)
    (hp : p.pid = some id) (hu : isUsed s id = true)
    (he : errs (step cfg s (.send p)).ev ≠ []) :
    Mon.releasedIds (step cfg s (.send p)).ev = [id] := by
  have hi : initiatingId p = some id :=
    initiatingId_of_kind (by rcases hk with ⟨hk, _⟩ | hk | hk <;> simp [hk]) hp
  have key : Refuse { cfg := cfg, s := s } (step cfg s (.send p)) id := by
    simp only [step, send]
    split
    · exact refuseSend_refuse _ _ p id hi hu
    split
    · exact refuseSend_refuse _ _ p id hi hu
    unfold processSend
    rcases hk with ⟨hk, hq⟩ | hk | hk
    · by_cases h4 : p.ver = 4 <;> simp only [h4, if_true, if_false, hk]
      · exact psV3Publish_refuse _ p id hq hp hu
      · exact psV5Publish_refuse _ p id hq hp hu
    · by_cases h4 : p.ver = 4 <;> simp only [h4, if_true, if_false, hk] <;>
        exact psSubUnsub_refuse _ p id hp hu
    · by_cases h4 : p.ver = 4 <;> simp only [h4, if_true, if_false, hk] <;>
        exact psSubUnsub_refuse _ p id hp hu
  rcases key with k | k
  · exact absurd k he
  · simpa [Mon.releasedIds] using k

theorem hasError_false_of_errs : ∀ (l : List Ev), errs l = [] → Mon.hasError l = false := by
  intro l
  induction l with
  | nil => intro _; rfl
  | cons e t ih =>
    intro h
    cases e <;> simp_all [errs, Mon.hasError]

theorem hasError_errs {l : List Ev} (h : Mon.hasError l = true) : errs l ≠ [] := by
  intro he
  rw [hasError_false_of_errs l he] at h
  cases h

theorem mem_releasedIds {l : List Ev} {id : Nat} : id ∈ Mon.releasedIds l ↔ Ev.released id ∈ l := by
  induction l with
  | nil => simp [Mon.releasedIds]
  | cons e t ih => cases e <;> simp_all [Mon.releasedIds]

/-- **the refused-send monitor is a theorem of the model** (driver monitor
    `VIOL sig=C08 refused_send_keeps_id@<site>`).  A `send` of a packet that starts an exchange
    (QoS>0 PUBLISH, SUBSCRIBE, UNSUBSCRIBE) with identifier `id`, `id` in use before the call,
    whose events contain a `NotifyError`: `NotifyPacketIdReleased id` is among the events (it is
    the only announcement) and `id` is free afterwards — for EVERY refusal path: protocol version,
    role, status, Maximum Packet Size, Receive Maximum, Topic Alias (none keeps the identifier;
    `PacketIdentifierInvalid` cannot occur since the identifier is in use).  The monitor's further
    conditions (no `RequestSendPacket` among the events, the identifier not stored afterwards, owned
    by no exchange and not stored before) are not needed. -/
theorem C08_refused_send_releases {cfg : Cfg} {s : St} (h : 1 ≤ cfg.idMax) (w : PidWf cfg s) (p : Pkt) (id : Nat)
    (hk : (p.kind = .publish ∧ p.qos > 0) ∨ p.kind = .subscribe ∨ p.kind = .unsubscribe)
    (hp : p.pid = some id) (hu : isUsed s id = true)
    (he : Mon.hasError (step cfg s (.send p)).ev = true) :
    Ev.released id ∈ (step cfg s (.send p)).ev ∧ Mon.releasedIds (step cfg s (.send p)).ev = [id] ∧
    isUsed (step cfg s (.send p)).s id = false := by
  have hr := C08_release_on_refusal (cfg := cfg) (s := s) p id hk hp hu (hasError_errs he)
  have hm : id ∈ Mon.releasedIds (step cfg s (.send p)).ev := by rw [hr]; simp
  exact ⟨mem_releasedIds.1 hm, hr, (C08_release_exact h w (.send p)).2.2.1 id hm⟩

/-- the monitor's condition, literally: the violation it reports never occurs in the model -/
theorem C08_monitor_refused_send_sound {cfg : Cfg} {s : St} (h : 1 ≤ cfg.idMax) (w : PidWf cfg s) (p : Pkt) (id : Nat)
    (hstarts : (p.kind = .publish ∧ p.qos > 0) ∨ p.kind = .subscribe ∨ p.kind = .unsubscribe)
    (hp : p.pid = some id) (he : Mon.hasError (step cfg s (.send p)).ev = true)
    (hnosend : ∀ q r, Ev.send q r ∉ (step cfg s (.send p)).ev)
    (hnotstored : storeHas id (step cfg s (.send p)).s.store = false)
    (husedBefore : isUsed s id = true) (hnotowned : ¬ owned s id) :
    ¬ (isUsed (step cfg s (.send p)).s id = true) := by
  rw [(C08_refused_send_releases h w p id hstarts hp husedBefore he).2.2]; simp

/-- the error a send refused before its handler reports -/
def C08.gateErr (s : St) (p : Pkt) : Nat := if s.ver ≠ p.ver then eVersionMismatch else eNotAllowed

/-- **release_on_version_or_role_refusal** (fix 1d0ef05).  A `send` refused because the packet's
    protocol version is not the connection's, or because the role may never send the kind,
    with `id` the identifier the packet was given to start an exchange (`initiatingId`: that of
    a PUBLISH / SUBSCRIBE / UNSUBSCRIBE):
    * `id` in use: the events are exactly `[NotifyError e, NotifyPacketIdReleased id]`, only
      the allocator changes, `id` is free afterwards and every other id is as before;
    * `id` not in use: the events are exactly `[NotifyError e]` and the state (the allocator in
      particular) is unchanged.
    Before the fix the identifier stayed in use and nothing was announced. -/
theorem C08_release_on_version_or_role_refusal {cfg : Cfg} {s : St} (h : 1 ≤ cfg.idMax) (w : PidWf cfg s)
    (p : Pkt) (id : Nat)
    (hg : s.ver ≠ p.ver ∨ roleMaySend cfg.role p = false) (hi : initiatingId p = some id) :
    (isUsed s id = true →
      (step cfg s (.send p)).ev = [.error (C08.gateErr s p), .released id] ∧
      (step cfg s (.send p)).s = { s with pidMan := (Alloc.deallocate s.pidMan id).2 } ∧
      isUsed (step cfg s (.send p)).s id = false ∧
      ∀ x, x ≠ id → isUsed (step cfg s (.send p)).s x = isUsed s x) ∧
    (isUsed s id = false →
      (step cfg s (.send p)).ev = [.error (C08.gateErr s p)] ∧ (step cfg s (.send p)).s = s) := by
  have hw : Wf { cfg := cfg, s := s } := ⟨h, w⟩
  have e : step cfg s (.send p) = refuseSend { cfg := cfg, s := s } (C08.gateErr s p) p := by
    simp only [step, send, C08.gateErr]
    by_cases hv : s.ver = p.ver
    · have hr : roleMaySend cfg.role p = false := by
        rcases hg with hg | hg
        · exact absurd hv hg
        · exact hg
      simp [hv, hr]
    · simp [hv]
  rw [e]
  constructor
  · intro hu
    rw [refuseSend_used hw _ p id hi hu]
    obtain ⟨_, _, d3⟩ := w.w.dealloc hu
    refine ⟨rfl, rfl, ?_, ?_⟩
    · cases hc : isUsed ({ s with pidMan := (Alloc.deallocate s.pidMan id).2 } : St) id with
      | false => rfl
      | true => exact absurd rfl ((d3 id).1 hc).2
    · intro x hx
      cases hc : isUsed s x with
      | true => exact (d3 x).2 ⟨hc, hx⟩
      | false =>
        cases hc' : isUsed ({ s with pidMan := (Alloc.deallocate s.pidMan id).2 } : St) x with
        | false => rfl
        | true => have := ((d3 x).1 hc').1; simp only [isUsed] at hc; simp_all
  · intro hu
    rw [refuseSend_unused _ _ p id hi hu]
    exact ⟨rfl, rfl⟩

/-- Refusals that do **not** release (nothing is announced, no id changes): a version or role
    refusal of a packet that does not start an exchange (`initiatingId p = none`: anything but
    PUBLISH / SUBSCRIBE / UNSUBSCRIBE with an identifier), and every refusal of a PUBREL
    (version, role, too large, not allowed — finding #23).  (`PacketIdentifierInvalid` cannot
    release: the id is not in use.)  Since fix 1d0ef05 a version or role refusal of a packet
    that does carry such an identifier releases it: `C08_release_on_version_or_role_refusal`. -/
theorem C08_refusal_without_release {cfg : Cfg} {s : St} (p : Pkt)
    (hk : ((s.ver ≠ p.ver ∨ roleMaySend cfg.role p = false) ∧ initiatingId p = none) ∨ p.kind = .pubrel) :
    Mon.releasedIds (step cfg s (.send p)).ev = [] ∧
      ∀ id, isUsed (step cfg s (.send p)).s id = isUsed s id := by
  have hi : initiatingId p = none := by
    rcases hk with hk | hk
    · exact hk.2
    · simp [initiatingId, hk]
  have q : Quiet { cfg := cfg, s := s } (step cfg s (.send p)) := by
    simp only [step, send]
    split
    · rw [refuseSend_none _ _ p hi]; quiet_tac
    split
    · rw [refuseSend_none _ _ p hi]; quiet_tac
    · rename_i hv hr
      rcases hk with hk | hk
      · rcases hk.1 with hk' | hk'
        · exact absurd hk' hv
        · simp [hk'] at hr
      · unfold processSend
        split <;> simp only [hk] <;> exact psPubrel_q _ _
  exact ⟨by simpa [Mon.releasedIds] using q.2.2, fun id => isUsed_congr q.2.1 id⟩

/-- **release_on_close.**  `notify_closed` announces every in-use id of `suback ∪ unsuback`,
    and — when the session is not persistent (`¬ needStore`) — every in-use id of
    `puback ∪ pubrec ∪ pubcomp`. -/
theorem C08_release_on_close {cfg : Cfg} {s : St} (h : 1 ≤ cfg.idMax) (w : PidWf cfg s) {id : Nat}
    (hm : id ∈ s.suback ∨ id ∈ s.unsuback ∨
      (s.needStore = false ∧ (id ∈ s.puback ∨ id ∈ s.pubrec ∨ id ∈ s.pubcomp)))
    (hu : isUsed s id = true) :
    id ∈ Mon.releasedIds (step cfg s .closed).ev := by
  have hw : Wf { cfg := cfg, s := s } := ⟨h, w⟩
  have hf : isUsed (step cfg s .closed).s id = false := notifyClosed_free hw hm
  exact (C08_release_exact h w .closed).2.2.2.1 rfl id hu hf

/-! ## 4. the ownership invariant `PidInv` — what holds and what does not

`PidInv s` (`Conn/Lemmas/PidsInv.lean`): (i) every id of a wait set is in use, (ii) every
stored packet's id is in use, (iii) store ids are pairwise distinct.  It holds initially.
(iii) is an unconditional invariant (`C08_store_ids_distinct`).  (i)+(ii) are **not**
preserved by arbitrary peer input: see `C08_PidInv_step_full_false` and the witnesses below. -/

theorem C08_PidInv_init (cfg : Cfg) (ver : Nat) : PidInv (St.init cfg ver) := by
  refine ⟨by simp [waitIds, St.init], by simp [St.init], by simp [St.init]⟩

/-- **(iii) holds unconditionally**: store ids are pairwise distinct initially and after every
    operation — every `send`, arbitrary `recv` bytes / parser results, `restorePackets` of any
    list — with no hypothesis at all (`store.add` refuses a duplicate: it is then the panic
    site `store.add().unwrap()`, and the state is unchanged). -/
theorem C08_store_ids_distinct_step {cfg : Cfg} {s : St} (hs : (s.store.map (·.1)).Nodup) (op : Op) :
    ((step cfg s op).s.store.map (·.1)).Nodup := step_kn hs op

theorem C08_store_ids_distinct {cfg : Cfg} {ver : Nat} {s : St} (r : Reachable cfg ver s) :
    (s.store.map (·.1)).Nodup := by
  obtain ⟨ops, rfl⟩ := r
  suffices ∀ (ops : List Op) (s : St), (s.store.map (·.1)).Nodup → ((run cfg s ops).store.map (·.1)).Nodup from
    this ops _ (by simp [St.init])
  intro ops
  induction ops with
  | nil => intro s h; exact h
  | cons op ops ih => intro s h; exact ih _ (C08_store_ids_distinct_step h op)

/-- legality of an application call with respect to identifiers (no condition on `recv`, none
    on `restorePackets`): an id that is released by hand, or carried by a sent PUBLISH /
    SUBSCRIBE / UNSUBSCRIBE, is not owned by another exchange or stored packet (if it is,
    `release`, resp. every refusal path of the send, frees it under its owner:
    `witness_release_owned`). -/
def LegalOp (s : St) : Op → Prop
  | .release id => ¬ owned s id
  | .send p => (p.kind = .publish ∨ p.kind = .subscribe ∨ p.kind = .unsubscribe) → ¬ owned s (p.pid.getD 0)
  | _ => True

/-- the full inductive statement asked for -/
def C08_PidInv_step_full : Prop :=
  ∀ (cfg : Cfg) (s : St) (op : Op), 1 ≤ cfg.idMax → PidWf cfg s → PidInv s → LegalOp s op →
    PidInv (step cfg s op).s

/-- **restorePackets keeps the ownership invariant for ANY packet list** (duplicate ids, id 0,
    ids above the maximum, ids already in use): finding #24 is fixed — the wait-set entry and
    the store entry are made only for a packet whose id could be registered. -/
theorem C08_PidInv_restorePackets {cfg : Cfg} {s : St} (h : 1 ≤ cfg.idMax) (w : PidWf cfg s)
    (i : PidInv s) (ps : List Pkt) : PidInv (step cfg s (.restorePackets ps)).s :=
  restorePackets_inv ps { cfg := cfg, s := s } ⟨h, w⟩ i

/-- the ops for which preservation is proved: the id calls (with legality for `release`),
    `restorePackets` (any list), timers and settings, and `notify_closed` of a non-persistent
    session -/
def simpleOp (s : St) : Op → Bool
  | .acquire | .register _ | .release _ | .timer _ | .setInterval _ | .setFlag _ _
  | .setRespTimeout _ | .restoreHandled _ | .restorePackets _ => true
  | .closed => !s.needStore
  | _ => false

theorem C08_PidInv_step_partial {cfg : Cfg} {s : St} (h : 1 ≤ cfg.idMax) (w : PidWf cfg s)
    (i : PidInv s) (op : Op) (hs : simpleOp s op = true) (hl : LegalOp s op) :
    PidInv (step cfg s op).s := by
  have hw : Wf { cfg := cfg, s := s } := ⟨h, w⟩
  have same : ∀ {c' : C}, Still { cfg := cfg, s := s } c' → c'.s.pidMan = s.pidMan → PidInv c'.s :=
    fun st hp => PidInv.of_still (c := { cfg := cfg, s := s }) i st
      (fun id _ hu => by rw [isUsed_congr hp]; exact hu)
  cases op with
  | acquire =>
    exact PidInv.of_still (c := { cfg := cfg, s := s }) i ⟨rfl, rfl, rfl, rfl, rfl, rfl⟩
      (fun id _ hu => (acquire_grow hw).mono id hu)
  | register id =>
    exact PidInv.of_still (c := { cfg := cfg, s := s }) i ⟨rfl, rfl, rfl, rfl, rfl, rfl⟩
      (fun x _ hu => (register_grow hw id).mono x hu)
  | release id =>
    refine PidInv.of_still (c := { cfg := cfg, s := s }) i (releaseIfUsed_still hw id) ?_
    intro x ho hu
    exact releaseIfUsed_keeps hw (fun e => hl (e ▸ ho)) hu
  | timer k => exact same (notifyTimerFired_still _ k) (notifyTimerFired_q _ k).2.1
  | setInterval d => exact same (setPingreqSendInterval_still _ d) (setPingreqSendInterval_q _ d).2.1
  | setFlag f b => exact same (by cases f <;> exact ⟨rfl, rfl, rfl, rfl, rfl, rfl⟩) (by cases f <;> rfl)
  | setRespTimeout ms => exact same ⟨rfl, rfl, rfl, rfl, rfl, rfl⟩ rfl
  | restoreHandled ids => exact same ⟨rfl, rfl, rfl, rfl, rfl, rfl⟩ rfl
  | closed =>
    simp only [simpleOp, Bool.not_eq_true'] at hs
    obtain ⟨e1, e2⟩ := notifyClosed_nonpersistent hw hs
    show PidInv (notifyClosed _).s
    unfold PidInv
    rw [e1, e2]
    exact ⟨by simp, by simp, by simp⟩
  | send p => simp [simpleOp] at hs
  | recv a b => simp [simpleOp] at hs
  | erase id => simp [simpleOp] at hs
  | restorePackets ps => exact C08_PidInv_restorePackets h w i ps

/-! ### witnesses (all `decide`-checked on states reached from `St.init` by `run`) -/
namespace W
def cfgC : Cfg := { role := .client, pw := 2 }
def okp (p : Pkt) : Nat → Nat → List Nat → Except Nat Pkt := fun _ _ _ => .ok p
def connect5 : Pkt := { ver := 5, kind := .connect, size := 20, props := [(pSEI, 100)] }
def connack5 (sp : Bool) (props : List (Nat × Nat)) : Pkt :=
  { ver := 5, kind := .connack, size := 8, rc := some 0, sp := sp, props := props }
def pub1 : Pkt := { ver := 5, kind := .publish, pid := some 1, qos := 1, topic := [97], payloadLen := 100 }
def sub1 : Pkt := { ver := 5, kind := .subscribe, pid := some 1, size := 10 }
def puback (v id : Nat) : Pkt := { ver := v, kind := .puback, pid := some id, size := 4 }
def pubrel1 : Pkt := { ver := 5, kind := .pubrel, pid := some 1, size := 4 }
def disc5 : Pkt := { ver := 5, kind := .disconnect, size := 2 }
def pq (q id : Nat) : Pkt := { ver := 5, kind := .publish, pid := some id, qos := q, topic := [97] }
def connackBytes : List Nat := [0x20, 3, 0, 0, 0]
def pubackBytes : List Nat := [0x40, 2, 0, 1]
def s0 : St := St.init cfgC 5

/-- client, persistent session, connected, QoS 1 PUBLISH id 1 in flight and stored, connection
    closed, CONNECT sent again -/
def opsA : List Op :=
  [.send connect5, .recv connackBytes (okp (connack5 false [])), .acquire, .send pub1, .closed,
   .send connect5]
def sA : St := run cfgC s0 opsA
/-- the broker resumes the session, announcing Maximum Packet Size 20 -/
def opA : Op := .recv connackBytes (okp (connack5 true [(pMPS, 20)]))
end W
open W

/-- `send_stored` dropping an oversize stored packet (found independently here and by the C05
    proof; fixed in /repo 08017c0 and in the model): on resume the packet is dropped, its id
    released and announced, **and** — since the fix — removed from `pid_puback` / `pid_pubrec` /
    `pid_pubcomp`.  Before the fix the id stayed awaited: a later re-acquisition for a
    SUBSCRIBE plus a late PUBACK released it under the SUBSCRIBE. -/
theorem witness_sendStored_drop_fixed :
    PidWf cfgC sA ∧ PidInv sA ∧ sA.puback = [1] ∧ sA.store.length = 1 ∧
    Mon.releasedIds (step cfgC sA opA).ev = [1] ∧
    (step cfgC sA opA).s.puback = [] ∧ (step cfgC sA opA).s.store = [] ∧
    isUsed (step cfgC sA opA).s 1 = false ∧ PidInv (step cfgC sA opA).s := by decide

namespace W
/-- connected client with SUBSCRIBE id 1 in flight sends DISCONNECT (`notify_closed` not yet called) -/
def sD : St := run cfgC s0 [.send connect5, .recv connackBytes (okp (connack5 false [])), .acquire,
  .send sub1, .send disc5]
def opD : Op := .recv connackBytes (okp (connack5 false []))
end W

/-- the full statement is false: peer input needs no legality, the state is reachable by a legal
    application and satisfies everything (witness: `witness_connack_while_disconnected`) -/
theorem C08_PidInv_step_full_false : ¬ C08_PidInv_step_full := by
  intro hfull
  have := hfull cfgC sD opD (by decide) (by decide) (by decide) trivial
  exact absurd this (by decide)

/-- **finding (peer breaks (i))**: a CONNACK received while *disconnected* (after DISCONNECT
    was sent, before `notify_closed`; also: never connected at all) is accepted, makes the
    connection `connected` and resets all ids, while `pid_suback` still holds id 1: afterwards
    id 1 is free and awaited, nothing was announced. -/
theorem witness_connack_while_disconnected :
    let s' := (step cfgC sD opD).s
    PidWf cfgC sD ∧ PidInv sD ∧ sD.panic = none ∧ sD.status = .disconnected ∧
      s'.status = .connected ∧ s'.suback = [1] ∧ isUsed s' 1 = false ∧
      Mon.releasedIds (step cfgC sD opD).ev = [] ∧ ¬ PidInv s' := by decide

/-- second way (a modelling artefact, not a defect): `recv` quantifies over arbitrary parser
    results; a PUBACK *parsed as another protocol version* does not erase the stored packet
    (`Store::erase` compares versions) yet releases the id: (ii) breaks.  A real parser for
    version `v` returns version-`v` packets. -/
theorem witness_foreign_version_ack :
    let s := run cfgC s0 [.send connect5, .recv connackBytes (okp (connack5 false [])), .acquire, .send pub1]
    let s' := (step cfgC s (.recv pubackBytes (okp (puback 4 1)))).s
    PidInv s ∧ s'.store.length = 1 ∧ isUsed s' 1 = false := by decide

/-- `release id` of an id owned by a wait set breaks (i): legality must exclude it. -/
theorem witness_release_owned :
    let s := run cfgC s0 [.send connect5, .recv connackBytes (okp (connack5 false [])), .acquire, .send sub1]
    PidInv s ∧ s.suback = [1] ∧ ¬ PidInv (step cfgC s (.release 1)).s := by decide

/-- finding #24 (fixed): a restored export with a duplicate id, id 0 and an id above the maximum
    registers id 5 once (first entry wins: `puback`), ignores the rest, and keeps `PidInv`
    (`C08_PidInv_restorePackets` proves this for every list). -/
theorem witness_restore_fixed :
    let s := (step cfgC s0 (.restorePackets [pq 1 5, pq 2 5, pq 1 0, pq 2 65536])).s
    s.puback = [5] ∧ s.pubrec = [] ∧ s.store.length = 1 ∧ isUsed s 5 = true ∧ PidInv s := by decide

/-- fixed by 1d0ef05 (was part of `witness_silent_refusals`): a version mismatch and a role
    refusal (`Server` sending SUBSCRIBE) release the identifier like every other refusal -/
theorem witness_gate_refusals_release :
    let s1 := (step cfgC s0 .acquire).s
    isUsed s1 1 = true ∧
    (step cfgC s1 (.send { sub1 with ver := 4 })).ev = [.error eVersionMismatch, .released 1] ∧
    isUsed (step cfgC s1 (.send { sub1 with ver := 4 })).s 1 = false ∧
    (step { cfgC with role := .server } s1 (.send sub1)).ev = [.error eNotAllowed, .released 1] ∧
    isUsed (step { cfgC with role := .server } s1 (.send sub1)).s 1 = false := by decide

/-- the refusal that still keeps the id silently (cf. `C08_refusal_without_release`): PUBREL
    while not connected and not persistent (finding #23: afterwards id 1 is in use, owned by
    nobody, and survives `notify_closed`). -/
theorem witness_silent_refusals :
    let s1 := (step cfgC s0 .acquire).s
    (step cfgC s1 (.send pubrel1)).ev = [.error eNotAllowed] ∧
    isUsed (run cfgC s1 [.send pubrel1, .closed]) 1 = true ∧
    waitIds (run cfgC s1 [.send pubrel1, .closed]) = [] := by decide

/-! ## 6. non-vacuity: concrete reachable states / inputs satisfying the hypotheses -/
namespace W
/-- connected client, SUBSCRIBE id 1 and QoS 1 PUBLISH id 2 in flight (the PUBLISH stored) -/
def sB : St := run cfgC s0 [.send connect5, .recv connackBytes (okp (connack5 false [])), .acquire,
  .send sub1, .acquire, .send { pub1 with pid := some 2 }]
/-- an allocator `[1, 255]` (`pw = 1`) with every id handed out -/
def cfg1 : Cfg := { role := .client, pw := 1 }
def sFull : St := run cfg1 (St.init cfg1 4) (List.replicate 255 .acquire)
end W

example : W.cfgC.pw = 2 ∨ W.cfgC.pw = 4 := by decide
example : 1 ≤ W.cfgC.idMax ∧ W.cfgC.idMax = 65535 := by decide
/-- hypotheses of §1–§3: a well-formed reachable state with ids in use, wait sets and store non-empty -/
example : Reachable W.cfgC 5 W.sB ∧ PidWf W.cfgC W.sB ∧ W.sB.suback = [1] ∧ W.sB.puback = [2] ∧
    W.sB.store.length = 1 ∧ isUsed W.sB 1 = true ∧ isUsed W.sB 2 = true ∧ isUsed W.sB 3 = false :=
  ⟨⟨_, rfl⟩, by decide⟩
/-- `C08_acquire_fresh`: the next id is 3 -/
example : (acquire { cfg := W.cfgC, s := W.sB }).1 = some 3 := by decide
/-- `C08_exhaustion`: all 255 ids of a one-byte id type in use, `acquire` reports exhaustion,
    and the id calls stay total there (0, max, max+1) -/
example : PidWf W.cfg1 W.sFull ∧ (acquire { cfg := W.cfg1, s := W.sFull }).1 = none ∧
    isUsed W.sFull 1 = true ∧ isUsed W.sFull 255 = true ∧ isUsed W.sFull 0 = false ∧
    isUsed W.sFull 256 = false ∧
    (step W.cfg1 W.sFull (.release 0)).s.panic = none ∧ (step W.cfg1 W.sFull (.release 255)).s.panic = none ∧
    (step W.cfg1 W.sFull (.release 256)).s.panic = none ∧
    (register { cfg := W.cfg1, s := W.sFull } 0).1 = false ∧
    (register { cfg := W.cfg1, s := (step W.cfg1 W.sFull (.release 255)).s } 255).1 = true := by
  decide +kernel
/-- `C08_used_not_reissued` / `C08_register_iff_free` -/
example : isUsed W.sB 2 = true ∧ (register { cfg := W.cfgC, s := W.sB } 2).1 = false ∧
    (register { cfg := W.cfgC, s := W.sB } 7).1 = true ∧ (register { cfg := W.cfgC, s := W.sB } 0).1 = false ∧
    (register { cfg := W.cfgC, s := W.sB } 65536).1 = false := by decide
/-- `C08_release_exact` (d)/(e): a call that starts a new session, and one that does not -/
example : startsNewSession W.cfgC (run W.cfgC W.sB [.closed]) (.send { W.connect5 with clean := true }) = true ∧
    startsNewSession W.cfgC W.sB (.recv W.pubackBytes (W.okp (W.puback 5 2))) = false ∧
    Mon.releasedIds (step W.cfgC W.sB (.recv W.pubackBytes (W.okp (W.puback 5 2)))).ev = [2] := by decide
/-- `C08_released_once`: PUBACK 2 announces id 2; a second PUBACK 2 and a close announce it no more -/
example : 2 ∈ Mon.releasedIds (step W.cfgC W.sB (.recv W.pubackBytes (W.okp (W.puback 5 2)))).ev ∧
    (∀ o ∈ [Op.recv W.pubackBytes (W.okp (W.puback 5 2)), Op.closed], takesIds o = false) ∧
    (runEvents W.cfgC (step W.cfgC W.sB (.recv W.pubackBytes (W.okp (W.puback 5 2)))).s
      [Op.recv W.pubackBytes (W.okp (W.puback 5 2)), Op.closed]).map Mon.releasedIds = [[], [1]] := by
  refine ⟨by decide, ?_, by decide⟩
  intro o ho
  simp only [List.mem_cons, List.not_mem_nil, or_false] at ho
  rcases ho with rfl | rfl <;> rfl
/-- `C08_release_on_completion`: a PUBACK for id 2 is delivered -/
example : Delivers W.cfgC W.sB W.pubackBytes (W.okp (W.puback 5 2)) 4 (.ok (W.puback 5 2)) ∧
    (W.puback 5 2).pid.getD 0 ∈ W.sB.puback :=
  ⟨⟨{}, 0x40, [0, 1], [], by decide, by decide, by decide, by decide, by decide, rfl⟩, by decide⟩
/-- `C08_release_on_refusal`: v5.0 PUBLISH QoS 1 with in-use id 3, larger than the peer's
    Maximum Packet Size (the refusal that kept the id silently before the fix of finding #5) -/
example :
    let s := run W.cfgC W.s0 [.send W.connect5, .recv W.connackBytes (W.okp (W.connack5 false [(pMPS, 50)])),
      .acquire]
    let p : Pkt := { W.pub1 with pid := some 1 }
    s.ver = p.ver ∧ roleMaySend W.cfgC.role p = true ∧ (p.kind = .publish ∧ p.qos > 0) ∧
      p.pid = some 1 ∧ isUsed s 1 = true ∧ errs (step W.cfgC s (.send p)).ev = [eTooLarge] := by decide
/-- `C08_refused_send_releases` on the same call: the monitor's hypotheses hold -/
example :
    let s := run W.cfgC W.s0 [.send W.connect5, .recv W.connackBytes (W.okp (W.connack5 false [(pMPS, 50)])),
      .acquire]
    let p : Pkt := { W.pub1 with pid := some 1 }
    Mon.hasError (step W.cfgC s (.send p)).ev = true ∧ (∀ q r, Ev.send q r ∉ (step W.cfgC s (.send p)).ev) ∧
      storeHas 1 (step W.cfgC s (.send p)).s.store = false ∧ isUsed s 1 = true ∧ ¬ owned s 1 ∧
      (step W.cfgC s (.send p)).ev = [.error eTooLarge, .released 1] := by
  refine ⟨by decide, ?_, by decide, by decide, by decide, by decide⟩
  intro q r hm
  have : (step W.cfgC (run W.cfgC W.s0 [.send W.connect5, .recv W.connackBytes (W.okp (W.connack5 false [(pMPS, 50)])),
      .acquire]) (.send { W.pub1 with pid := some 1 })).ev = [.error eTooLarge, .released 1] := by decide
  rw [this] at hm
  simp at hm
/-- `C08_release_on_close` -/
example : 1 ∈ W.sB.suback ∧ isUsed W.sB 1 = true ∧ W.sB.needStore = true := by decide
/-- `C08_PidInv_step_partial`: a legal `release` (id 3 held by the application) in a state with
    non-empty wait sets and store -/
example : PidInv (step W.cfgC W.sB .acquire).s ∧ simpleOp (step W.cfgC W.sB .acquire).s (.release 3) = true ∧
    LegalOp (step W.cfgC W.sB .acquire).s (.release 3) :=
  ⟨by decide, by decide, by show ¬ owned _ 3; decide⟩

end MqttVerif.Conn
