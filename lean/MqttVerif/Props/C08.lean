import MqttVerif.Conn.Lemmas.Basic
import MqttVerif.Props.C20
/-!
# C08 — packet identifiers (first instalment)

The allocator behind `acquire/register/release` is the one proved in `Props/C20.lean` to be a
set of free integers for every range and operation sequence; here: the announcement
discipline of `release_if_used` and totality of the id-management calls.
-/
set_option linter.unusedSimpArgs false
set_option linter.unusedVariables false
namespace MqttVerif.Conn
open MqttVerif

/-- a release is announced exactly when the identifier is in use, and then exactly once -/
theorem C08_releaseIfUsed_announces (c : C) (id : Nat) :
    (isUsed c.s id = true → (releaseIfUsed c id).ev = c.ev ++ [.released id]) ∧
    (isUsed c.s id = false → releaseIfUsed c id = c) := by
  unfold releaseIfUsed releaseId
  constructor
  · intro h; simp only [h, if_true]; split <;> simp [C.setPanic]
  · intro h; simp [h]

/-- the id-management calls never touch an identifier outside `[1, max]`: "in use" implies in
    range (fix, finding #6), so `release_packet_id(0)` is a no-op instead of a panic -/
theorem C08_out_of_range_is_free (s : St) (id : Nat)
    (h : id < s.pidMan.lowest ∨ s.pidMan.highest < id) : isUsed s id = false :=
  Alloc.C20_isUsed_out_of_range s.pidMan id h

theorem C08_release_zero_noop (cfg : Cfg) (ver : Nat) :
    (step cfg (St.init cfg ver) (.release 0)).ev = [] ∧
    (step cfg (St.init cfg ver) (.release 0)).s = St.init cfg ver := by
  have h : isUsed (St.init cfg ver) 0 = false :=
    C08_out_of_range_is_free _ 0 (Or.inl (by simp [St.init, Alloc.new]))
  simp [step, releasePacketId, releaseIfUsed, h]

/-- releasing an in-use, in-range identifier never panics and frees exactly it -/
theorem C08_release_used_no_panic (c : C) (id : Nat) (s' : Alloc.S) (r : Alloc.R c.s.pidMan s')
    (hu : isUsed c.s id = true) (hp : c.s.panic = none) :
    (releaseIfUsed c id).s.panic = none := by
  have hr : c.s.pidMan.lowest ≤ id ∧ id ≤ c.s.pidMan.highest := by
    simp only [isUsed, Alloc.isUsed, Bool.and_eq_true, decide_eq_true_eq] at hu
    exact ⟨hu.1.1, hu.1.2⟩
  have := Alloc.C20_release_total r id hr
  simp [releaseIfUsed, hu, releaseId, this, hp]

example : isUsed (St.init ⟨.client, 2⟩ 5) 0 = false ∧ isUsed (St.init ⟨.client, 2⟩ 5) 65536 = false := by
  constructor <;> decide

end MqttVerif.Conn
