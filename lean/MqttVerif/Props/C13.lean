import MqttVerif.Conn.Lemmas.Basic
/-!
# C13 — topic aliases resolve to the intended topic (first instalment)
-/
set_option linter.unusedSimpArgs false
set_option linter.unusedVariables false
namespace MqttVerif.Conn
open MqttVerif

/-- the ghost receiver accepts a PUBLISH with a non-empty topic and no alias, learns a binding
    from topic + alias, and resolves an empty topic only through a binding it has learnt -/
theorem C13_receiver_rules (peerMax : Nat) (t : Mon.PeerTable) (p : Pkt) :
    (p.alias = none → p.topic ≠ [] → Mon.peerStep peerMax t p = some t) ∧
    (p.alias = none → p.topic = [] → Mon.peerStep peerMax t p = none) ∧
    (∀ a, p.alias = some a → p.topic = [] → Mon.peerLookup a t = none → Mon.peerStep peerMax t p = none) ∧
    (∀ a, p.alias = some a → (a = 0 ∨ a > peerMax) → Mon.peerStep peerMax t p = none) := by
  refine ⟨?_, ?_, ?_, ?_⟩
  · intro h1 h2; simp [Mon.peerStep, h1, h2]
  · intro h1 h2; simp [Mon.peerStep, h1, h2]
  · intro a h1 h2 h3; simp only [Mon.peerStep, h1, h2]; split <;> simp_all
  · intro a h1 h2; simp [Mon.peerStep, h1, h2]

/-- fix (finding #11): a PUBLISH refused for Receive Maximum leaves the send alias table as it
    was — the refusal happens before the alias stage -/
theorem C13_rm_refusal_keeps_alias_table (c : C) (p : Pkt) (rel : Option Nat) (v : Bool) (m : Nat)
    (hq : p.qos > 0) (hm : c.s.sendMax = some m) (hfull : c.s.sendCount ≥ m) :
    (psV5PublishAlias c p rel v).s.tas = c.s.tas := by
  have : psV5PublishAlias c p rel v = pubRefuseCleanup (c.err eRMExceeded) p.pid := by
    simp [psV5PublishAlias, hq, hm, hfull]
  rw [this]
  unfold pubRefuseCleanup releaseId
  (repeat' split) <;> simp [C.setPanic] <;> (split <;> simp)

/-- an out-of-range manual alias is refused and the table is untouched -/
theorem C13_alias_out_of_range_refused (s : St) (a : Nat) (t : TAS) (h : s.tas = some t)
    (hr : a = 0 ∨ a > t.max) : validateTopicAliasRange s a = false := by
  simp [validateTopicAliasRange, h]; omega

/-- the alias tables do not survive the connection -/
theorem C13_tables_die_with_connection (c : C) :
    (initConn c true).s.tas = none ∧ (initConn c true).s.tar = none ∧
    (initConn c false).s.tas = none ∧ (initConn c false).s.tar = none := by
  simp [initConn]

example : Mon.peerStep 2 [] { ver := 5, kind := .publish, topic := [], alias := some 1 } = none := by decide
example : Mon.peerStep 2 [] { ver := 5, kind := .publish, topic := [97], alias := some 1 } = some [(1, [97])] := by decide

end MqttVerif.Conn
