import MqttVerif.Conn.Lemmas.AliasStep
/-!
# C13 — Topic aliases always resolve to the intended topic at the receiver

Statement (properties.jsonl): every PUBLISH requested for sending is resolvable by a
spec-conformant receiver to the topic the application asked for; an empty topic is only sent
with an alias (1..=peer's Topic Alias Maximum) that an earlier PUBLISH actually sent on this
connection bound to that topic (manual alias, automatic mapping/replacement, LRU eviction); on
receipt an aliased PUBLISH is delivered with the bound topic or rejected as Topic Alias invalid;
bindings do not survive the connection; stored/retransmitted packets carry the full topic and no
alias.

Ghost: `Mon.PeerTable`, the table of a spec-conformant receiver, updated ONLY from the PUBLISH
packets actually emitted (`Mon.peerStep` / `Mon.peerStepEvs` — the same monitor the driver runs on
the implementation's traces).  Invariant `AliasInv s peer` (`Conn/Lemmas/Alias.lean`):
`TasOk` (internal consistency of `TopicAliasSend`), `StoreInv` (the store is alias-free) and
`Agree` (every sender binding is a receiver binding).  All theorems are for **every** state,
packet, parser behaviour and operation sequence; `s.ver = 5` is the "v5.0 connection" of the
property text (the version, once determined, never changes: `step_ver`).
-/
set_option linter.unusedSimpArgs false
set_option linter.unusedVariables false
namespace MqttVerif.Conn
open MqttVerif

/-! ## 1. the invariant is preserved by every call, together with the ghost update -/

/-- **AliasInv is inductive**: for every operation (any packet, any peer bytes, any parser) on a
    v5.0 connection the receiver can process everything the call emitted
    (`peerStepEvs … = some peer'`), and the invariant holds again for the updated ghost table.
    `peerMaxOf s` is the Topic Alias Maximum of the table in force (calls that replace the table
    emit only alias-free PUBLISH packets, for which the bound is irrelevant). -/
theorem C13_alias_inv_step (cfg : Cfg) (s : St) (op : Op) (peer : Mon.PeerTable) (hv : s.ver = 5)
    (hinv : AliasInv s peer) (hl : RestoreLegal op) :
    ∃ peer', Mon.peerStepEvs (peerMaxOf s) peer (step cfg s op).ev = some peer' ∧
      AliasInv (step cfg s op).s peer' := by
  rw [peerStepEvs_eq]; exact step_alias cfg s op peer hv hinv hl

/-- ghost receiver along a history: fed with the events of each call; forgets everything when
    the transport is closed -/
def ghostReset : Op → Mon.PeerTable → Mon.PeerTable
  | .closed, _ => []
  | _, peer' => peer'

def ghostRun (cfg : Cfg) : St → Mon.PeerTable → List Op → Option Mon.PeerTable
  | _, peer, [] => some peer
  | s, peer, op :: ops =>
    match Mon.peerStepEvs (peerMaxOf s) peer (step cfg s op).ev with
    | none => none
    | some peer' => ghostRun cfg (step cfg s op).s (ghostReset op peer') ops

theorem AliasInv.init (cfg : Cfg) (ver : Nat) : AliasInv (St.init cfg ver) [] :=
  ⟨by intro t ht; simp [St.init] at ht, by intro e he; simp [St.init] at he,
   by intro a tp h; simp [slookup, St.init] at h⟩

/-! ## tables die with the connection -/

/-- `notify_closed` drops both tables; the restarted (empty) ghost satisfies the invariant.
    A CONNECT that is sent or received re-initialises both tables (`initConn`); they are created
    afresh from the Topic Alias Maximum of CONNECT / CONNACK (`TAS.new`, empty). -/
theorem C13_tables_die_with_connection (cfg : Cfg) (s : St) (peer : Mon.PeerTable) (hinv : AliasInv s peer) :
    (step cfg s .closed).s.tas = none ∧ (step cfg s .closed).s.tar = none ∧
      AliasInv (step cfg s .closed).s [] := by
  have h1 : (step cfg s .closed).s.tas = none := notifyClosed_tas_none _
  refine ⟨h1, notifyClosed_tar_none _, ?_⟩
  have hq := quiet_notifyClosed { cfg := cfg, s := s }
  refine ⟨hq.tasOk hinv.tasOk, hq.store hinv.store, ?_⟩
  intro a tp h; simp [slookup, h1] at h

theorem initConn_tables (c : C) (b : Bool) : (initConn c b).s.tas = none ∧ (initConn c b).s.tar = none := by
  simp [initConn]

/-- over whole histories: from a fresh v5.0 connection object, along every legal operation
    sequence, the ghost receiver never gets stuck and the invariant holds at the end -/
theorem C13_alias_inv_run (cfg : Cfg) (ops : List Op) (s : St) (peer : Mon.PeerTable) (hv : s.ver = 5)
    (hinv : AliasInv s peer) (hl : ∀ op ∈ ops, RestoreLegal op) :
    ∃ peer', ghostRun cfg s peer ops = some peer' ∧ AliasInv (run cfg s ops) peer' := by
  induction ops generalizing s peer with
  | nil => exact ⟨peer, rfl, hinv⟩
  | cons op ops ih =>
    obtain ⟨peer', h1, h2⟩ := C13_alias_inv_step cfg s op peer hv hinv (hl op (by simp))
    have hv' : (step cfg s op).s.ver = 5 := by rw [step_ver cfg s op (by omega)]; exact hv
    have hinv' : AliasInv (step cfg s op).s (ghostReset op peer') := by
      cases op <;> first | exact h2 | exact (C13_tables_die_with_connection cfg s peer hinv).2.2
    obtain ⟨peer'', h3, h4⟩ := ih (step cfg s op).s _ hv' hinv' (fun o ho => hl o (by simp [ho]))
    exact ⟨peer'', by simp only [ghostRun, h1]; exact h3, by simpa [run] using h4⟩

theorem C13_reachable (cfg : Cfg) (ops : List Op) (hl : ∀ op ∈ ops, RestoreLegal op) :
    ∃ peer', ghostRun cfg (St.init cfg 5) [] ops = some peer' ∧
      AliasInv (run cfg (St.init cfg 5) ops) peer' :=
  C13_alias_inv_run cfg ops _ _ rfl (AliasInv.init cfg 5) hl

/-! ## 2. everything emitted is resolvable -/

/-- every emitted v5.0 PUBLISH either has a non-empty topic (and an alias within `1..max`, if
    any) or an empty topic with an alias that an earlier emitted PUBLISH of this connection bound:
    the receiver monitor never fails -/
theorem C13_emitted_resolvable (cfg : Cfg) (s : St) (op : Op) (peer : Mon.PeerTable) (hv : s.ver = 5)
    (hinv : AliasInv s peer) (hl : RestoreLegal op) :
    Mon.peerStepEvs (peerMaxOf s) peer (step cfg s op).ev ≠ none := by
  obtain ⟨peer', h, _⟩ := C13_alias_inv_step cfg s op peer hv hinv hl
  rw [h]; simp

/-- *intended topic*: when the application asked for the non-empty topic `T` without an alias and
    automatic mapping / replacement rewrote the packet to an empty topic with alias `a`, the
    receiver has `a ↦ T`; otherwise the packet keeps the topic `T` -/
theorem C13_intended_topic {pm : Nat} {c : C} {p : Pkt} {peer : Mon.PeerTable} (hinv : AliasInv c.s peer)
    (hpm : pm = peerMaxOf c.s) (ht : p.topic ≠ []) (ha : p.alias = none) :
    ((autoAlias c p).2.topic = p.topic) ∨
    ((autoAlias c p).2.topic = [] ∧
      ∃ a, (autoAlias c p).2.alias = some a ∧ Mon.peerLookup a peer = some p.topic) := by
  have hp : PubInv pm c.s peer := ⟨hinv.tasOk, hinv.store, hinv.agree, hpm ▸ peerMaxOf_spec c.s⟩
  have h4 := (autoAlias_spec hp ht ha).2.2.2
  by_cases he : (autoAlias c p).2.topic = []
  · exact Or.inr ⟨he, h4 he⟩
  · left
    revert he
    unfold autoAlias; dsimp only
    (repeat' split) <;> simp

/-- LRU eviction / automatic mapping changes the sender's table only in a call that emits the
    new topic with that alias: `autoAlias` touches the table only while connected, only through
    `insert_or_update topic a`, and hands exactly `{p with alias := a}` (full topic) to the tail,
    which emits it in the same call -/
theorem C13_lru_rebinds_by_sending (c : C) (p : Pkt) (rel : Option Nat)
    (h : (autoAlias c p).1.s.tas ≠ c.s.tas) :
    c.s.status = .connected ∧
    ∃ a, (autoAlias c p).2 = { p with alias := some a } ∧
      (autoAlias c p).1 = tasInsert c p.topic a "topic_alias_send.rs:insert_or_update:assert" ∧
      (p.ver = 5 → p.kind = .publish →
        pubs (psV5PublishTail (autoAlias c p).1 (autoAlias c p).2 rel).ev =
          pubs c.ev ++ [{ p with alias := some a }]) := by
  revert h
  unfold autoAlias; dsimp only
  (repeat' split) <;> simp
  rename_i hc _ _ t _ _ _ _
  intro _
  refine ⟨hc, ?_⟩
  intro h5 hk
  rw [tail_pubs]
  have e := (tasInsert_spec c p.topic t.lruAlias "topic_alias_send.rs:insert_or_update:assert").1
  simp [hc, pubsOf_send, h5, hk, e]

/-- the same for an alias chosen by the application: it is registered only while connected, i.e.
    only by a packet that is emitted in the same call (fix of finding #11b) -/
theorem C13_manual_alias_registered_by_sending (c : C) (p : Pkt) (rel : Option Nat) (a : Nat)
    (hb : sendBlocked c.s p = false) (ht : p.topic ≠ []) (ha : p.alias = some a)
    (h : (psV5PublishAlias c p rel false).s.tas ≠ c.s.tas) (h5 : p.ver = 5) (hk : p.kind = .publish) :
    c.s.status = .connected ∧ pubs (psV5PublishAlias c p rel false).ev = pubs c.ev ++ [p] := by
  rw [psV5PublishAlias_eq] at h ⊢
  have ht' : p.topic.isEmpty = false := by simpa using ht
  simp only [hb, ht', ha, Bool.false_eq_true, if_false] at h ⊢
  split at h
  · by_cases hc : c.s.status = .connected
    · refine ⟨hc, ?_⟩
      rename_i hr
      have e := (tasInsert_spec c p.topic a "topic_alias_send.rs:insert_or_update:assert").1
      simp only [hr, if_true, hc]
      rw [tail_pubs]
      simp [hc, pubsOf_send, h5, hk, e]
    · simp [hc] at h
  · simp at h

/-! ## 3. the store is alias-free; retransmissions carry the full topic -/

/-- every packet `process_send_v5_0_publish` places in the store has no Topic Alias and a
    non-empty topic: `StoreInv` is preserved by every call -/
theorem C13_stored_has_no_alias (cfg : Cfg) (s : St) (op : Op) (peer : Mon.PeerTable) (hv : s.ver = 5)
    (hinv : AliasInv s peer) (hl : RestoreLegal op) :
    ∀ e ∈ (step cfg s op).s.store, e.2.ver = 5 → e.2.kind = .publish → e.2.alias = none ∧ e.2.topic ≠ [] := by
  obtain ⟨peer', _, h⟩ := C13_alias_inv_step cfg s op peer hv hinv hl
  exact fun e he => h.store e he

/-- hence every v5.0 PUBLISH resent by `send_stored` carries the full topic and no alias -/
theorem C13_retransmit_no_alias (c : C) (hs : StoreInv c.s) :
    ∃ l, pubs (sendStored c).ev = pubs c.ev ++ l ∧ ∀ q ∈ l, q.alias = none ∧ q.topic ≠ [] := by
  obtain ⟨l, h1, h2⟩ := (quiet_sendStored c).evs
  exact ⟨l, h1, h2 hs⟩

/-! ## 4. receive side -/

/-- **receive-side specification.**  For a received v5.0 PUBLISH `p`:
    * empty topic + alias `a`: delivered with `topic = lookup a tar.m`, `extracted = true` iff
      `1 ≤ a ≤ max`, `a` is bound and the bound topic has no wildcard; otherwise (no alias, `a = 0`,
      `a > max`, no table, unbound, wildcard) Topic Alias invalid (0x94) and nothing delivered;
    * non-empty topic + alias: the table gets exactly that binding (`TAR.insertOrUpdate`), range
      errors as above;
    * otherwise the table is untouched. -/
theorem C13_recv_alias_spec (c : C) (p : Pkt) :
    (p.topic = [] → p.alias = none → prV5PublishAlias c p = (handleV5Error c eAliasInvalid, none)) ∧
    (∀ a, p.alias = some a → RecvAliasBad c.s a →
      prV5PublishAlias c p = (handleV5Error c eAliasInvalid, none)) ∧
    (∀ a t, p.topic = [] → p.alias = some a → c.s.tar = some t → lookup a t.m = none →
      prV5PublishAlias c p = (handleV5Error c eAliasInvalid, none)) ∧
    (∀ a t topic, p.topic = [] → p.alias = some a → c.s.tar = some t → lookup a t.m = some topic →
      hasWildcard topic = true → prV5PublishAlias c p = (handleV5Error c eAliasInvalid, none)) ∧
    (∀ a t topic, p.topic = [] → p.alias = some a → c.s.tar = some t → a ≠ 0 → a ≤ t.max →
      lookup a t.m = some topic → hasWildcard topic = false →
      prV5PublishAlias c p = (c, some { p with topic := topic, extracted := true })) ∧
    (∀ a t, p.topic ≠ [] → p.alias = some a → c.s.tar = some t → a ≠ 0 → a ≤ t.max →
      prV5PublishAlias c p = ({ c with s := { c.s with tar := some (t.insertOrUpdate p.topic a) } }, some p)) ∧
    (p.topic ≠ [] → p.alias = none → prV5PublishAlias c p = (c, some p)) :=
  ⟨prvAlias_empty_noalias c p, prvAlias_bad c p, prvAlias_empty_unbound c p, prvAlias_empty_wildcard c p,
   prvAlias_empty_bound c p, prvAlias_register c p, prvAlias_plain c p⟩

/-- the error path leaves the receive table alone and, while connected, answers with
    DISCONNECT 0x94 + close -/
theorem C13_recv_alias_invalid_effect (c : C) (h : c.s.status = .connected) :
    (handleV5Error c eAliasInvalid).s.tar = c.s.tar ∧
    ∃ tc, (∀ x ∈ tc, IsTimerCancel x) ∧
      (handleV5Error c eAliasInvalid).ev = c.ev ++ tc ++
        (if sizeOk c (mkV5Disconnect 0x94) then [.send (mkV5Disconnect 0x94) none, .close] else [.close]) ++
        [.error eAliasInvalid] := by
  refine ⟨by simp, ?_⟩
  have := (handleV5Error_connected c eAliasInvalid h).2
  simpa [errToDisconnectRc, eAliasInvalid] using this

/-- what the handler delivers and what it leaves in the table is decided by the alias stage;
    `TAR.insertOrUpdate` adds exactly the one binding -/
theorem C13_recv_delivery (c : C) (p : Pkt) :
    (prV5Publish c (.ok p)).s.tar = (prV5PublishAlias c p).1.s.tar ∧
    (recvs (prV5Publish c (.ok p)).ev = recvs c.ev ∨
      ∃ q, (prV5PublishAlias c p).2 = some q ∧ recvs (prV5Publish c (.ok p)).ev = recvs c.ev ++ [q]) ∧
    (∀ (t : TAR) topic a k, lookup k (t.insertOrUpdate topic a).m = if k = a then some topic else lookup k t.m) :=
  ⟨prV5Publish_tar c p, prV5Publish_recvs c p, TAR.insertOrUpdate_lookup⟩

/-! ## 5. the two alias monitors of the driver are theorems of the model

`unbound_alias_accepted` (sender side) and `delivered_under_wrong_topic` (receiver side). -/

/-- the monitor's "accepted": no error event, and a PUBLISH was requested for sending or the store grew -/
def PubAccepted (s : St) (c' : C) : Prop :=
  Mon.hasError c'.ev = false ∧
  ((c'.ev.any fun e => match e with | .send q _ => decide (q.kind = Kind.publish) | _ => false) = true ∨
    c'.s.store.length > s.store.length)

theorem hasError_err' (c : C) (e : Nat) : Mon.hasError (c.err e).ev = true := by
  simp [Mon.hasError, C.err, C.push]

theorem releaseId_ev' (c : C) (id : Nat) : (releaseId c id).ev = c.ev := by
  unfold releaseId; simp only []; split <;> rfl

theorem releaseIfUsed_hasError (c : C) (id : Nat) (h : Mon.hasError c.ev = true) :
    Mon.hasError (releaseIfUsed c id).ev = true := by
  unfold releaseIfUsed
  split
  · simp only [C.push, releaseId_ev']; simp [Mon.hasError] at h ⊢; exact h
  · exact h

theorem pubRefuseCleanup_hasError (c : C) (pid : Option Nat) (h : Mon.hasError c.ev = true) :
    Mon.hasError (pubRefuseCleanup c pid).ev = true := by
  unfold pubRefuseCleanup
  split
  · exact h
  · split
    · simp only [C.push, releaseId_ev']; simp [Mon.hasError] at h ⊢; exact h
    · exact h

theorem vta_fst_of_tas (c c' : C) (ao : Option Nat) (h : c'.s.tas = c.s.tas) :
    (validateTopicAlias c' ao).1 = (validateTopicAlias c ao).1 := by
  unfold validateTopicAlias validateTopicAliasRange
  cases ao with
  | none => rfl
  | some a => simp only [h]; cases c.s.tas <;> simp <;> split <;> rfl

theorem psV5PublishAlias_unbound (c : C) (p : Pkt) (rel : Option Nat) (ht : p.topic = [])
    (hn : (validateTopicAlias c p.alias).1 = none) :
    Mon.hasError (psV5PublishAlias c p rel false).ev = true := by
  unfold psV5PublishAlias
  simp only [ht, List.isEmpty_nil, if_true, Bool.false_eq_true, if_false, hn, Option.isNone_none, Bool.not_false,
    and_self]
  split <;> split <;> exact pubRefuseCleanup_hasError _ _ (hasError_err' _ _)

theorem psV5Publish_unbound (c : C) (p : Pkt) (ht : p.topic = [])
    (hn : (validateTopicAlias c p.alias).1 = none) (hev : c.ev = []) :
    ¬ PubAccepted c.s (psV5Publish c p) := by
  unfold psV5Publish
  have key : ∀ c' : C, Mon.hasError c'.ev = true → ¬ PubAccepted c.s c' := fun c' h hp => by
    have := hp.1; rw [h] at this; cases this
  split
  · split
    · exact key _ (releaseIfUsed_hasError _ _ (hasError_err' _ _))
    · exact key _ (hasError_err' _ _)
  split
  · split
    · -- panic site: no event, no change
      intro hp
      rcases hp.2 with h | h
      · simp [C.setPanic, hev] at h
      · simp [C.setPanic] at h
    · rename_i id _
      split
      · exact key _ (releaseIfUsed_hasError _ _ (hasError_err' _ _))
      split
      · exact key _ (hasError_err' _ _)
      split
      · simp only [ht, List.isEmpty_nil, if_true, hn]
        exact key _ (releaseIfUsed_hasError _ _ (hasError_err' _ _))
      · apply key
        apply psV5PublishAlias_unbound _ _ _ ht
        rw [← hn]
        apply vta_fst_of_tas
        split <;> rfl
  · split
    · exact key _ (hasError_err' _ _)
    · exact key _ (psV5PublishAlias_unbound _ _ _ ht hn)


/-! receiver side -/

/-- every binding of the model's receive table is a binding of the ghost table -/
def TarAgree (s : St) (tbl : Mon.PeerTable) : Prop :=
  ∀ a t topic, s.tar = some t → lookup a t.m = some topic → Mon.peerLookup a tbl = some topic

/-- the monitor's update of its receiver-side ghost table after a `recv` of the parsed v5.0 PUBLISH `p`
    whose events were `evs` -/
def inTblStep (tbl : Mon.PeerTable) (p : Pkt) (evs : List Ev) : Mon.PeerTable :=
  match p.alias with
  | some a =>
    if !p.topic.isEmpty ∧ (!Mon.hasError evs ∨
        evs.any (fun e => match e with | .recv q => decide (q.kind = Kind.publish) | _ => false)) then
      (a, p.topic) :: tbl.filter (fun kv => kv.1 ≠ a)
    else tbl
  | none => tbl

/-- the four outcomes of the alias stage of `process_recv_v5_0_publish` -/
theorem aliasStage_cases (c : C) (p : Pkt) :
    (prV5PublishAlias c p = (handleV5Error c eAliasInvalid, none)) ∨
    (p.alias = none ∧ p.topic ≠ [] ∧ prV5PublishAlias c p = (c, some p)) ∨
    (∃ a t topic, p.topic = [] ∧ p.alias = some a ∧ c.s.tar = some t ∧ lookup a t.m = some topic ∧
      prV5PublishAlias c p = (c, some { p with topic := topic, extracted := true })) ∨
    (∃ a t, p.topic ≠ [] ∧ p.alias = some a ∧ c.s.tar = some t ∧
      prV5PublishAlias c p = ({ c with s := { c.s with tar := some (t.insertOrUpdate p.topic a) } }, some p)) := by
  have bad : ∀ {x : C × Option Pkt}, x = (handleV5Error c eAliasInvalid, none) → x = (handleV5Error c eAliasInvalid, none) :=
    fun h => h
  by_cases ht : p.topic = []
  · rcases Option.eq_none_or_eq_some p.alias with ha | ⟨a, ha⟩
    · exact .inl (bad (prvAlias_empty_noalias c p ht ha))
    · rcases Option.eq_none_or_eq_some c.s.tar with htar | ⟨t, htar⟩
      · exact .inl (bad (prvAlias_bad c p a ha (by intro t h; rw [htar] at h; cases h)))
      · by_cases hb : a = 0 ∨ a > t.max
        · exact .inl (bad (prvAlias_bad c p a ha (by intro t' h'; rw [htar] at h'; cases h'; exact hb)))
        · rcases Option.eq_none_or_eq_some (lookup a t.m) with hl | ⟨topic, hl⟩
          · exact .inl (bad (prvAlias_empty_unbound c p a t ht ha htar hl))
          · rcases Bool.eq_false_or_eq_true (hasWildcard topic) with hw | hw
            · exact .inl (bad (prvAlias_empty_wildcard c p a t topic ht ha htar hl hw))
            · exact .inr (.inr (.inl ⟨a, t, topic, ht, ha, htar, hl,
                prvAlias_empty_bound c p a t topic ht ha htar (by omega) (by omega) hl hw⟩))
  · rcases Option.eq_none_or_eq_some p.alias with ha | ⟨a, ha⟩
    · exact .inr (.inl ⟨ha, ht, prvAlias_plain c p ht ha⟩)
    · rcases Option.eq_none_or_eq_some c.s.tar with htar | ⟨t, htar⟩
      · exact .inl (bad (prvAlias_bad c p a ha (by intro t h; rw [htar] at h; cases h)))
      · by_cases hb : a = 0 ∨ a > t.max
        · exact .inl (bad (prvAlias_bad c p a ha (by intro t' h'; rw [htar] at h'; cases h'; exact hb)))
        · exact .inr (.inr (.inr ⟨a, t, ht, ha, htar, prvAlias_register c p a t ht ha htar (by omega) (by omega)⟩))

/-- **delivered under the ghost's topic**: an alias-only PUBLISH that the handler delivers
    (`topic_name_extracted`) carries exactly the topic the ghost table binds its alias to -/
theorem delivered_topic (c : C) (p : Pkt) (tbl : Mon.PeerTable) (hev : c.ev = []) (hx : p.extracted = false)
    (hagree : TarAgree c.s tbl) :
    ∀ q ∈ recvs (prV5Publish c (.ok p)).ev, q.extracted = true →
      ∃ a, q.alias = some a ∧ Mon.peerLookup a tbl = some q.topic := by
  intro q hq hqx
  rcases prV5Publish_recvs c p with h | ⟨q', h1, h2⟩
  · rw [h, hev] at hq; simp [recvs] at hq
  · rw [h2, hev] at hq
    simp [recvs] at hq
    subst hq
    rcases aliasStage_cases c p with h | ⟨_, _, h⟩ | ⟨a, t, topic, ht, ha, htar, hl, h⟩ | ⟨a, t, _, _, _, h⟩
    · rw [h] at h1; cases h1
    · rw [h] at h1; simp at h1; subst h1; rw [hx] at hqx; cases hqx
    · rw [h] at h1; simp at h1; subst h1
      exact ⟨a, ha, hagree a t topic htar hl⟩
    · rw [h] at h1; simp at h1; subst h1; rw [hx] at hqx; cases hqx

theorem any_recv_of_recvs_nil {l : List Ev} (h : recvs l = []) :
    (l.any fun e => match e with | .recv q => decide (q.kind = Kind.publish) | _ => false) = false := by
  induction l with
  | nil => rfl
  | cons e r ih =>
    cases e <;> simp_all [recvs]

theorem hasError_handleV5Error (c : C) (e : Nat) : Mon.hasError (handleV5Error c e).ev = true := by
  unfold handleV5Error; exact hasError_err' _ _

/-- the ghost keeps containing the model's receive table — provided the PUBLISH was accepted (no error
    event) or delivered; the excluded case is a PUBLISH that registers a binding and is then
    rejected (Receive Maximum exceeded) -/
theorem tarAgree_step (c : C) (p : Pkt) (tbl : Mon.PeerTable) (hev : c.ev = []) (hagree : TarAgree c.s tbl)
    (hacc : Mon.hasError (prV5Publish c (.ok p)).ev = false ∨
      ((prV5Publish c (.ok p)).ev.any fun e => match e with | .recv q => decide (q.kind = Kind.publish) | _ => false) = true) :
    TarAgree (prV5Publish c (.ok p)).s (inTblStep tbl p (prV5Publish c (.ok p)).ev) := by
  intro k t' topic' htar' hl'
  rw [prV5Publish_tar] at htar'
  rcases aliasStage_cases c p with h | ⟨ha, _, h⟩ | ⟨a, t, topic, ht, ha, htar, hl, h⟩ | ⟨a, t, ht, ha, htar, h⟩
  · -- alias invalid: error, nothing delivered, nothing changes
    have e : prV5Publish c (.ok p) = handleV5Error c eAliasInvalid := by
      unfold prV5Publish; simp only [h]
    rw [h] at htar'
    simp only [handleV5Error_tar] at htar'
    have h1 : Mon.hasError (prV5Publish c (.ok p)).ev = true := by rw [e]; exact hasError_handleV5Error _ _
    have h2 := any_recv_of_recvs_nil (l := (prV5Publish c (.ok p)).ev) (by rw [e, handleV5Error_recvs, hev]; rfl)
    have : inTblStep tbl p (prV5Publish c (.ok p)).ev = tbl := by
      unfold inTblStep; split
      · simp [h1, h2]
      · rfl
    rw [this]; exact hagree k t' topic' htar' hl'
  · rw [h] at htar'
    have : inTblStep tbl p (prV5Publish c (.ok p)).ev = tbl := by unfold inTblStep; simp [ha]
    rw [this]; exact hagree k t' topic' htar' hl'
  · rw [h] at htar'
    have : inTblStep tbl p (prV5Publish c (.ok p)).ev = tbl := by unfold inTblStep; simp [ha, ht]
    rw [this]; exact hagree k t' topic' htar' hl'
  · rw [h] at htar'
    simp only [Option.some.injEq] at htar'
    subst htar'
    rw [TAR.insertOrUpdate_lookup] at hl'
    have hne : p.topic.isEmpty = false := by simpa using ht
    have : inTblStep tbl p (prV5Publish c (.ok p)).ev = (a, p.topic) :: tbl.filter (fun kv => kv.1 ≠ a) := by
      unfold inTblStep
      simp only [ha, hne, Bool.not_false, true_and]
      rw [if_pos]
      rcases hacc with h1 | h1
      · left; simp [h1]
      · right; exact h1
    rw [this, peerLookup_cons_filter]
    split at hl'
    · rename_i hk; simp [hk]; simpa using hl'
    · rename_i hk; simp [hk]; exact hagree k t topic' htar hl'


theorem refuseSend_hasError (c : C) (e : Nat) (p : Pkt) : Mon.hasError (refuseSend c e p).ev = true := by
  unfold refuseSend
  split
  · exact releaseIfUsed_hasError _ _ (hasError_err' _ _)
  · exact hasError_err' _ _

/-- **the sender-side "unbound alias" monitor is a theorem of the model** (driver monitor
    `VIOL sig=C13 unbound_alias_accepted@<site>`).  A v5.0 PUBLISH with an empty topic handed to
    `send`, whose alias the ghost receiver cannot resolve (`Mon.peerResolve peer p = none`: no
    alias, or an alias no PUBLISH emitted on this connection bound), is never accepted: the call
    reports an error — or, for a QoS>0 PUBLISH without identifier (the documented panic site), does
    nothing at all — so no PUBLISH is requested for sending and the store does not grow.  For every
    configuration and every state of the invariant class (`AliasInv`: the sender's table is contained
    in the ghost receiver's). -/
theorem C13_unbound_alias_not_accepted (cfg : Cfg) (s : St) (p : Pkt) (peer : Mon.PeerTable)
    (hinv : AliasInv s peer) (hk : p.kind = .publish) (h5 : p.ver = 5) (ht : p.topic = [])
    (hu : Mon.peerResolve peer p = none) :
    ¬ PubAccepted s (step cfg s (.send p)) := by
  have key : ∀ c' : C, Mon.hasError c'.ev = true → ¬ PubAccepted s c' := fun c' h hp => by
    have := hp.1; rw [h] at this; cases this
  have hn : (validateTopicAlias { cfg := cfg, s := s } p.alias).1 = none := by
    rcases Option.eq_none_or_eq_some (validateTopicAlias { cfg := cfg, s := s } p.alias).1 with h | ⟨tp, h⟩
    · exact h
    · exfalso
      obtain ⟨a, ha, hl⟩ := (validateTopicAlias_spec { cfg := cfg, s := s } p.alias).2.2.2.2 tp h
      have := hinv.agree a tp hl
      simp [Mon.peerResolve, ht, ha, this] at hu
  simp only [step, send]
  split
  · exact key _ (refuseSend_hasError _ _ _)
  split
  · exact key _ (refuseSend_hasError _ _ _)
  · have h54 : ¬ p.ver = 4 := by omega
    simp only [processSend, h54, if_false, hk]
    exact psV5Publish_unbound { cfg := cfg, s := s } p ht hn rfl

/-- a table without bindings agrees with every ghost: the situation after `notify_closed`, after a
    CONNECT sent / received (`initConn`) and after the Topic Alias Maximum of the CONNECT / CONNACK
    we send created a fresh table -/
theorem TarAgree.of_empty {s : St} (h : s.tar = none ∨ ∃ t, s.tar = some t ∧ t.m = []) (tbl : Mon.PeerTable) :
    TarAgree s tbl := by
  intro a t topic ht hl
  rcases h with h | ⟨t', h, hm⟩
  · rw [h] at ht; cases ht
  · rw [h] at ht; cases ht; rw [hm] at hl; simp [lookup] at hl

/-- **receiver-side ghost table** (driver monitor `VIOL sig=C13 delivered_under_wrong_topic@<site>`):
    a delivered alias-only PUBLISH (`topic_name_extracted`) carries exactly the topic the ghost table —
    the bindings the peer announced on this connection — has for its alias.  `hagree`: the model's
    receive table is contained in the ghost (`TarAgree`; kept by `C13_recv_ghost_step`, established by
    `TarAgree.of_empty`). -/
theorem C13_delivered_under_ghost_topic (c : C) (p : Pkt) (tbl : Mon.PeerTable) (hev : c.ev = [])
    (hx : p.extracted = false) (hagree : TarAgree c.s tbl) :
    ∀ q ∈ recvs (prV5Publish c (.ok p)).ev, q.extracted = true →
      ∃ a, q.alias = some a ∧ Mon.peerLookup a tbl = some q.topic :=
  delivered_topic c p tbl hev hx hagree

/-- the ghost update of the monitor (`inTblStep`: a PUBLISH with non-empty topic and alias `a` that
    is delivered or produces no error binds `a ↦ topic`) keeps `TarAgree` -/
theorem C13_recv_ghost_step (c : C) (p : Pkt) (tbl : Mon.PeerTable) (hev : c.ev = []) (hagree : TarAgree c.s tbl)
    (hacc : Mon.hasError (prV5Publish c (.ok p)).ev = false ∨
      ((prV5Publish c (.ok p)).ev.any fun e => match e with | .recv q => decide (q.kind = Kind.publish) | _ => false) = true) :
    TarAgree (prV5Publish c (.ok p)).s (inTblStep tbl p (prV5Publish c (.ok p)).ev) :=
  tarAgree_step c p tbl hev hagree hacc

/-! ## non-vacuity: concrete states and inputs satisfying the hypotheses -/
namespace C13Ex

def cfg : Cfg := { role := .client, pw := 2 }
def connect : Pkt := { ver := 5, kind := .connect, size := 15, props := [(pSEI, 60), (pTAM, 3)] }
def connack : Pkt := { ver := 5, kind := .connack, size := 8, rc := some 0, props := [(pTAM, 2), (pRM, 5)] }
def pubBind : Pkt := { ver := 5, kind := .publish, topic := [97], alias := some 1 }
def pubUse : Pkt := { ver := 5, kind := .publish, topic := [], alias := some 1 }
def pubStored : Pkt := { ver := 5, kind := .publish, topic := [], alias := some 1, qos := 1, pid := some 1 }
def pubAuto (t : Nat) : Pkt := { ver := 5, kind := .publish, topic := [t] }
/-- CONNECT, CONNACK(TAM=2), PUBLISH binding alias 1 to "a", a stored QoS 1 PUBLISH using it -/
def ops : List Op :=
  [.send connect, .recv [0x20, 0] (fun _ _ _ => .ok connack), .send pubBind, .acquire, .send pubStored,
   .setFlag .autoMap true]
def s1 : St := run cfg (St.init cfg 5) ops
def peer1 : Mon.PeerTable := [(1, [97])]

example : slookup s1 1 = some [97] ∧ s1.store.length = 1 ∧ s1.ver = 5 := by decide
theorem ghost1 : ghostRun cfg (St.init cfg 5) [] ops = some peer1 := by decide
theorem inv1 : AliasInv s1 peer1 := by
  obtain ⟨peer', h1, h2⟩ := C13_reachable cfg ops (by intro op hop; simp [ops] at hop; rcases hop with rfl | rfl | rfl | rfl | rfl | rfl <;> trivial)
  rw [ghost1] at h1; cases h1; exact h2

/-- `C13_alias_inv_step`, `C13_emitted_resolvable`, `C13_stored_has_no_alias`,
    `C13_tables_die_with_connection`: an established connection with a binding, a non-empty
    store, and an empty-topic PUBLISH that uses the binding -/
example : s1.ver = 5 ∧ AliasInv s1 peer1 ∧ RestoreLegal (.send pubUse) ∧
    pubs (step cfg s1 (.send pubUse)).ev = [pubUse] := ⟨by decide, inv1, trivial, by decide⟩
example : RestoreLegal (.restorePackets [{ pubStored with topic := [97], alias := none }]) := by
  simp only [RestoreLegal]; decide
/-- `C13_intended_topic`: auto-map rewrites topic "a" to alias 1 -/
example : (pubAuto 97).topic ≠ [] ∧ (pubAuto 97).alias = none ∧
    (autoAlias { cfg := cfg, s := s1 } (pubAuto 97)).2.topic = [] := by decide
/-- `C13_lru_rebinds_by_sending`: a new topic "b" gets the vacant alias 2 -/
example : (autoAlias { cfg := cfg, s := s1 } (pubAuto 98)).1.s.tas ≠ s1.tas := by decide
/-- `C13_manual_alias_registered_by_sending` -/
example : sendBlocked s1 { pubBind with alias := some 2 } = false ∧
    (psV5PublishAlias { cfg := cfg, s := s1 } { pubBind with alias := some 2 } none false).s.tas ≠ s1.tas := by
  decide
/-- `C13_retransmit_no_alias`: the stored packet has the full topic "a" and no alias -/
example : StoreInv s1 ∧ s1.store.map (fun e => (e.2.topic, e.2.alias)) = [([97], none)] := by
  refine ⟨inv1.store, by decide⟩
/-- `C13_recv_alias_spec` / `C13_recv_alias_invalid_effect`: a receive table with one binding -/
def cR : C := { cfg := cfg, s := { s1 with tar := some { max := 3, m := [(2, [120])] } } }
example : pubUse.topic = [] ∧ cR.s.tar = some { max := 3, m := [(2, [120])] } ∧
    lookup 2 ([(2, [120])] : List (Nat × List Nat)) = some [120] ∧ hasWildcard [120] = false ∧
    cR.s.status = .connected ∧ RecvAliasBad cR.s 4 := by
  refine ⟨rfl, rfl, rfl, rfl, by decide, ?_⟩
  intro t ht; cases ht; decide

/-- `C13_unbound_alias_not_accepted`: alias 2 was never bound on this connection; the call is refused -/
example : AliasInv s1 peer1 ∧ Mon.peerResolve peer1 { pubUse with alias := some 2 } = none ∧
    (step cfg s1 (.send { pubUse with alias := some 2 })).ev = [.error eNotAllowed] :=
  ⟨inv1, by decide, by decide⟩
/-- `C13_delivered_under_ghost_topic` / `C13_recv_ghost_step`: the ghost holds the binding 2 ↦ "x" the
    model's table has; the alias-only PUBLISH is delivered under "x" -/
def tblR : Mon.PeerTable := [(2, [120])]
theorem agreeR : TarAgree cR.s tblR := by
  intro a t topic ht hl
  have : cR.s.tar = some { max := 3, m := [(2, [120])] } := rfl
  rw [this] at ht; cases ht
  simp only [lookup] at hl
  split at hl
  · rename_i h; subst h; simpa [tblR, Mon.peerLookup] using hl
  · cases hl
example : cR.ev = [] ∧ ({ pubUse with alias := some 2 } : Pkt).extracted = false ∧
    recvs (prV5Publish cR (.ok { pubUse with alias := some 2 })).ev =
      [{ pubUse with alias := some 2, topic := [120], extracted := true }] := by decide
/-- the case `C13_recv_ghost_step` excludes is real (model = implementation): a PUBLISH that binds
    alias 1 and is then rejected with Receive Maximum exceeded leaves the binding in the receive
    table although nothing was delivered — the connection is being torn down (DISCONNECT 0x93 +
    close are requested), the table dies with `notify_closed` -/
def cRM : C := { cR with s := { cR.s with recvMax := some 1, publishRecv := [7] } }
def pubOver : Pkt := { ver := 5, kind := .publish, qos := 1, pid := some 9, topic := [98], alias := some 1 }
example : Mon.hasError (prV5Publish cRM (.ok pubOver)).ev = true ∧ recvs (prV5Publish cRM (.ok pubOver)).ev = [] ∧
    (prV5Publish cRM (.ok pubOver)).s.tar = some { max := 3, m := [(2, [120]), (1, [98])] } ∧
    (prV5Publish cRM (.ok pubOver)).s.status = .disconnected := by decide

end C13Ex

end MqttVerif.Conn
