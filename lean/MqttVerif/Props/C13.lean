import MqttVerif.Conn.Lemmas.AliasStep
import MqttVerif.Conn.Lemmas.TarGhost3
/-!
# C13 — Topic aliases always resolve to the intended topic at the receiver

Statement (properties.jsonl): every PUBLISH requested for sending is resolvable by a
spec-conformant receiver to the topic the application asked for; an empty topic is only sent
with an alias (1..=peer's Topic Alias Maximum) that an earlier PUBLISH actually sent on this
connection bound to that topic (manual alias, automatic mapping/replacement, LRU eviction); on
receipt an aliased PUBLISH is delivered with the bound topic or rejected as Topic Alias invalid;
bindings do not survive the connection; stored/retransmitted packets carry the full topic and no
alias.

Ghost: `Mon.PeerTable`, the table of a spec-conformant receiver, updated ONLY from the PUBLISH
packets actually emitted (`Mon.peerStep` / `Mon.peerStepEvs` — the same monitor the driver runs on
the implementation's traces).  Invariant `AliasInv s peer` (`Conn/Lemmas/Alias.lean`):
`TasOk` (internal consistency of `TopicAliasSend`), `StoreInv` (the store is alias-free) and
`Agree` (every sender binding is a receiver binding).  All theorems are for **every** state,
packet, parser behaviour and operation sequence; `s.ver = 5` is the "v5.0 connection" of the
property text (the version, once determined, never changes: `step_ver`).

Receiver side (sections 5 and 6): the driver's ghost table of the bindings the peer announced
(`TarAgree`, `RecvGhostInv`); section 6 follows the driver's current update (`inTblStep2`, `ownTamStep`).
-/
set_option linter.unusedSimpArgs false
set_option linter.unusedVariables false
namespace MqttVerif.Conn
open MqttVerif

/-! ## 1. the invariant is preserved by every call, together with the ghost update -/

/-- **AliasInv is inductive**: for every operation (any packet, any peer bytes, any parser) on a
    v5.0 connection the receiver can process everything the call emitted
    (`peerStepEvs … = some peer'`), and the invariant holds again for the updated ghost table.
    `peerMaxOf s` is the Topic Alias Maximum of the table in force (calls that replace the table
    emit only alias-free PUBLISH packets, for which the bound is irrelevant). -/
theorem C13_alias_inv_step (cfg : Cfg) (s : St) (op : Op) (peer : Mon.PeerTable) (hv : s.ver = 5)
    (hinv : AliasInv s peer) (hl : RestoreLegal op) :
    ∃ peer', Mon.peerStepEvs (peerMaxOf s) peer (step cfg s op).ev = some peer' ∧
      AliasInv (step cfg s op).s peer' := by
  rw [peerStepEvs_eq]; exact step_alias cfg s op peer hv hinv hl

/-- ghost receiver along a history: fed with the events of each call; forgets everything when
    the transport is closed -/
def ghostReset : Op → Mon.PeerTable → Mon.PeerTable
  | .closed, _ => []
  | _, peer' => peer'

def ghostRun (cfg : Cfg) : St → Mon.PeerTable → List Op → Option Mon.PeerTable
  | _, peer, [] => some peer
  | s, peer, op :: ops =>
    match Mon.peerStepEvs (peerMaxOf s) peer (step cfg s op).ev with
    | none => none
    | some peer' => ghostRun cfg (step cfg s op).s (ghostReset op peer') ops

theorem AliasInv.init (cfg : Cfg) (ver : Nat) : AliasInv (St.init cfg ver) [] :=
  ⟨by intro t ht; simp [St.init] at ht, by intro e he; simp [St.init] at he,
   by intro a tp h; simp [slookup, St.init] at h⟩

/-! ## tables die with the connection -/

/-- `notify_closed` drops both tables; the restarted (empty) ghost satisfies the invariant.
    A CONNECT that is sent or received re-initialises both tables (`initConn`); they are created
    afresh from the Topic Alias Maximum of CONNECT / CONNACK (`TAS.new`, empty). -/
theorem C13_tables_die_with_connection (cfg : Cfg) (s : St) (peer : Mon.PeerTable) (hinv : AliasInv s peer) :
    (step cfg s .closed).s.tas = none ∧ (step cfg s .closed).s.tar = none ∧
      AliasInv (step cfg s .closed).s [] := by
  have h1 : (step cfg s .closed).s.tas = none := notifyClosed_tas_none _
  refine ⟨h1, notifyClosed_tar_none _, ?_⟩
  have hq := quiet_notifyClosed { cfg := cfg, s := s }
  refine ⟨hq.tasOk hinv.tasOk, hq.store hinv.store, ?_⟩
  intro a tp h; simp [slookup, h1] at h

theorem initConn_tables (c : C) (b : Bool) : (initConn c b).s.tas = none ∧ (initConn c b).s.tar = none := by
  simp [initConn]

/-- over whole histories: from a fresh v5.0 connection object, along every legal operation
    sequence, the ghost receiver never gets stuck and the invariant holds at the end -/
theorem C13_alias_inv_run (cfg : Cfg) (ops : List Op) (s : St) (peer : Mon.PeerTable) (hv : s.ver = 5)
    (hinv : AliasInv s peer) (hl : ∀ op ∈ ops, RestoreLegal op) :
    ∃ peer', ghostRun cfg s peer ops = some peer' ∧ AliasInv (run cfg s ops) peer' := by
  induction ops generalizing s peer with
  | nil => exact ⟨peer, rfl, hinv⟩
  | cons op ops ih =>
    obtain ⟨peer', h1, h2⟩ := C13_alias_inv_step cfg s op peer hv hinv (hl op (by simp))
    have hv' : (step cfg s op).s.ver = 5 := by rw [step_ver cfg s op (by omega)]; exact hv
    have hinv' : AliasInv (step cfg s op).s (ghostReset op peer') := by
      cases op <;> first | exact h2 | exact (C13_tables_die_with_connection cfg s peer hinv).2.2
    obtain ⟨peer'', h3, h4⟩ := ih (step cfg s op).s _ hv' hinv' (fun o ho => hl o (by simp [ho]))
    exact ⟨peer'', by simp only [ghostRun, h1]; exact h3, by simpa [run] using h4⟩

theorem C13_reachable (cfg : Cfg) (ops : List Op) (hl : ∀ op ∈ ops, RestoreLegal op) :
    ∃ peer', ghostRun cfg (St.init cfg 5) [] ops = some peer' ∧
      AliasInv (run cfg (St.init cfg 5) ops) peer' :=
  C13_alias_inv_run cfg ops _ _ rfl (AliasInv.init cfg 5) hl

/-! ## 2. everything emitted is resolvable -/

/-- every emitted v5.0 PUBLISH either has a non-empty topic (and an alias within `1..max`, if
    any) or an empty topic with an alias that an earlier emitted PUBLISH of this connection bound:
    the receiver monitor never fails -/
theorem C13_emitted_resolvable (cfg : Cfg) (s : St) (op : Op) (peer : Mon.PeerTable) (hv : s.ver = 5)
    (hinv : AliasInv s peer) (hl : RestoreLegal op) :
    Mon.peerStepEvs (peerMaxOf s) peer (step cfg s op).ev ≠ none := by
  obtain ⟨peer', h, _⟩ := C13_alias_inv_step cfg s op peer hv hinv hl
  rw [h]; simp

/-- *intended topic*: when the application asked for the non-empty topic `T` without an alias and
    automatic mapping / replacement rewrote the packet to an empty topic with alias `a`, the
    receiver has `a ↦ T`; otherwise the packet keeps the topic `T` -/
theorem C13_intended_topic {pm : Nat} {c : C} {p : Pkt} {peer : Mon.PeerTable} (hinv : AliasInv c.s peer)
    (hpm : pm = peerMaxOf c.s) (ht : p.topic ≠ []) (ha : p.alias = none) :
    ((autoAlias c p).2.topic = p.topic) ∨
    ((autoAlias c p).2.topic = [] ∧
      ∃ a, (autoAlias c p).2.alias = some a ∧ Mon.peerLookup a peer = some p.topic) := by
  have hp : PubInv pm c.s peer := ⟨hinv.tasOk, hinv.store, hinv.agree, hpm ▸ peerMaxOf_spec c.s⟩
  have h4 := (autoAlias_spec hp ht ha).2.2.2
  by_cases he : (autoAlias c p).2.topic = []
  · exact Or.inr ⟨he, h4 he⟩
  · left
    revert he
    unfold autoAlias; dsimp only
    (repeat' split) <;> simp

/-- LRU eviction / automatic mapping changes the sender's table only in a call that emits the
    new topic with that alias: `autoAlias` touches the table only while connected, only through
    `insert_or_update topic a`, and hands exactly `{p with alias := a}` (full topic) to the tail,
    which emits it in the same call -/
theorem C13_lru_rebinds_by_sending (c : C) (p : Pkt) (rel : Option Nat)
    (h : (autoAlias c p).1.s.tas ≠ c.s.tas) :
    c.s.status = .connected ∧
    ∃ a, (autoAlias c p).2 = { p with alias := some a } ∧
      (autoAlias c p).1 = tasInsert c p.topic a "topic_alias_send.rs:insert_or_update:assert" ∧
      (p.ver = 5 → p.kind = .publish →
        pubs (psV5PublishTail (autoAlias c p).1 (autoAlias c p).2 rel).ev =
          pubs c.ev ++ [{ p with alias := some a }]) := by
  revert h
  unfold autoAlias; dsimp only
  (repeat' split) <;> simp
  rename_i hc _ _ t _ _ _ _
  intro _
  refine ⟨hc, ?_⟩
  intro h5 hk
  rw [tail_pubs]
  have e := (tasInsert_spec c p.topic t.lruAlias "topic_alias_send.rs:insert_or_update:assert").1
  simp [hc, pubsOf_send, h5, hk, e]

/-- the same for an alias chosen by the application: it is registered only while connected, i.e.
    only by a packet that is emitted in the same call (fix of finding #11b) -/
theorem C13_manual_alias_registered_by_sending (c : C) (p : Pkt) (rel : Option Nat) (a : Nat)
    (hb : sendBlocked c.s p = false) (ht : p.topic ≠ []) (ha : p.alias = some a)
    (h : (psV5PublishAlias c p rel false).s.tas ≠ c.s.tas) (h5 : p.ver = 5) (hk : p.kind = .publish) :
    c.s.status = .connected ∧ pubs (psV5PublishAlias c p rel false).ev = pubs c.ev ++ [p] := by
  rw [psV5PublishAlias_eq] at h ⊢
  have ht' : p.topic.isEmpty = false := by simpa using ht
  simp only [hb, ht', ha, Bool.false_eq_true, if_false] at h ⊢
  split at h
  · by_cases hc : c.s.status = .connected
    · refine ⟨hc, ?_⟩
      rename_i hr
      have e := (tasInsert_spec c p.topic a "topic_alias_send.rs:insert_or_update:assert").1
      simp only [hr, if_true, hc]
      rw [tail_pubs]
      simp [hc, pubsOf_send, h5, hk, e]
    · simp [hc] at h
  · simp at h

/-! ## 3. the store is alias-free; retransmissions carry the full topic -/

/-- every packet `process_send_v5_0_publish` places in the store has no Topic Alias and a
    non-empty topic: `StoreInv` is preserved by every call -/
theorem C13_stored_has_no_alias (cfg : Cfg) (s : St) (op : Op) (peer : Mon.PeerTable) (hv : s.ver = 5)
    (hinv : AliasInv s peer) (hl : RestoreLegal op) :
    ∀ e ∈ (step cfg s op).s.store, e.2.ver = 5 → e.2.kind = .publish → e.2.alias = none ∧ e.2.topic ≠ [] := by
  obtain ⟨peer', _, h⟩ := C13_alias_inv_step cfg s op peer hv hinv hl
  exact fun e he => h.store e he

/-- hence every v5.0 PUBLISH resent by `send_stored` carries the full topic and no alias -/
theorem C13_retransmit_no_alias (c : C) (hs : StoreInv c.s) :
    ∃ l, pubs (sendStored c).ev = pubs c.ev ++ l ∧ ∀ q ∈ l, q.alias = none ∧ q.topic ≠ [] := by
  obtain ⟨l, h1, h2⟩ := (quiet_sendStored c).evs
  exact ⟨l, h1, h2 hs⟩

/-! ## 4. receive side -/

/-- **receive-side specification.**  For a received v5.0 PUBLISH `p`:
    * empty topic + alias `a`: delivered with `topic = lookup a tar.m`, `extracted = true` iff
      `1 ≤ a ≤ max`, `a` is bound and the bound topic has no wildcard; otherwise (no alias, `a = 0`,
      `a > max`, no table, unbound, wildcard) Topic Alias invalid (0x94) and nothing delivered;
    * non-empty topic + alias: the table gets exactly that binding (`TAR.insertOrUpdate`), range
      errors as above;
    * otherwise the table is untouched. -/
theorem C13_recv_alias_spec (c : C) (p : Pkt) :
    (p.topic = [] → p.alias = none → prV5PublishAlias c p = (handleV5Error c eAliasInvalid, none)) ∧
    (∀ a, p.alias = some a → RecvAliasBad c.s a →
      prV5PublishAlias c p = (handleV5Error c eAliasInvalid, none)) ∧
    (∀ a t, p.topic = [] → p.alias = some a → c.s.tar = some t → lookup a t.m = none →
      prV5PublishAlias c p = (handleV5Error c eAliasInvalid, none)) ∧
    (∀ a t topic, p.topic = [] → p.alias = some a → c.s.tar = some t → lookup a t.m = some topic →
      hasWildcard topic = true → prV5PublishAlias c p = (handleV5Error c eAliasInvalid, none)) ∧
    (∀ a t topic, p.topic = [] → p.alias = some a → c.s.tar = some t → a ≠ 0 → a ≤ t.max →
      lookup a t.m = some topic → hasWildcard topic = false →
      prV5PublishAlias c p = (c, some { p with topic := topic, extracted := true })) ∧
    (∀ a t, p.topic ≠ [] → p.alias = some a → c.s.tar = some t → a ≠ 0 → a ≤ t.max →
      prV5PublishAlias c p = ({ c with s := { c.s with tar := some (t.insertOrUpdate p.topic a) } }, some p)) ∧
    (p.topic ≠ [] → p.alias = none → prV5PublishAlias c p = (c, some p)) :=
  ⟨prvAlias_empty_noalias c p, prvAlias_bad c p, prvAlias_empty_unbound c p, prvAlias_empty_wildcard c p,
   prvAlias_empty_bound c p, prvAlias_register c p, prvAlias_plain c p⟩

/-- the error path leaves the receive table alone and, while connected, answers with
    DISCONNECT 0x94 + close -/
theorem C13_recv_alias_invalid_effect (c : C) (h : c.s.status = .connected) :
    (handleV5Error c eAliasInvalid).s.tar = c.s.tar ∧
    ∃ tc, (∀ x ∈ tc, IsTimerCancel x) ∧
      (handleV5Error c eAliasInvalid).ev = c.ev ++ tc ++
        (if sizeOk c (mkV5Disconnect 0x94) then [.send (mkV5Disconnect 0x94) none, .close] else [.close]) ++
        [.error eAliasInvalid] := by
  refine ⟨by simp, ?_⟩
  have := (handleV5Error_connected c eAliasInvalid h).2
  simpa [errToDisconnectRc, eAliasInvalid] using this

/-- what the handler delivers and what it leaves in the table is decided by the alias stage;
    `TAR.insertOrUpdate` adds exactly the one binding -/
theorem C13_recv_delivery (c : C) (p : Pkt) :
    (prV5Publish c (.ok p)).s.tar = (prV5PublishAlias c p).1.s.tar ∧
    (recvs (prV5Publish c (.ok p)).ev = recvs c.ev ∨
      ∃ q, (prV5PublishAlias c p).2 = some q ∧ recvs (prV5Publish c (.ok p)).ev = recvs c.ev ++ [q]) ∧
    (∀ (t : TAR) topic a k, lookup k (t.insertOrUpdate topic a).m = if k = a then some topic else lookup k t.m) :=
  ⟨prV5Publish_tar c p, prV5Publish_recvs c p, TAR.insertOrUpdate_lookup⟩

/-! ## 5. the two alias monitors of the driver are theorems of the model

`unbound_alias_accepted` (sender side) and `delivered_under_wrong_topic` (receiver side). -/

/-- the monitor's "accepted": no error event, and a PUBLISH was requested for sending or the store grew -/
def PubAccepted (s : St) (c' : C) : Prop :=
  Mon.hasError c'.ev = false ∧
  ((c'.ev.any fun e => match e with | .send q _ => decide (q.kind = Kind.publish) | _ => false) = true ∨
    c'.s.store.length > s.store.length)

theorem hasError_err' (c : C) (e : Nat) : Mon.hasError (c.err e).ev = true := by
  simp [Mon.hasError, C.err, C.push]

theorem releaseId_ev' (c : C) (id : Nat) : (releaseId c id).ev = c.ev := by
  unfold releaseId; simp only []; split <;> rfl

theorem releaseIfUsed_hasError (c : C) (id : Nat) (h : Mon.hasError c.ev = true) :
    Mon.hasError (releaseIfUsed c id).ev = true := by
  unfold releaseIfUsed
  split
  · simp only [C.push, releaseId_ev']; simp [Mon.hasError] at h ⊢; exact h
  · exact h

theorem pubRefuseCleanup_hasError (c : C) (pid : Option Nat) (h : Mon.hasError c.ev = true) :
    Mon.hasError (pubRefuseCleanup c pid).ev = true := by
  unfold pubRefuseCleanup
  split
  · exact h
  · split
    · simp only [C.push, releaseId_ev']; simp [Mon.hasError] at h ⊢; exact h
    · exact h

theorem vta_fst_of_tas (c c' : C) (ao : Option Nat) (h : c'.s.tas = c.s.tas) :
    (validateTopicAlias c' ao).1 = (validateTopicAlias c ao).1 := by
  unfold validateTopicAlias validateTopicAliasRange
  cases ao with
  | none => rfl
  | some a => simp only [h]; cases c.s.tas <;> simp <;> split <;> rfl

theorem psV5PublishAlias_unbound (c : C) (p : Pkt) (rel : Option Nat) (ht : p.topic = [])
    (hn : (validateTopicAlias c p.alias).1 = none) :
    Mon.hasError (psV5PublishAlias c p rel false).ev = true := by
  unfold psV5PublishAlias
  simp only [ht, List.isEmpty_nil, if_true, Bool.false_eq_true, if_false, hn, Option.isNone_none, Bool.not_false,
    and_self]
  split <;> split <;> exact pubRefuseCleanup_hasError _ _ (hasError_err' _ _)

theorem psV5Publish_unbound (c : C) (p : Pkt) (ht : p.topic = [])
    (hn : (validateTopicAlias c p.alias).1 = none) (hev : c.ev = []) :
    ¬ PubAccepted c.s (psV5Publish c p) := by
  unfold psV5Publish
  have key : ∀ c' : C, Mon.hasError c'.ev = true → ¬ PubAccepted c.s c' := fun c' h hp => by
    have := hp.1; rw [h] at this; cases this
  split
  · split
    · exact key _ (releaseIfUsed_hasError _ _ (hasError_err' _ _))
    · exact key _ (hasError_err' _ _)
  split
  · split
    · -- panic site: no event, no change
      intro hp
      rcases hp.2 with h | h
      · simp [C.setPanic, hev] at h
      · simp [C.setPanic] at h
    · rename_i id _
      split
      · exact key _ (releaseIfUsed_hasError _ _ (hasError_err' _ _))
      split
      · exact key _ (hasError_err' _ _)
      split
      · simp only [ht, List.isEmpty_nil, if_true, hn]
        exact key _ (releaseIfUsed_hasError _ _ (hasError_err' _ _))
      · apply key
        apply psV5PublishAlias_unbound _ _ _ ht
        rw [← hn]
        apply vta_fst_of_tas
        split <;> rfl
  · split
    · exact key _ (hasError_err' _ _)
    · exact key _ (psV5PublishAlias_unbound _ _ _ ht hn)


/-! receiver side -/

/-- every binding of the model's receive table is a binding of the ghost table -/
def TarAgree (s : St) (tbl : Mon.PeerTable) : Prop :=
  ∀ a t topic, s.tar = some t → lookup a t.m = some topic → Mon.peerLookup a tbl = some topic

/-- the monitor's update of its receiver-side ghost table after a `recv` of the parsed v5.0 PUBLISH `p`
    whose events were `evs` -/
def inTblStep (tbl : Mon.PeerTable) (p : Pkt) (evs : List Ev) : Mon.PeerTable :=
  match p.alias with
  | some a =>
    if !p.topic.isEmpty ∧ (!Mon.hasError evs ∨
        evs.any (fun e => match e with | .recv q => decide (q.kind = Kind.publish) | _ => false)) then
      (a, p.topic) :: tbl.filter (fun kv => kv.1 ≠ a)
    else tbl
  | none => tbl

/-- the four outcomes of the alias stage of `process_recv_v5_0_publish` -/
theorem aliasStage_cases (c : C) (p : Pkt) :
    (prV5PublishAlias c p = (handleV5Error c eAliasInvalid, none)) ∨
    (p.alias = none ∧ p.topic ≠ [] ∧ prV5PublishAlias c p = (c, some p)) ∨
    (∃ a t topic, p.topic = [] ∧ p.alias = some a ∧ c.s.tar = some t ∧ lookup a t.m = some topic ∧
      prV5PublishAlias c p = (c, some { p with topic := topic, extracted := true })) ∨
    (∃ a t, p.topic ≠ [] ∧ p.alias = some a ∧ c.s.tar = some t ∧
      prV5PublishAlias c p = ({ c with s := { c.s with tar := some (t.insertOrUpdate p.topic a) } }, some p)) := by
  have bad : ∀ {x : C × Option Pkt}, x = (handleV5Error c eAliasInvalid, none) → x = (handleV5Error c eAliasInvalid, none) :=
    fun h => h
  by_cases ht : p.topic = []
  · rcases Option.eq_none_or_eq_some p.alias with ha | ⟨a, ha⟩
    · exact .inl (bad (prvAlias_empty_noalias c p ht ha))
    · rcases Option.eq_none_or_eq_some c.s.tar with htar | ⟨t, htar⟩
      · exact .inl (bad (prvAlias_bad c p a ha (by intro t h; rw [htar] at h; cases h)))
      · by_cases hb : a = 0 ∨ a > t.max
        · exact .inl (bad (prvAlias_bad c p a ha (by intro t' h'; rw [htar] at h'; cases h'; exact hb)))
        · rcases Option.eq_none_or_eq_some (lookup a t.m) with hl | ⟨topic, hl⟩
          · exact .inl (bad (prvAlias_empty_unbound c p a t ht ha htar hl))
          · rcases Bool.eq_false_or_eq_true (hasWildcard topic) with hw | hw
            · exact .inl (bad (prvAlias_empty_wildcard c p a t topic ht ha htar hl hw))
            · exact .inr (.inr (.inl ⟨a, t, topic, ht, ha, htar, hl,
                prvAlias_empty_bound c p a t topic ht ha htar (by omega) (by omega) hl hw⟩))
  · rcases Option.eq_none_or_eq_some p.alias with ha | ⟨a, ha⟩
    · exact .inr (.inl ⟨ha, ht, prvAlias_plain c p ht ha⟩)
    · rcases Option.eq_none_or_eq_some c.s.tar with htar | ⟨t, htar⟩
      · exact .inl (bad (prvAlias_bad c p a ha (by intro t h; rw [htar] at h; cases h)))
      · by_cases hb : a = 0 ∨ a > t.max
        · exact .inl (bad (prvAlias_bad c p a ha (by intro t' h'; rw [htar] at h'; cases h'; exact hb)))
        · exact .inr (.inr (.inr ⟨a, t, ht, ha, htar, prvAlias_register c p a t ht ha htar (by omega) (by omega)⟩))

/-- **delivered under the ghost's topic**: an alias-only PUBLISH that the handler delivers
    (`topic_name_extracted`) carries exactly the topic the ghost table binds its alias to -/
theorem delivered_topic (c : C) (p : Pkt) (tbl : Mon.PeerTable) (hev : c.ev = []) (hx : p.extracted = false)
    (hagree : TarAgree c.s tbl) :
    ∀ q ∈ recvs (prV5Publish c (.ok p)).ev, q.extracted = true →
      ∃ a, q.alias = some a ∧ Mon.peerLookup a tbl = some q.topic := by
  intro q hq hqx
  rcases prV5Publish_recvs c p with h | ⟨q', h1, h2⟩
  · rw [h, hev] at hq; simp [recvs] at hq
  · rw [h2, hev] at hq
    simp [recvs] at hq
    subst hq
    rcases aliasStage_cases c p with h | ⟨_, _, h⟩ | ⟨a, t, topic, ht, ha, htar, hl, h⟩ | ⟨a, t, _, _, _, h⟩
    · rw [h] at h1; cases h1
    · rw [h] at h1; simp at h1; subst h1; rw [hx] at hqx; cases hqx
    · rw [h] at h1; simp at h1; subst h1
      exact ⟨a, ha, hagree a t topic htar hl⟩
    · rw [h] at h1; simp at h1; subst h1; rw [hx] at hqx; cases hqx

theorem any_recv_of_recvs_nil {l : List Ev} (h : recvs l = []) :
    (l.any fun e => match e with | .recv q => decide (q.kind = Kind.publish) | _ => false) = false := by
  induction l with
  | nil => rfl
  | cons e r ih =>
    cases e <;> simp_all [recvs]

theorem hasError_handleV5Error (c : C) (e : Nat) : Mon.hasError (handleV5Error c e).ev = true := by
  unfold handleV5Error; exact hasError_err' _ _

/-- the ghost keeps containing the model's receive table — provided the PUBLISH was accepted (no error
    event) or delivered; the excluded case is a PUBLISH that registers a binding and is then
    rejected (Receive Maximum exceeded) -/
theorem tarAgree_step (c : C) (p : Pkt) (tbl : Mon.PeerTable) (hev : c.ev = []) (hagree : TarAgree c.s tbl)
    (hacc : Mon.hasError (prV5Publish c (.ok p)).ev = false ∨
      ((prV5Publish c (.ok p)).ev.any fun e => match e with | .recv q => decide (q.kind = Kind.publish) | _ => false) = true) :
    TarAgree (prV5Publish c (.ok p)).s (inTblStep tbl p (prV5Publish c (.ok p)).ev) := by
  intro k t' topic' htar' hl'
  rw [prV5Publish_tar] at htar'
  rcases aliasStage_cases c p with h | ⟨ha, _, h⟩ | ⟨a, t, topic, ht, ha, htar, hl, h⟩ | ⟨a, t, ht, ha, htar, h⟩
  · -- alias invalid: error, nothing delivered, nothing changes
    have e : prV5Publish c (.ok p) = handleV5Error c eAliasInvalid := by
      unfold prV5Publish; simp only [h]
    rw [h] at htar'
    simp only [handleV5Error_tar] at htar'
    have h1 : Mon.hasError (prV5Publish c (.ok p)).ev = true := by rw [e]; exact hasError_handleV5Error _ _
    have h2 := any_recv_of_recvs_nil (l := (prV5Publish c (.ok p)).ev) (by rw [e, handleV5Error_recvs, hev]; rfl)
    have : inTblStep tbl p (prV5Publish c (.ok p)).ev = tbl := by
      unfold inTblStep; split
      · simp [h1, h2]
      · rfl
    rw [this]; exact hagree k t' topic' htar' hl'
  · rw [h] at htar'
    have : inTblStep tbl p (prV5Publish c (.ok p)).ev = tbl := by unfold inTblStep; simp [ha]
    rw [this]; exact hagree k t' topic' htar' hl'
  · rw [h] at htar'
    have : inTblStep tbl p (prV5Publish c (.ok p)).ev = tbl := by unfold inTblStep; simp [ha, ht]
    rw [this]; exact hagree k t' topic' htar' hl'
  · rw [h] at htar'
    simp only [Option.some.injEq] at htar'
    subst htar'
    rw [TAR.insertOrUpdate_lookup] at hl'
    have hne : p.topic.isEmpty = false := by simpa using ht
    have : inTblStep tbl p (prV5Publish c (.ok p)).ev = (a, p.topic) :: tbl.filter (fun kv => kv.1 ≠ a) := by
      unfold inTblStep
      simp only [ha, hne, Bool.not_false, true_and]
      rw [if_pos]
      rcases hacc with h1 | h1
      · left; simp [h1]
      · right; exact h1
    rw [this, peerLookup_cons_filter]
    split at hl'
    · rename_i hk; simp [hk]; simpa using hl'
    · rename_i hk; simp [hk]; exact hagree k t topic' htar hl'


theorem refuseSend_hasError (c : C) (e : Nat) (p : Pkt) : Mon.hasError (refuseSend c e p).ev = true := by
  unfold refuseSend
  split
  · exact releaseIfUsed_hasError _ _ (hasError_err' _ _)
  · exact hasError_err' _ _

/-- **the sender-side "unbound alias" monitor is a theorem of the model** (driver monitor
    `VIOL sig=C13 unbound_alias_accepted@<site>`).  A v5.0 PUBLISH with an empty topic handed to
    `send`, whose alias the ghost receiver cannot resolve (`Mon.peerResolve peer p = none`: no
    alias, or an alias no PUBLISH emitted on this connection bound), is never accepted: the call
    reports an error — or, for a QoS>0 PUBLISH without identifier (the documented panic site), does
    nothing at all — so no PUBLISH is requested for sending and the store does not grow.  For every
    configuration and every state of the invariant class (`AliasInv`: the sender's table is contained
    in the ghost receiver's). -/
theorem C13_unbound_alias_not_accepted (cfg : Cfg) (s : St) (p : Pkt) (peer : Mon.PeerTable)
    (hinv : AliasInv s peer) (hk : p.kind = .publish) (h5 : p.ver = 5) (ht : p.topic = [])
    (hu : Mon.peerResolve peer p = none) :
    ¬ PubAccepted s (step cfg s (.send p)) := by
  have key : ∀ c' : C, Mon.hasError c'.ev = true → ¬ PubAccepted s c' := fun c' h hp => by
    have := hp.1; rw [h] at this; cases this
  have hn : (validateTopicAlias { cfg := cfg, s := s } p.alias).1 = none := by
    rcases Option.eq_none_or_eq_some (validateTopicAlias { cfg := cfg, s := s } p.alias).1 with h | ⟨tp, h⟩
    · exact h
    · exfalso
      obtain ⟨a, ha, hl⟩ := (validateTopicAlias_spec { cfg := cfg, s := s } p.alias).2.2.2.2 tp h
      have := hinv.agree a tp hl
      simp [Mon.peerResolve, ht, ha, this] at hu
  simp only [step, send]
  split
  · exact key _ (refuseSend_hasError _ _ _)
  split
  · exact key _ (refuseSend_hasError _ _ _)
  · have h54 : ¬ p.ver = 4 := by omega
    simp only [processSend, h54, if_false, hk]
    exact psV5Publish_unbound { cfg := cfg, s := s } p ht hn rfl

/-- a table without bindings agrees with every ghost: the situation after `notify_closed`, after a
    CONNECT sent / received (`initConn`) and after the Topic Alias Maximum of the CONNECT / CONNACK
    we send created a fresh table -/
theorem TarAgree.of_empty {s : St} (h : s.tar = none ∨ ∃ t, s.tar = some t ∧ t.m = []) (tbl : Mon.PeerTable) :
    TarAgree s tbl := by
  intro a t topic ht hl
  rcases h with h | ⟨t', h, hm⟩
  · rw [h] at ht; cases ht
  · rw [h] at ht; cases ht; rw [hm] at hl; simp [lookup] at hl

/-- **receiver-side ghost table** (driver monitor `VIOL sig=C13 delivered_under_wrong_topic@<site>`):
    a delivered alias-only PUBLISH (`topic_name_extracted`) carries exactly the topic the ghost table —
    the bindings the peer announced on this connection — has for its alias.  `hagree`: the model's
    receive table is contained in the ghost (`TarAgree`; kept by `C13_recv_ghost_step`, established by
    `TarAgree.of_empty`). -/
theorem C13_delivered_under_ghost_topic (c : C) (p : Pkt) (tbl : Mon.PeerTable) (hev : c.ev = [])
    (hx : p.extracted = false) (hagree : TarAgree c.s tbl) :
    ∀ q ∈ recvs (prV5Publish c (.ok p)).ev, q.extracted = true →
      ∃ a, q.alias = some a ∧ Mon.peerLookup a tbl = some q.topic :=
  delivered_topic c p tbl hev hx hagree

/-- the ghost update of the monitor as it was before round 4 (`inTblStep`: a PUBLISH with non-empty
    topic and alias `a` that is delivered or produces no error binds `a ↦ topic`) keeps `TarAgree`;
    for the driver's current update see section 6 (`C13_recv_ghost_step2`, `C13_recv_ghost_inv_step`) -/
theorem C13_recv_ghost_step (c : C) (p : Pkt) (tbl : Mon.PeerTable) (hev : c.ev = []) (hagree : TarAgree c.s tbl)
    (hacc : Mon.hasError (prV5Publish c (.ok p)).ev = false ∨
      ((prV5Publish c (.ok p)).ev.any fun e => match e with | .recv q => decide (q.kind = Kind.publish) | _ => false) = true) :
    TarAgree (prV5Publish c (.ok p)).s (inTblStep tbl p (prV5Publish c (.ok p)).ev) :=
  tarAgree_step c p tbl hev hagree hacc

/-! ## 6. receiver side, round 4: the ghost table registers every announced binding

The driver's receiver-side ghost changed (`Driver/ConnDrv.lean`, `monitorCall`, "C13 (receiver side)"):
the table is emptied by `closed` and by a call that *delivers* a CONNECT or a successful CONNACK
(`inTbl0`); a received, parsed v5.0 PUBLISH with a non-empty topic and an alias within the Topic
Alias Maximum *we announced on this connection* (`ownTam`, read off the v5.0 CONNECT / successful
CONNACK we sent; 0 after `closed`) registers its binding — whether or not the packet is then refused
(Receive Maximum exceeded …).  The definitions below are the driver's, on the model's types.

Results (model-side lemmas: `Conn/Lemmas/TarGhost.lean`, `TarGhost2.lean`, `TarGhost3.lean`):
* `C13_recv_ghost_step2` — handler level: `TarAgree ∧ TamAgree` kept by `prV5Publish c (.ok p)` for every
  `p`, no "accepted or delivered" hypothesis;
* `C13_recv_ghost_inv_step` — `RecvGhostInv` (`TarAgree`, `TamAgree`, `VerTar`) is preserved by every
  `step` under the contract `RecvGhostOk` (state-dependent clauses in their weakest form);
* `C13_recv_ghost_inv_step_peer`, `C13_recv_ghost_run` — the same with the natural contract
  `RecvGhostPeerOk` (conformant peer, at most one Topic Alias Maximum, …) and from `St.init`;
* `C13_delivered_under_wrong_topic_never` — the monitor's check itself, for one call;
* `C13Ex2` — every clause of the contract is needed (`decide`-checked histories).  Two of them are
  findings about the implementation rather than about the monitor: a PUBLISH received while
  `connecting` is processed (bindings registered before the CONNACK survive it), and a CONNACK is
  accepted while `disconnected`. -/

/-- `delivered` of the driver: the first delivered CONNECT / successful CONNACK among the events -/
def deliveredStart (evs : List Ev) : Option Pkt :=
  evs.findSome? fun e => match e with
    | .recv p => if p.kind = Kind.connect ∨ (p.kind = Kind.connack ∧ p.rc = some 0) then some p else none
    | _ => none

/-- `inTbl0`: `closed` and a delivered connection start empty the ghost table -/
def inTblReset (op : Op) (evs : List Ev) (tbl : Mon.PeerTable) : Mon.PeerTable :=
  match op, deliveredStart evs with
  | .closed, _ => []
  | _, some _ => []
  | _, none => tbl

/-- `ownTam0` -/
def ownTamReset (op : Op) (ownTam : Nat) : Nat :=
  match op with
  | .closed => 0
  | _ => ownTam

/-- the new ghost table after a `recv` whose parsed packet is the v5.0 PUBLISH `p` -/
def inTblStep2 (ownTam : Nat) (tbl : Mon.PeerTable) (p : Pkt) : Mon.PeerTable :=
  match p.alias with
  | some a =>
    if !p.topic.isEmpty ∧ 1 ≤ a ∧ a ≤ ownTam then (a, p.topic) :: tbl.filter (fun kv => kv.1 ≠ a) else tbl
  | none => tbl

/-- `ownTam`: the Topic Alias Maximum of the last v5.0 CONNECT / successful CONNACK among the events
    (`Mon.findProp`: the FIRST such property of the packet; 0 when there is none) -/
def ownTamStep (ownTam0 : Nat) (evs : List Ev) : Nat :=
  evs.foldl (fun acc e => match e with
    | .send p _ =>
      if p.ver = 5 ∧ (p.kind = Kind.connect ∨ (p.kind = Kind.connack ∧ p.rc = some 0)) then
        (Mon.findProp p pTAM).getD 0 else acc
    | _ => acc) ownTam0

/-- the driver's whole update of the ghost table for one call; `orc`: the parsed packet the harness
    reports for a `recv` call that produced a frame (`parsed = .ok p ∧ frame ≠ "none"`) -/
def inTblNext (op : Op) (orc : Option Pkt) (evs : List Ev) (ownTam : Nat) (tbl : Mon.PeerTable) :
    Mon.PeerTable :=
  match op, orc with
  | .recv _ _, some p =>
    if p.ver = 5 ∧ p.kind = Kind.publish then inTblStep2 (ownTamReset op ownTam) (inTblReset op evs tbl) p
    else inTblReset op evs tbl
  | _, _ => inTblReset op evs tbl

def ownTamNext (op : Op) (evs : List Ev) (ownTam : Nat) : Nat := ownTamStep (ownTamReset op ownTam) evs

/-- the parsed packet of a `recv` call that completes a frame (what the harness prints as `parsed=`;
    the driver feeds the model the constant parser `fun _ _ _ => parsed`, for which the version
    argument is irrelevant) -/
def recvParsed (s : St) : Op → Option Pkt
  | .recv inp parse =>
    match (Framing.feed s.pb inp).2.1 with
    | some (.complete fh data) => TarGhost.okOf (parse s.ver fh data)
    | _ => none
  | _ => none

/-- the model's Topic Alias Maximum for incoming aliases is the one the ghost read off our CONNECT / CONNACK -/
def TamAgree (s : St) (ownTam : Nat) : Prop := ∀ t, s.tar = some t → t.max = ownTam

/-- the receive table exists on v5.0 connections only -/
def VerTar (s : St) : Prop := s.ver = 5 ∨ ((s.ver = 0 ∨ s.ver = 4) ∧ s.tar = none)

/-- the receiver-side ghost invariant -/
structure RecvGhostInv (s : St) (tbl : Mon.PeerTable) (ownTam : Nat) : Prop where
  agree : TarAgree s tbl
  tam : TamAgree s ownTam
  ver : VerTar s

/-- at most one Topic Alias Maximum property (a second one is a protocol error, [MQTT-3.1.2.11]) -/
def TamUnique (p : Pkt) : Prop := (p.props.filter (fun kv => kv.1 = pTAM)).length ≤ 1

/-- the L1 parser answers with a packet of the frame's type and of the version it parsed for -/
def ParseTG (parse : Nat → Nat → List Nat → Except Nat Pkt) : Prop :=
  ∀ v fh d p, parse v fh d = .ok p → p.kind.nibble = fh / 16 ∧ p.ver = v

/-- the receive table has no bindings -/
def TarFresh (o : Option TAR) : Prop := ∀ t, o = some t → t.m = []

/-- **contract of one call** for the receiver-side ghost, part 1 (each clause is needed: `C13Ex2`) -/
structure RecvGhostBase (s : St) (op : Op) : Prop where
  /-- (d) parser: type nibble and version -/
  parse : ∀ inp parse, op = .recv inp parse → ParseTG parse
  /-- (b) packets handed to `send` are v3.1.1 or v5.0 packets -/
  sendVer : ∀ p, op = .send p → p.ver = 4 ∨ p.ver = 5
  /-- (a) a CONNECT / CONNACK we send carries at most one Topic Alias Maximum -/
  tamUnique : ∀ p, op = .send p → p.kind = .connect ∨ p.kind = .connack → TamUnique p
  /-- the peer respects the Maximum Packet Size we announced (for PUBLISH frames) -/
  size : ∀ inp parse fh data, op = .recv inp parse → (Framing.feed s.pb inp).2.1 = some (.complete fh data) →
    fh / 16 = 3 → totalSize data.length ≤ s.mpsRecv

/-- part 2, the state-dependent clauses in their weakest form (natural forms: `PeerOk`; `StoreTG` is
    itself inductive: `TarGhost.storeTG_step`) -/
structure RecvGhostOk (cfg : Cfg) (s : St) (op : Op) : Prop extends RecvGhostBase s op where
  /-- (d) the store holds no v5.0 CONNECT / CONNACK (`C05_store_kinds`) -/
  store : TarGhost.StoreTG s
  /-- a successful CONNACK without (non-zero) Topic Alias Maximum is sent (accepted only while
      `connecting`) only when no receive table exists: it answers a delivered CONNECT and is not sent
      on top of a CONNECT we sent ourselves (possible with role `any`) -/
  connackFresh : ∀ p, op = .send p → p.kind = .connack → p.rc = some 0 → s.status = .connecting →
    s.tar = none ∨ (Mon.findProp p pTAM).getD 0 ≠ 0
  /-- (c) a successful CONNACK is delivered only to a receive table without bindings (the ghost table
      is emptied by that delivery, the model's is not) -/
  connackEmpty : (∃ p, Ev.recv p ∈ (step cfg s op).ev ∧ p.kind = .connack ∧ p.rc = some 0) → TarFresh s.tar

/-! ### the ghost reads only the `tg` events -/

theorem deliveredStart_tg (evs : List Ev) : deliveredStart evs = deliveredStart (TarGhost.tg evs) := by
  induction evs with
  | nil => rfl
  | cons e rest ih =>
    cases e with
    | recv p =>
      by_cases h : p.kind = Kind.connect ∨ (p.kind = Kind.connack ∧ p.rc = some 0)
      · have : TarGhost.tgRecv p = true := by simpa [TarGhost.tgRecv] using h
        simp [deliveredStart, List.findSome?, TarGhost.tg_cons, this, h]
      · have : TarGhost.tgRecv p = false := by simpa [TarGhost.tgRecv] using h
        simp only [deliveredStart, List.findSome?, TarGhost.tg_cons, TarGhost.TGev_recv, this, h, if_false,
          Bool.false_eq_true, List.nil_append] at ih ⊢
        exact ih
    | send p r =>
      by_cases h : TarGhost.tgSend p = true
      · simp only [deliveredStart, List.findSome?, TarGhost.tg_cons, TarGhost.TGev_send, h, if_true,
          List.singleton_append] at ih ⊢
        exact ih
      · simp only [deliveredStart, List.findSome?, TarGhost.tg_cons, TarGhost.TGev_send, h, if_false,
          List.nil_append] at ih ⊢
        exact ih
    | _ => simpa [deliveredStart, List.findSome?, TarGhost.tg_cons, TarGhost.TGev] using ih

theorem ownTamStep_tg (evs : List Ev) : ∀ t, ownTamStep t evs = ownTamStep t (TarGhost.tg evs) := by
  induction evs with
  | nil => intro t; rfl
  | cons e rest ih =>
    intro t
    cases e with
    | send p r =>
      by_cases h : p.ver = 5 ∧ (p.kind = Kind.connect ∨ (p.kind = Kind.connack ∧ p.rc = some 0))
      · have : TarGhost.tgSend p = true := by simpa [TarGhost.tgSend] using h
        simp only [ownTamStep, List.foldl_cons, h, and_self, if_true, TarGhost.tg_cons, TarGhost.TGev_send, this,
          List.singleton_append] at ih ⊢
        exact ih _
      · have : TarGhost.tgSend p = false := by simpa [TarGhost.tgSend] using h
        simp only [ownTamStep, List.foldl_cons, h, if_false, TarGhost.tg_cons, TarGhost.TGev_send, this,
          Bool.false_eq_true, List.nil_append] at ih ⊢
        exact ih _
    | recv p =>
      by_cases h : TarGhost.tgRecv p = true
      · simp only [ownTamStep, List.foldl_cons, TarGhost.tg_cons, TarGhost.TGev_recv, h, if_true,
          List.singleton_append] at ih ⊢
        exact ih _
      · simp only [ownTamStep, List.foldl_cons, TarGhost.tg_cons, TarGhost.TGev_recv, h, if_false,
          List.nil_append] at ih ⊢
        exact ih _
    | _ => simpa [ownTamStep, List.foldl_cons, TarGhost.tg_cons, TarGhost.TGev] using ih t

/-! ### the property fold of the model against `Mon.findProp` of the ghost -/

theorem tamFold_noTam (l : List (Nat × Nat)) (h : ∀ kv ∈ l, kv.1 ≠ pTAM) (o : Option TAR) :
    TarGhost.tamFold o l = o := by
  induction l generalizing o with
  | nil => rfl
  | cons x rest ih =>
    obtain ⟨i, v⟩ := x
    have hi : i ≠ pTAM := h (i, v) (by simp)
    rw [TarGhost.tamFold, ih (fun kv hkv => h kv (by simp [hkv]))]
    simp [hi]

/-- with at most one Topic Alias Maximum property the model's fold (last non-zero value) and the
    ghost's `findProp` (first value) agree -/
theorem tamFold_unique (p : Pkt) (h : TamUnique p) (o : Option TAR) :
    TarGhost.tamFold o p.props =
      (if (Mon.findProp p pTAM).getD 0 ≠ 0 then some { max := (Mon.findProp p pTAM).getD 0 } else o) := by
  unfold TamUnique at h
  unfold Mon.findProp
  generalize p.props = l at h
  induction l generalizing o with
  | nil => simp [TarGhost.tamFold]
  | cons x rest ih =>
    obtain ⟨i, v⟩ := x
    by_cases hi : i = pTAM
    · subst hi
      have hr : ∀ kv ∈ rest, kv.1 ≠ pTAM := by
        intro kv hkv hk
        have : kv ∈ rest.filter (fun kv => kv.1 = pTAM) := by simp [hkv, hk]
        simp only [List.filter_cons, decide_true, if_true, List.length_cons] at h
        have h0 : (rest.filter (fun kv => decide (kv.1 = pTAM))).length = 0 := by omega
        rw [List.length_eq_zero_iff.mp h0] at this
        cases this
      rw [TarGhost.tamFold, tamFold_noTam rest hr]
      simp [List.find?]
    · rw [TarGhost.tamFold]
      simp only [hi, false_and, if_false]
      rw [ih]
      · simp [List.find?, hi]
      · simpa [List.filter_cons, hi] using h

theorem tamFold_cases (l : List (Nat × Nat)) (o : Option TAR) :
    TarGhost.tamFold o l = o ∨ ∃ v, TarGhost.tamFold o l = some { max := v } := by
  induction l generalizing o with
  | nil => exact .inl rfl
  | cons x rest ih =>
    obtain ⟨i, v⟩ := x
    rw [TarGhost.tamFold]
    split
    · rcases ih (some { max := v }) with h | ⟨w, h⟩
      · exact .inr ⟨v, h⟩
      · exact .inr ⟨w, h⟩
    · exact ih o

theorem TarFresh.agree {s : St} (h : TarFresh s.tar) (tbl : Mon.PeerTable) : TarAgree s tbl := by
  intro a t topic ht hl
  rw [h t ht] at hl; simp [lookup] at hl

theorem tarFresh_none : TarFresh none := by intro t h; cases h
theorem tarFresh_mk (v : Nat) : TarFresh (some { max := v }) := by intro t h; cases h; rfl

/-! ### the alias stage against the ghost's registration -/

/-- the model's receive table after the alias stage is contained in the ghost table after
    `inTblStep2`: with `TamAgree` the model registers a binding iff the ghost does (when the model has
    no table only the ghost registers: harmless) -/
theorem tarAgree_aliasTar {s s' : St} {tbl : Mon.PeerTable} {ownTam : Nat} (p : Pkt)
    (hs' : s'.tar = TarGhost.aliasTar s.tar p) (hagree : TarAgree s tbl) (htam : TamAgree s ownTam) :
    TarAgree s' (inTblStep2 ownTam tbl p) ∧ TamAgree s' ownTam := by
  rcases Option.eq_none_or_eq_some s.tar with ht | ⟨t, ht⟩
  · have : s'.tar = none := by rw [hs', ht]; simp [TarGhost.aliasTar]
    exact ⟨fun a t topic h _ => (by rw [this] at h; cases h), fun t h => (by rw [this] at h; cases h)⟩
  · have hmax := htam t ht
    rcases Option.eq_none_or_eq_some p.alias with ha | ⟨a, ha⟩
    · have e : s'.tar = s.tar := by rw [hs', ht]; simp [TarGhost.aliasTar, ha]
      have e2 : inTblStep2 ownTam tbl p = tbl := by simp [inTblStep2, ha]
      rw [e2]
      exact ⟨fun a t topic h => hagree a t topic (e ▸ h), fun t h => htam t (e ▸ h)⟩
    · by_cases hc : (!p.topic.isEmpty) = true ∧ 1 ≤ a ∧ a ≤ t.max
      · have e : s'.tar = some (t.insertOrUpdate p.topic a) := by
          rw [hs', ht]; simp only [TarGhost.aliasTar, ha]; rw [if_pos hc]
        have e2 : inTblStep2 ownTam tbl p = (a, p.topic) :: tbl.filter (fun kv => kv.1 ≠ a) := by
          simp only [inTblStep2, ha]; rw [if_pos (hmax ▸ hc)]
        rw [e2]
        constructor
        · intro k t' topic' h hl
          rw [e] at h; cases h
          rw [TAR.insertOrUpdate_lookup] at hl
          rw [peerLookup_cons_filter]
          split at hl
          · rename_i hk; simp [hk]; simpa using hl
          · rename_i hk; simp [hk]; exact hagree k t topic' ht hl
        · intro t' h; rw [e] at h; cases h; exact hmax
      · have e : s'.tar = s.tar := by
          rw [hs', ht]; simp only [TarGhost.aliasTar, ha]; rw [if_neg hc]
        have e2 : inTblStep2 ownTam tbl p = tbl := by
          simp only [inTblStep2, ha]; rw [if_neg (hmax ▸ hc)]
        rw [e2]
        exact ⟨fun a t topic h => hagree a t topic (e ▸ h), fun t h => htam t (e ▸ h)⟩

/-- **handler level**: `TarAgree` and `TamAgree` are kept by `process_recv_v5_0_publish`
    for EVERY parsed PUBLISH with the new ghost update — no "accepted or delivered" hypothesis
    (driver monitor `VIOL sig=C13 delivered_under_wrong_topic@recv.v5.publish`) -/
theorem C13_recv_ghost_step2 (c : C) (p : Pkt) (tbl : Mon.PeerTable) (ownTam : Nat)
    (hagree : TarAgree c.s tbl) (htam : TamAgree c.s ownTam) :
    TarAgree (prV5Publish c (.ok p)).s (inTblStep2 ownTam tbl p) ∧ TamAgree (prV5Publish c (.ok p)).s ownTam := by
  have h2 := TarGhost.k_prV5PublishAlias c p
  simp only [TarGhost.K, Prod.mk.injEq] at h2
  exact tarAgree_aliasTar p ((prV5Publish_tar c p).trans h2.1) hagree htam

/-! ### the oracle of the harness against the packet the handler gets -/

theorem pubIn_none_of_ver {s : St} (h : s.ver = 0 ∨ s.ver = 4) (op : Op) : TarGhost.pubIn s op = none := by
  cases op with
  | recv inp parse =>
    simp only [TarGhost.pubIn]
    split
    · unfold TarGhost.pubInFrame; rw [if_neg]; omega
    · rfl
  | _ => rfl

theorem pubIn_iff {s : St} {op : Op} (hv : s.ver = 5)
    (hparse : ∀ inp parse, op = .recv inp parse → ParseTG parse)
    (hsize : ∀ inp parse fh data, op = .recv inp parse → (Framing.feed s.pb inp).2.1 = some (.complete fh data) →
      fh / 16 = 3 → totalSize data.length ≤ s.mpsRecv) (p : Pkt) :
    TarGhost.pubIn s op = some p ↔ (recvParsed s op = some p ∧ p.ver = 5 ∧ p.kind = .publish) := by
  cases op with
  | recv inp parse =>
    have hp := hparse inp parse rfl
    have hsz := hsize inp parse
    simp only [TarGhost.pubIn, recvParsed]
    generalize (Framing.feed s.pb inp).2.1 = out at hsz ⊢
    cases out with
    | none => simp
    | some o =>
      cases o with
      | error => simp
      | complete fh data =>
        simp only []
        unfold TarGhost.pubInFrame
        dsimp only
        cases hx : parse s.ver fh data with
        | error e => simp [TarGhost.okOf]
        | ok q =>
          have hq := hp _ _ _ _ hx
          simp only [TarGhost.okOf, Option.some.injEq]
          constructor
          · intro h
            split at h
            · rename_i hc
              cases h
              refine ⟨rfl, by rw [hq.2, hv], ?_⟩
              exact (TarGhost.kind_of_nibble hq.1).2.2.1 hc.2.2.1
            · cases h
          · rintro ⟨rfl, h5, hk⟩
            have h3 : fh / 16 = 3 := by rw [← hq.1, hk]; rfl
            rw [if_pos ⟨hsz fh data rfl rfl h3, by omega, h3, by omega⟩]
  | _ => simp [TarGhost.pubIn, recvParsed]

theorem inTblNext_eq {s : St} {op : Op} (hv : s.ver = 5)
    (hparse : ∀ inp parse, op = .recv inp parse → ParseTG parse)
    (hsize : ∀ inp parse fh data, op = .recv inp parse → (Framing.feed s.pb inp).2.1 = some (.complete fh data) →
      fh / 16 = 3 → totalSize data.length ≤ s.mpsRecv)
    (evs : List Ev) (ownTam : Nat) (tbl : Mon.PeerTable) :
    inTblNext op (recvParsed s op) evs ownTam tbl =
      match TarGhost.pubIn s op with
      | some p => inTblStep2 ownTam (inTblReset op evs tbl) p
      | none => inTblReset op evs tbl := by
  have key := pubIn_iff hv hparse hsize
  cases hpi : TarGhost.pubIn s op with
  | none =>
    simp only []
    unfold inTblNext
    split
    · rename_i p hrp
      split
      · rename_i hc
        have := (key p).2 ⟨hrp, hc.1, hc.2⟩
        rw [hpi] at this; cases this
      · rfl
    · rfl
  | some p =>
    simp only []
    obtain ⟨h1, h2, h3⟩ := (key p).1 hpi
    cases op with
    | recv inp parse =>
      simp only [inTblNext, h1, h2, h3, and_self, if_true, ownTamReset]
    | _ => simp [TarGhost.pubIn] at hpi

/-! ### the ghost update computed from the `tg` events of the call -/

theorem ghost_of_tg_nil {op : Op} (hcl : op ≠ .closed) {evs : List Ev} (h : TarGhost.tg evs = [])
    (tbl : Mon.PeerTable) (ownTam : Nat) :
    inTblReset op evs tbl = tbl ∧ ownTamNext op evs ownTam = ownTam := by
  have h1 : deliveredStart evs = none := by rw [deliveredStart_tg, h]; rfl
  have h2 : ownTamStep ownTam evs = ownTam := by rw [ownTamStep_tg, h]; rfl
  cases op <;> first | exact absurd rfl hcl | exact ⟨by simp [inTblReset, h1], h2⟩

theorem ghost_of_tg_send {op : Op} (hcl : op ≠ .closed) {evs : List Ev} {p : Pkt} {r : Option Nat}
    (h : TarGhost.tg evs = [.send p r]) (hp : TarGhost.tgSend p = true) (tbl : Mon.PeerTable) (ownTam : Nat) :
    inTblReset op evs tbl = tbl ∧ ownTamNext op evs ownTam = (Mon.findProp p pTAM).getD 0 := by
  have h1 : deliveredStart evs = none := by rw [deliveredStart_tg, h]; rfl
  have hp' : p.ver = 5 ∧ (p.kind = Kind.connect ∨ (p.kind = Kind.connack ∧ p.rc = some 0)) := by
    simpa [TarGhost.tgSend] using hp
  have h2 : ∀ t, ownTamStep t evs = (Mon.findProp p pTAM).getD 0 := by
    intro t; rw [ownTamStep_tg, h]; simp only [ownTamStep, List.foldl_cons, List.foldl_nil]; rw [if_pos hp']
  cases op <;> first | exact absurd rfl hcl | exact ⟨by simp [inTblReset, h1], h2 _⟩

theorem ghost_of_tg_recv {op : Op} (hcl : op ≠ .closed) {evs : List Ev} {p : Pkt}
    (h : TarGhost.tg evs = [.recv p]) (hp : p.kind = Kind.connect ∨ (p.kind = Kind.connack ∧ p.rc = some 0))
    (tbl : Mon.PeerTable) (ownTam : Nat) :
    inTblReset op evs tbl = [] ∧ ownTamNext op evs ownTam = ownTam := by
  have h1 : deliveredStart evs = some p := by
    rw [deliveredStart_tg, h]; simp only [deliveredStart, List.findSome?]; rw [if_pos hp]
  have h2 : ownTamStep ownTam evs = ownTam := by rw [ownTamStep_tg, h]; rfl
  cases op <;> first | exact absurd rfl hcl | exact ⟨by simp [inTblReset, h1], h2⟩

theorem RecvGhostInv.of_tar_none {s : St} (h : s.tar = none) (hv : s.ver = 0 ∨ s.ver = 4 ∨ s.ver = 5)
    (tbl : Mon.PeerTable) (ownTam : Nat) : RecvGhostInv s tbl ownTam :=
  ⟨fun a t topic ht _ => (by rw [h] at ht; cases ht), fun t ht => (by rw [h] at ht; cases ht), by
    rcases hv with hv | hv | hv
    · exact .inr ⟨.inl hv, h⟩
    · exact .inr ⟨.inr hv, h⟩
    · exact .inl hv⟩

theorem verStep_ok {a b : Nat} (h : TarGhost.VerStep a b) (ha : a = 0 ∨ a = 4 ∨ a = 5) : b = 0 ∨ b = 4 ∨ b = 5 := by
  rcases h with h | ⟨h0, h | h⟩
  · rw [h]; exact ha
  · exact .inr (.inl h)
  · exact .inr (.inr h)

theorem VerTar.cases {s : St} (h : VerTar s) : s.ver = 0 ∨ s.ver = 4 ∨ s.ver = 5 := by
  rcases h with h | ⟨h | h, _⟩
  · exact .inr (.inr h)
  · exact .inl h
  · exact .inr (.inl h)

theorem sentOf_eq {op : Op} {p : Pkt} (h : TarGhost.sentOf op = some p) : op = .send p := by
  cases op <;> simp [TarGhost.sentOf] at h
  rw [h]

theorem mem_of_tg_eq {evs : List Ev} {e : Ev} (h : TarGhost.tg evs = [e]) : e ∈ evs := by
  have : e ∈ TarGhost.tg evs := by rw [h]; simp
  exact (List.mem_filter.mp this).1

/-- **the receiver-side ghost invariant is inductive** (driver monitor
    `VIOL sig=C13 delivered_under_wrong_topic@<site>`: the monitor compares every delivered alias-only
    PUBLISH with `inTbl0`; `C13_delivered_under_ghost_topic` needs `TarAgree` for exactly that table).
    For every configuration, state and operation satisfying the contract `RecvGhostOk`: the model's
    receive table stays contained in the driver's ghost table and its Topic Alias Maximum stays the
    ghost's `ownTam`, with both ghosts updated as the driver does from the events of the call —
    in particular for a PUBLISH that registers a binding and is then refused (Receive Maximum
    exceeded): the "accepted or delivered" hypothesis of `C13_recv_ghost_step` is gone. -/
theorem C13_recv_ghost_inv_step (cfg : Cfg) (s : St) (op : Op) (tbl : Mon.PeerTable) (ownTam : Nat)
    (hI : RecvGhostInv s tbl ownTam) (hok : RecvGhostOk cfg s op) :
    RecvGhostInv (step cfg s op).s
      (inTblNext op (recvParsed s op) (step cfg s op).ev ownTam tbl)
      (ownTamNext op (step cfg s op).ev ownTam) := by
  obtain ⟨hver, hres⟩ := TarGhost.step_out cfg s op
    (fun inp parse h v fh d p hp => ((hok.parse inp parse h) v fh d p hp).1) hok.store
  have hver' := verStep_ok hver hI.ver.cases
  by_cases hcl : op = .closed
  · subst hcl
    exact .of_tar_none (notifyClosed_tar_none _) hver' _ _
  by_cases hv : s.ver = 5
  · -- a v5.0 connection
    have hv' : (step cfg s op).s.ver = 5 := by
      rcases hver with h | ⟨h, _⟩
      · rw [h, hv]
      · omega
    rw [inTblNext_eq hv hok.parse hok.size]
    cases hpi : TarGhost.pubIn s op with
    | some p =>
      rw [hpi] at hres
      simp only [TarGhost.Res, TarGhost.Kt, Prod.mk.injEq] at hres
      obtain ⟨h1, _, _, h4⟩ := hres
      obtain ⟨g1, g2⟩ := ghost_of_tg_nil hcl (by simpa using h4) tbl ownTam
      simp only [g1, g2]
      obtain ⟨a1, a2⟩ := tarAgree_aliasTar (s := s) (s' := (step cfg s op).s) p h1 hI.agree hI.tam
      exact ⟨a1, a2, .inl hv'⟩
    | none =>
      rw [hpi] at hres
      simp only [TarGhost.Res] at hres ⊢
      cases hres with
      | keep h =>
        simp only [TarGhost.Kt, Prod.mk.injEq] at h
        obtain ⟨h1, _, _, h4⟩ := h
        obtain ⟨g1, g2⟩ := ghost_of_tg_nil hcl (by simpa using h4) tbl ownTam
        rw [g1, g2]
        exact ⟨fun a t topic ht => hI.agree a t topic (h1 ▸ ht), fun t ht => hI.tam t (h1 ▸ ht), .inl hv'⟩
      | closed h => exact .of_tar_none h.tar hver' _ _
      | connectSent p hsp hk hpv hs h =>
        have hop := sentOf_eq hsp
        have hp5 : p.ver = 5 := by rw [← hpv]; exact hv
        have htg : TarGhost.tgSend p = true := by simp [TarGhost.tgSend, hp5, hk]
        have hev : TarGhost.tg (step cfg s op).ev = [.send p none] := by simpa [htg] using h.ev
        obtain ⟨g1, g2⟩ := ghost_of_tg_send hcl hev htg tbl ownTam
        rw [g1, g2]
        have htar : (step cfg s op).s.tar = TarGhost.tamFold none p.props := by rw [h.tar]; simp [hp5]
        rw [tamFold_unique p (hok.tamUnique p hop (.inl hk))] at htar
        refine ⟨TarFresh.agree ?_ _, ?_, .inl hv'⟩
        · rw [htar]; split
          · exact tarFresh_mk _
          · exact tarFresh_none
        · intro t ht; rw [htar] at ht
          split at ht
          · cases ht; rfl
          · cases ht
      | connackSent p st' hsp hk hpv hs hst' h =>
        have hop := sentOf_eq hsp
        have hp5 : p.ver = 5 := by rw [← hpv]; exact hv
        by_cases hrc : p.rc = some 0
        · have htg : TarGhost.tgSend p = true := by simp [TarGhost.tgSend, hp5, hk, hrc]
          have hev : TarGhost.tg (step cfg s op).ev = [.send p none] := by simpa [htg] using h.ev
          obtain ⟨g1, g2⟩ := ghost_of_tg_send hcl hev htg tbl ownTam
          rw [g1, g2]
          have htar : (step cfg s op).s.tar = TarGhost.tamFold s.tar p.props := by rw [h.tar]; simp [hp5, hrc]
          rw [tamFold_unique p (hok.tamUnique p hop (.inr hk))] at htar
          by_cases hz : (Mon.findProp p pTAM).getD 0 ≠ 0
          · rw [if_pos hz] at htar
            refine ⟨TarFresh.agree (by rw [htar]; exact tarFresh_mk _) _, ?_, .inl hv'⟩
            intro t ht; rw [htar] at ht; cases ht; rfl
          · rw [if_neg hz] at htar
            have hnone : s.tar = none := by
              rcases hok.connackFresh p hop hk hrc hs with h | h
              · exact h
              · exact absurd h hz
            exact .of_tar_none (by rw [htar]; exact hnone) hver' _ _
        · have htg : TarGhost.tgSend p = false := by simp [TarGhost.tgSend, hrc, hk]
          have hev : TarGhost.tg (step cfg s op).ev = [] := by simpa [htg] using h.ev
          obtain ⟨g1, g2⟩ := ghost_of_tg_nil hcl hev tbl ownTam
          rw [g1, g2]
          have htar : (step cfg s op).s.tar = s.tar := by rw [h.tar]; simp [hrc]
          exact ⟨fun a t topic ht => hI.agree a t topic (htar ▸ ht), fun t ht => hI.tam t (htar ▸ ht), .inl hv'⟩
      | connectRecv p hr hk hs h => exact .of_tar_none h.tar hver' _ _
      | connectErr hr hs hm h =>
        obtain ⟨g1, g2⟩ := ghost_of_tg_nil hcl (by simpa using h.ev) tbl ownTam
        rw [g1, g2]
        exact ⟨fun a t topic ht => hI.agree a t topic (h.tar ▸ ht), fun t ht => hI.tam t (h.tar ▸ ht), .inl hv'⟩
      | connackRecv p hr hk hrc hs h =>
        have hev : TarGhost.tg (step cfg s op).ev = [.recv p] := by simpa using h.ev
        obtain ⟨g1, g2⟩ := ghost_of_tg_recv hcl hev (.inr ⟨hk, hrc⟩) tbl ownTam
        rw [g1, g2]
        have hfresh := hok.connackEmpty ⟨p, mem_of_tg_eq hev, hk, hrc⟩
        refine ⟨TarFresh.agree (by rw [h.tar]; exact hfresh) _, fun t ht => hI.tam t (h.tar ▸ ht), .inl hv'⟩
  · -- v3.1.1 or undetermined: there is no receive table, and none is created
    have hv04 : s.ver = 0 ∨ s.ver = 4 := by have := hI.ver.cases; omega
    have htn : s.tar = none := by
      rcases hI.ver with h | ⟨_, h⟩
      · exact absurd h hv
      · exact h
    rw [pubIn_none_of_ver hv04] at hres
    simp only [TarGhost.Res] at hres
    refine .of_tar_none ?_ hver' _ _
    cases hres with
    | keep h =>
      simp only [TarGhost.Kt, Prod.mk.injEq] at h
      rw [h.1]; exact htn
    | closed h => exact h.tar
    | connectSent p hsp hk hpv hs h =>
      have hp4 : p.ver = 4 := by
        have hpv' : s.ver = p.ver := hpv
        rcases hok.sendVer p (sentOf_eq hsp) with h | h
        · exact h
        · omega
      rw [h.tar]; simp [hp4]
    | connackSent p st' hsp hk hpv hs hst' h =>
      have hp4 : p.ver = 4 := by
        have hpv' : s.ver = p.ver := hpv
        rcases hok.sendVer p (sentOf_eq hsp) with h | h
        · exact h
        · omega
      rw [h.tar]; simp [hp4, htn]
    | connectRecv p hr hk hs h => exact h.tar
    | connectErr hr hs hm h => rw [h.tar]; exact htn
    | connackRecv p hr hk hrc hs h => rw [h.tar]; exact htn

/-- **the monitor's check, at the level of one call** (driver monitor
    `VIOL sig=C13 delivered_under_wrong_topic@recv.v5.publish`): under the ghost invariant and the
    contract, every alias-only PUBLISH a `recv` call delivers (`topic_name_extracted`) carries exactly
    the topic the driver's table `inTbl0 = inTblReset op evs tbl` binds its alias to.  `hx`: the L1
    parser never sets `topic_name_extracted` itself. -/
theorem C13_delivered_under_wrong_topic_never (cfg : Cfg) (s : St) (op : Op) (tbl : Mon.PeerTable) (ownTam : Nat)
    (hI : RecvGhostInv s tbl ownTam) (hok : RecvGhostOk cfg s op) (p : Pkt)
    (hp : recvParsed s op = some p) (h5 : p.ver = 5) (hk : p.kind = .publish) (hx : p.extracted = false) :
    ∀ q ∈ recvs (step cfg s op).ev, q.extracted = true →
      ∃ a, q.alias = some a ∧ Mon.peerLookup a (inTblReset op (step cfg s op).ev tbl) = some q.topic := by
  rcases hI.ver with hv | ⟨hv, htn⟩
  · have hpi := (pubIn_iff hv hok.parse hok.size p).2 ⟨hp, h5, hk⟩
    obtain ⟨pb, he⟩ := TarGhost.step_pubIn_eq cfg s op p hpi
    have hcl : op ≠ .closed := by intro h; subst h; simp [recvParsed] at hp
    have hres := (TarGhost.step_out cfg s op
      (fun inp parse h v fh d p hp => ((hok.parse inp parse h) v fh d p hp).1) hok.store).2
    rw [hpi] at hres
    simp only [TarGhost.Res, TarGhost.Kt, Prod.mk.injEq] at hres
    obtain ⟨g1, _⟩ := ghost_of_tg_nil hcl (by simpa using hres.2.2.2) tbl ownTam
    rw [g1, he]
    exact C13_delivered_under_ghost_topic { cfg := cfg, s := { s with pb := pb } } p tbl rfl hx
      (fun a t topic ht hl => hI.agree a t topic ht hl)
  · -- no v5.0 connection: the parsed packet of a `recv` has the connection's version
    exfalso
    cases op with
    | recv inp parse =>
      simp only [recvParsed] at hp
      split at hp
      · rename_i fh data _
        cases hq : parse s.ver fh data with
        | error e => rw [hq] at hp; simp [TarGhost.okOf] at hp
        | ok q =>
          rw [hq] at hp; simp only [TarGhost.okOf, Option.some.injEq] at hp; subst hp
          have := (hok.parse inp parse rfl _ _ _ _ hq).2
          omega
      · cases hp
    | _ => simp [recvParsed] at hp

/-! ### (c) a natural contract for "a successful CONNACK meets an empty receive table" -/

/-- while the connection is being established the receive table has no bindings, and it does not
    exist at all when the CONNECT was received (`isClient = false`) rather than sent -/
def ConnectingFresh (s : St) : Prop :=
  s.status = .connecting → TarFresh s.tar ∧ (s.isClient = false → s.tar = none)

/-- what a conformant peer and a sensible application guarantee; replaces `connackEmpty` and
    `connackFresh` -/
structure PeerOk (cfg : Cfg) (s : St) (op : Op) : Prop where
  /-- a CONNACK is sent in answer to a received CONNECT, not on top of a CONNECT we sent (`isClient` is
      set by `initConn`: true for a CONNECT sent, false for a CONNECT received; with role `server` it is
      never true) -/
  connackServer : ∀ p, op = .send p → p.kind = .connack → s.isClient = false
  /-- no PUBLISH arrives between the CONNECT and its CONNACK -/
  pubConn : ∀ p, recvParsed s op = some p → p.kind = .publish → s.status ≠ .connecting
  /-- a successful CONNACK is delivered only while a CONNECT is outstanding -/
  connackConn : (∃ p, Ev.recv p ∈ (step cfg s op).ev ∧ p.kind = .connack ∧ p.rc = some 0) → s.status = .connecting
  /-- a frame arriving on a disconnected connection meets a peer Maximum Packet Size that admits the
      5-byte error CONNACK (it is `noLimit` after `notify_closed`) -/
  connectFits : (∃ inp parse, op = .recv inp parse) → s.status = .disconnected → 5 ≤ s.mpsSend

theorem PeerOk.connackEmpty {cfg : Cfg} {s : St} {op : Op} (h : PeerOk cfg s op) (hf : ConnectingFresh s) :
    (∃ p, Ev.recv p ∈ (step cfg s op).ev ∧ p.kind = .connack ∧ p.rc = some 0) → TarFresh s.tar :=
  fun he => (hf (h.connackConn he)).1

theorem PeerOk.connackFresh {cfg : Cfg} {s : St} {op : Op} (h : PeerOk cfg s op) (hf : ConnectingFresh s) :
    ∀ p, op = .send p → p.kind = .connack → p.rc = some 0 → s.status = .connecting →
      s.tar = none ∨ (Mon.findProp p pTAM).getD 0 ≠ 0 :=
  fun p hop hk _ hs => .inl ((hf hs).2 (h.connackServer p hop hk))

/-- `ConnectingFresh` is inductive under the peer contract -/
theorem C13_connecting_fresh_step (cfg : Cfg) (s : St) (op : Op) (hv : VerTar s)
    (hparse : ∀ inp parse, op = .recv inp parse → ParseTG parse) (hstore : TarGhost.StoreTG s)
    (hsize : ∀ inp parse fh data, op = .recv inp parse → (Framing.feed s.pb inp).2.1 = some (.complete fh data) →
      fh / 16 = 3 → totalSize data.length ≤ s.mpsRecv)
    (hpeer : PeerOk cfg s op) (hf : ConnectingFresh s) : ConnectingFresh (step cfg s op).s := by
  have hres := (TarGhost.step_out cfg s op
    (fun inp parse h v fh d p hp => ((hparse inp parse h) v fh d p hp).1) hstore).2
  intro hst
  cases hpi : TarGhost.pubIn s op with
  | some p =>
    rw [hpi] at hres
    simp only [TarGhost.Res, TarGhost.Kt, Prod.mk.injEq] at hres
    have hv5 : s.ver = 5 := by
      rcases hv with h | ⟨h, _⟩
      · exact h
      · rw [pubIn_none_of_ver h] at hpi; cases hpi
    obtain ⟨h1, _, h3⟩ := (pubIn_iff hv5 hparse hsize p).1 hpi
    have := hpeer.pubConn p h1 h3
    exact absurd (hres.2.1 ▸ hst) this
  | none =>
    rw [hpi] at hres
    simp only [TarGhost.Res] at hres
    cases hres with
    | keep h =>
      simp only [TarGhost.Kt, Prod.mk.injEq] at h
      rw [h.1, h.2.2.1]; exact hf (h.2.1 ▸ hst)
    | closed h => rw [h.tar]; exact ⟨tarFresh_none, fun _ => rfl⟩
    | connectSent p hsp hk hpv hs h =>
      rw [h.tar, h.ic]
      refine ⟨?_, fun h => by cases h⟩
      split
      · exact tarFresh_none
      · rcases tamFold_cases p.props none with e | ⟨v, e⟩ <;> rw [e]
        · exact tarFresh_none
        · exact tarFresh_mk v
    | connackSent p st' hsp hk hpv hs hst' h => rw [h.st] at hst; exact absurd hst hst'
    | connectRecv p hr hk hs h => rw [h.tar]; exact ⟨tarFresh_none, fun _ => rfl⟩
    | connectErr hr hs hm h =>
      exfalso
      have hop : ∃ inp parse, op = .recv inp parse := by
        cases op with
        | recv inp parse => exact ⟨inp, parse, rfl⟩
        | _ => simp [TarGhost.isRecvOp] at hr
      have := hpeer.connectFits hop hs
      have hm' : s.mpsSend < 5 := hm
      omega
    | connackRecv p hr hk hrc hs h => rw [h.st] at hst; cases hst

/-- the contract with the state-dependent clauses in their natural form -/
structure RecvGhostPeerOk (cfg : Cfg) (s : St) (op : Op) : Prop extends RecvGhostBase s op, PeerOk cfg s op where
  /-- (d) `restore_packets` is given no v5.0 CONNECT / CONNACK (an export holds PUBLISH / PUBREL only) -/
  restore : TarGhost.RestoreTG op

/-- **the receiver-side ghost invariant with the natural peer contract** (driver monitor
    `VIOL sig=C13 delivered_under_wrong_topic@<site>`): `RecvGhostInv` together with "no bindings
    while connecting" and "no CONNECT / CONNACK in the store" is preserved by every call that respects
    `RecvGhostPeerOk` -/
theorem C13_recv_ghost_inv_step_peer (cfg : Cfg) (s : St) (op : Op) (tbl : Mon.PeerTable) (ownTam : Nat)
    (hI : RecvGhostInv s tbl ownTam) (hf : ConnectingFresh s) (hst : TarGhost.StoreTG s)
    (hok : RecvGhostPeerOk cfg s op) :
    RecvGhostInv (step cfg s op).s
      (inTblNext op (recvParsed s op) (step cfg s op).ev ownTam tbl)
      (ownTamNext op (step cfg s op).ev ownTam) ∧
    ConnectingFresh (step cfg s op).s ∧ TarGhost.StoreTG (step cfg s op).s :=
  ⟨C13_recv_ghost_inv_step cfg s op tbl ownTam hI
      { toRecvGhostBase := hok.toRecvGhostBase, store := hst, connackFresh := hok.toPeerOk.connackFresh hf,
        connackEmpty := hok.toPeerOk.connackEmpty hf },
   C13_connecting_fresh_step cfg s op hI.ver hok.parse hst hok.size hok.toPeerOk hf,
   TarGhost.storeTG_step cfg s op hok.restore hst⟩

/-- both ghosts along a history, updated as the driver does -/
def recvGhostRun (cfg : Cfg) : St → Mon.PeerTable → Nat → List Op → Mon.PeerTable × Nat
  | _, tbl, ownTam, [] => (tbl, ownTam)
  | s, tbl, ownTam, op :: ops =>
    recvGhostRun cfg (step cfg s op).s
      (inTblNext op (recvParsed s op) (step cfg s op).ev ownTam tbl)
      (ownTamNext op (step cfg s op).ev ownTam) ops

/-- every call of the sequence respects the contract in the state it is made in -/
def RecvLegalSeq (cfg : Cfg) : St → List Op → Prop
  | _, [] => True
  | s, op :: ops => RecvGhostPeerOk cfg s op ∧ RecvLegalSeq cfg (step cfg s op).s ops

theorem C13_recv_ghost_run_from (cfg : Cfg) (ops : List Op) : ∀ (s : St) (tbl : Mon.PeerTable) (ownTam : Nat),
    RecvGhostInv s tbl ownTam → ConnectingFresh s → TarGhost.StoreTG s → RecvLegalSeq cfg s ops →
    RecvGhostInv (run cfg s ops) (recvGhostRun cfg s tbl ownTam ops).1 (recvGhostRun cfg s tbl ownTam ops).2 ∧
      ConnectingFresh (run cfg s ops) ∧ TarGhost.StoreTG (run cfg s ops) := by
  induction ops with
  | nil => intro s tbl ownTam hI hf hst _; exact ⟨hI, hf, hst⟩
  | cons op ops ih =>
    intro s tbl ownTam hI hf hst hl
    obtain ⟨h1, h2, h3⟩ := C13_recv_ghost_inv_step_peer cfg s op tbl ownTam hI hf hst hl.1
    exact ih _ _ _ h1 h2 h3 hl.2

/-- **run-level corollary** (driver monitor `VIOL sig=C13 delivered_under_wrong_topic@<site>`): from a
    fresh connection object of version 0 (undetermined), 4 or 5, with the ghosts started as the driver
    starts them (`inTbl = []`, `ownTam = 0`), along every call sequence that respects the contract the
    model's receive table is contained in the ghost table and its maximum is the ghost's `ownTam` -/
theorem C13_recv_ghost_run (cfg : Cfg) (ver : Nat) (hv : ver = 0 ∨ ver = 4 ∨ ver = 5) (ops : List Op)
    (hl : RecvLegalSeq cfg (St.init cfg ver) ops) :
    RecvGhostInv (run cfg (St.init cfg ver) ops) (recvGhostRun cfg (St.init cfg ver) [] 0 ops).1
      (recvGhostRun cfg (St.init cfg ver) [] 0 ops).2 ∧
    ConnectingFresh (run cfg (St.init cfg ver) ops) :=
  have h := C13_recv_ghost_run_from cfg ops _ _ _ (.of_tar_none rfl hv _ _) (fun h => by simp [St.init] at h)
    (TarGhost.storeTG_init cfg ver) hl
  ⟨h.1, h.2.1⟩

instance (p : Pkt) : Decidable (TamUnique p) := by unfold TamUnique; infer_instance


/-! ## non-vacuity: concrete states and inputs satisfying the hypotheses -/
namespace C13Ex

def cfg : Cfg := { role := .client, pw := 2 }
def connect : Pkt := { ver := 5, kind := .connect, size := 15, props := [(pSEI, 60), (pTAM, 3)] }
def connack : Pkt := { ver := 5, kind := .connack, size := 8, rc := some 0, props := [(pTAM, 2), (pRM, 5)] }
def pubBind : Pkt := { ver := 5, kind := .publish, topic := [97], alias := some 1 }
def pubUse : Pkt := { ver := 5, kind := .publish, topic := [], alias := some 1 }
def pubStored : Pkt := { ver := 5, kind := .publish, topic := [], alias := some 1, qos := 1, pid := some 1 }
def pubAuto (t : Nat) : Pkt := { ver := 5, kind := .publish, topic := [t] }
/-- CONNECT, CONNACK(TAM=2), PUBLISH binding alias 1 to "a", a stored QoS 1 PUBLISH using it -/
def ops : List Op :=
  [.send connect, .recv [0x20, 0] (fun _ _ _ => .ok connack), .send pubBind, .acquire, .send pubStored,
   .setFlag .autoMap true]
def s1 : St := run cfg (St.init cfg 5) ops
def peer1 : Mon.PeerTable := [(1, [97])]

example : slookup s1 1 = some [97] ∧ s1.store.length = 1 ∧ s1.ver = 5 := by decide
theorem ghost1 : ghostRun cfg (St.init cfg 5) [] ops = some peer1 := by decide
theorem inv1 : AliasInv s1 peer1 := by
  obtain ⟨peer', h1, h2⟩ := C13_reachable cfg ops (by intro op hop; simp [ops] at hop; rcases hop with rfl | rfl | rfl | rfl | rfl | rfl <;> trivial)
  rw [ghost1] at h1; cases h1; exact h2

/-- `C13_alias_inv_step`, `C13_emitted_resolvable`, `C13_stored_has_no_alias`,
    `C13_tables_die_with_connection`: an established connection with a binding, a non-empty
    store, and an empty-topic PUBLISH that uses the binding -/
example : s1.ver = 5 ∧ AliasInv s1 peer1 ∧ RestoreLegal (.send pubUse) ∧
    pubs (step cfg s1 (.send pubUse)).ev = [pubUse] := ⟨by decide, inv1, trivial, by decide⟩
example : RestoreLegal (.restorePackets [{ pubStored with topic := [97], alias := none }]) := by
  simp only [RestoreLegal]; decide
/-- `C13_intended_topic`: auto-map rewrites topic "a" to alias 1 -/
example : (pubAuto 97).topic ≠ [] ∧ (pubAuto 97).alias = none ∧
    (autoAlias { cfg := cfg, s := s1 } (pubAuto 97)).2.topic = [] := by decide
/-- `C13_lru_rebinds_by_sending`: a new topic "b" gets the vacant alias 2 -/
example : (autoAlias { cfg := cfg, s := s1 } (pubAuto 98)).1.s.tas ≠ s1.tas := by decide
/-- `C13_manual_alias_registered_by_sending` -/
example : sendBlocked s1 { pubBind with alias := some 2 } = false ∧
    (psV5PublishAlias { cfg := cfg, s := s1 } { pubBind with alias := some 2 } none false).s.tas ≠ s1.tas := by
  decide
/-- `C13_retransmit_no_alias`: the stored packet has the full topic "a" and no alias -/
example : StoreInv s1 ∧ s1.store.map (fun e => (e.2.topic, e.2.alias)) = [([97], none)] := by
  refine ⟨inv1.store, by decide⟩
/-- `C13_recv_alias_spec` / `C13_recv_alias_invalid_effect`: a receive table with one binding -/
def cR : C := { cfg := cfg, s := { s1 with tar := some { max := 3, m := [(2, [120])] } } }
example : pubUse.topic = [] ∧ cR.s.tar = some { max := 3, m := [(2, [120])] } ∧
    lookup 2 ([(2, [120])] : List (Nat × List Nat)) = some [120] ∧ hasWildcard [120] = false ∧
    cR.s.status = .connected ∧ RecvAliasBad cR.s 4 := by
  refine ⟨rfl, rfl, rfl, rfl, by decide, ?_⟩
  intro t ht; cases ht; decide

/-- `C13_unbound_alias_not_accepted`: alias 2 was never bound on this connection; the call is refused -/
example : AliasInv s1 peer1 ∧ Mon.peerResolve peer1 { pubUse with alias := some 2 } = none ∧
    (step cfg s1 (.send { pubUse with alias := some 2 })).ev = [.error eNotAllowed] :=
  ⟨inv1, by decide, by decide⟩
/-- `C13_delivered_under_ghost_topic` / `C13_recv_ghost_step`: the ghost holds the binding 2 ↦ "x" the
    model's table has; the alias-only PUBLISH is delivered under "x" -/
def tblR : Mon.PeerTable := [(2, [120])]
theorem agreeR : TarAgree cR.s tblR := by
  intro a t topic ht hl
  have : cR.s.tar = some { max := 3, m := [(2, [120])] } := rfl
  rw [this] at ht; cases ht
  simp only [lookup] at hl
  split at hl
  · rename_i h; subst h; simpa [tblR, Mon.peerLookup] using hl
  · cases hl
example : cR.ev = [] ∧ ({ pubUse with alias := some 2 } : Pkt).extracted = false ∧
    recvs (prV5Publish cR (.ok { pubUse with alias := some 2 })).ev =
      [{ pubUse with alias := some 2, topic := [120], extracted := true }] := by decide
/-- the case `C13_recv_ghost_step` excludes is real (model = implementation): a PUBLISH that binds
    alias 1 and is then rejected with Receive Maximum exceeded leaves the binding in the receive
    table although nothing was delivered — the connection is being torn down (DISCONNECT 0x93 +
    close are requested), the table dies with `notify_closed` -/
def cRM : C := { cR with s := { cR.s with recvMax := some 1, publishRecv := [7] } }
def pubOver : Pkt := { ver := 5, kind := .publish, qos := 1, pid := some 9, topic := [98], alias := some 1 }
example : Mon.hasError (prV5Publish cRM (.ok pubOver)).ev = true ∧ recvs (prV5Publish cRM (.ok pubOver)).ev = [] ∧
    (prV5Publish cRM (.ok pubOver)).s.tar = some { max := 3, m := [(2, [120]), (1, [98])] } ∧
    (prV5Publish cRM (.ok pubOver)).s.status = .disconnected := by decide

end C13Ex

/-! ## non-vacuity and necessity of the hypotheses: receiver-side ghost, round 4 -/
namespace C13Ex2
open C13Ex

/-- `C13_recv_ghost_step2` on the example `C13_recv_ghost_step` had to exclude (`C13Ex.cRM`, `pubOver`):
    the PUBLISH binds alias 1, is refused for Receive Maximum, nothing is delivered — and the binding
    now IS in the ghost table, so `TarAgree` holds afterwards -/
example : TamAgree cRM.s 3 ∧ TarAgree cRM.s tblR ∧
    Mon.hasError (prV5Publish cRM (.ok pubOver)).ev = true ∧ recvs (prV5Publish cRM (.ok pubOver)).ev = [] ∧
    (prV5Publish cRM (.ok pubOver)).s.tar = some { max := 3, m := [(2, [120]), (1, [98])] } ∧
    inTblStep2 3 tblR pubOver = [(1, [98]), (2, [120])] ∧
    TarAgree (prV5Publish cRM (.ok pubOver)).s (inTblStep2 3 tblR pubOver) := by
  have h1 : TamAgree cRM.s 3 := by
    intro t ht
    have : cRM.s.tar = some { max := 3, m := [(2, [120])] } := rfl
    rw [this] at ht; cases ht; rfl
  have h2 : TarAgree cRM.s tblR := agreeR
  exact ⟨h1, h2, by decide, by decide, by decide, by decide, (C13_recv_ghost_step2 cRM pubOver tblR 3 h2 h1).1⟩

def cfgC : Cfg := { role := .client, pw := 2 }
def cfgA : Cfg := { role := .any, pw := 2 }
def connect3 : Pkt := { ver := 5, kind := .connect, size := 15, props := [(pTAM, 3)] }
def connack0 : Pkt := { ver := 5, kind := .connack, size := 8, rc := some 0 }
def bind (a : Nat) (t : List Nat) : Pkt := { ver := 5, kind := .publish, topic := t, alias := some a }
def use (a : Nat) : Pkt := { ver := 5, kind := .publish, topic := [], alias := some a }
def disconnect : Pkt := { ver := 5, kind := .disconnect, size := 2 }
/-- a `recv` of the two-byte frame `fh 0` for which the harness reports the parsed packet `p` (the
    driver's constant parser) -/
def rcv (fh : Nat) (p : Pkt) : Op := .recv [fh, 0] (fun _ _ _ => .ok p)
def gh (cfg : Cfg) (ver : Nat) (ops : List Op) := recvGhostRun cfg (St.init cfg ver) [] 0 ops
def st (cfg : Cfg) (ver : Nat) (ops : List Op) := run cfg (St.init cfg ver) ops

/-- a parser in the sense of `ParseTG`: answers `q` for a frame of `q`'s type and version -/
def pz (q : Pkt) : Nat → Nat → List Nat → Except Nat Pkt :=
  fun v fh _ => if q.kind.nibble = fh / 16 ∧ q.ver = v then .ok q else .error eMalformed
theorem pz_ok (q : Pkt) : ParseTG (pz q) := by
  intro v fh d p h
  simp only [pz] at h
  split at h
  · rename_i hc; cases h; exact hc
  · cases h
def rcvP (fh : Nat) (q : Pkt) : Op := .recv [fh, 0] (pz q)

/-! #### a legal history: CONNECT (Topic Alias Maximum 3), CONNACK, a PUBLISH binding alias 1 -/
def opsOk : List Op := [.send connect3, rcvP 0x20 connack0, rcvP 0x30 (bind 1 [97])]

theorem legal_send (cfg : Cfg) (s : St) (p : Pkt) (hv : p.ver = 4 ∨ p.ver = 5)
    (hu : TamUnique p) (hk : p.kind ≠ .connack)
    (hc : (∃ q, Ev.recv q ∈ (step cfg s (.send p)).ev ∧ q.kind = .connack ∧ q.rc = some 0) → s.status = .connecting) :
    RecvGhostPeerOk cfg s (.send p) where
  parse := by intro _ _ h; cases h
  restore := trivial
  sendVer := by intro q h; cases h; exact hv
  tamUnique := by intro q h _; cases h; exact hu
  size := by intro _ _ _ _ h; cases h
  connackServer := by intro q h hq; cases h; exact absurd hq hk
  pubConn := by intro q h; simp [recvParsed] at h
  connackConn := hc
  connectFits := by rintro ⟨_, _, h⟩; cases h

theorem legal_recv (cfg : Cfg) (s : St) (fh : Nat) (q : Pkt)
    (hf : (Framing.feed s.pb [fh, 0]).2.1 = some (.complete fh []))
    (hsz : totalSize 0 ≤ s.mpsRecv) (hp : q.kind = .publish → s.status ≠ .connecting)
    (hc : (∃ p, Ev.recv p ∈ (step cfg s (rcvP fh q)).ev ∧ p.kind = .connack ∧ p.rc = some 0) → s.status = .connecting)
    (hm : s.status = .disconnected → 5 ≤ s.mpsSend) :
    RecvGhostPeerOk cfg s (rcvP fh q) where
  parse := by intro _ _ h; cases h; exact pz_ok q
  restore := trivial
  sendVer := by intro _ h; cases h
  tamUnique := by intro _ h; cases h
  size := by
    intro inp parse fh' data h hf' _
    cases h
    rw [hf] at hf'; cases hf'; exact hsz
  connackServer := by intro _ h; cases h
  pubConn := by
    intro p h hk
    simp only [rcvP, recvParsed, hf, pz] at h
    split at h
    · simp only [TarGhost.okOf, Option.some.injEq] at h; subst h; exact hp hk
    · cases h
  connackConn := hc
  connectFits := fun _ => hm

theorem opsOk_legal : RecvLegalSeq cfgC (St.init cfgC 5) opsOk := by
  refine ⟨legal_send _ _ _ (.inr rfl) (by decide) (by decide) ?_, ?_, ?_, trivial⟩
  · rintro ⟨q, hq, _⟩
    have e : (step cfgC (St.init cfgC 5) (.send connect3)).ev = [.send connect3 none] := by decide
    rw [e] at hq; simp at hq
  · exact legal_recv _ _ _ _ (by decide) (by decide) (by decide) (fun _ => by decide)
      (fun h => absurd h (by decide))
  · refine legal_recv _ _ _ _ (by decide) (by decide) (fun _ => by decide) ?_ (fun h => absurd h (by decide))
    rintro ⟨q, hq, hk, _⟩
    have e : (step cfgC (step cfgC (step cfgC (St.init cfgC 5) (.send connect3)).s (rcvP 0x20 connack0)).s
        (rcvP 0x30 (bind 1 [97]))).ev = [.recv (bind 1 [97])] := by decide
    rw [e] at hq; simp at hq; subst hq; cases hk

/-- `C13_recv_ghost_run` on this history: the ghosts end as `([(1, "a")], 3)`, the model's table holds
    `1 ↦ "a"` with maximum 3 -/
example : recvGhostRun cfgC (St.init cfgC 5) [] 0 opsOk = ([(1, [97])], 3) ∧
    (run cfgC (St.init cfgC 5) opsOk).tar = some { max := 3, m := [(1, [97])] } ∧
    RecvGhostInv (run cfgC (St.init cfgC 5) opsOk) [(1, [97])] 3 := by
  have h := (C13_recv_ghost_run cfgC 5 (.inr (.inr rfl)) opsOk opsOk_legal).1
  have e : recvGhostRun cfgC (St.init cfgC 5) [] 0 opsOk = ([(1, [97])], 3) := by decide
  rw [e] at h
  exact ⟨e, by decide, h⟩

/-! #### every clause of the contract is needed (`decide`-checked on the model; the ghosts are computed
by `recvGhostRun`, i.e. exactly as the driver does) -/

/-- refutes `TarAgree` from one binding the model has and the ghost lacks / has differently -/
theorem not_tarAgree {s : St} {tbl : Mon.PeerTable} (a : Nat) (t : TAR) (topic : List Nat) (h1 : s.tar = some t)
    (h2 : lookup a t.m = some topic) (h3 : Mon.peerLookup a tbl ≠ some topic) : ¬ TarAgree s tbl :=
  fun h => h3 (h a t topic h1 h2)
theorem not_tamAgree {s : St} {ownTam : Nat} (t : TAR) (h1 : s.tar = some t) (h2 : t.max ≠ ownTam) :
    ¬ TamAgree s ownTam := fun h => h2 (h t h1)

/-- (a) `tamUnique`: a CONNECT with two Topic Alias Maximum properties — the implementation takes the
    last (5), the ghost the first (3): `TamAgree` fails; a PUBLISH binding alias 4 is then registered
    by the model only, and the alias-only PUBLISH that follows is delivered under a topic the ghost
    does not know (the driver would report `delivered_under_wrong_topic`) -/
def connect2 : Pkt := { connect3 with props := [(pTAM, 3), (pTAM, 5)] }
def opsA : List Op := [.send connect2, rcv 0x20 connack0, rcv 0x30 (bind 4 [97])]
example : ¬ TamUnique connect2 ∧ (st cfgC 5 [.send connect2]).tar = some { max := 5 } ∧
    gh cfgC 5 [.send connect2] = ([], 3) ∧ ¬ TamAgree (st cfgC 5 [.send connect2]) 3 ∧
    gh cfgC 5 opsA = ([], 3) ∧
    recvs (step cfgC (st cfgC 5 opsA) (rcv 0x30 (use 4))).ev = [{ use 4 with topic := [97], extracted := true }] ∧
    Mon.peerLookup 4 (gh cfgC 5 opsA).1 = none :=
  ⟨by decide, by decide, by decide, not_tamAgree { max := 5 } (by decide) (by decide), by decide, by decide, by decide⟩

/-- (b) the version: on an object of version 7 (`VerTar` fails) or with a "version 0" packet handed to
    `send` on an undetermined object (`sendVer` fails) the v5.0 CONNECT handler runs and creates the
    table, while the ghost looks at `p.ver = 5` only -/
example : ¬ VerTar (St.init cfgC 7) ∧ (st cfgC 7 [.send { connect3 with ver := 7 }]).tar = some { max := 3 } ∧
    gh cfgC 7 [.send { connect3 with ver := 7 }] = ([], 0) ∧
    (st cfgC 0 [.send { connect3 with ver := 0 }]).tar = some { max := 3 } ∧
    gh cfgC 0 [.send { connect3 with ver := 0 }] = ([], 0) :=
  ⟨by intro h; rcases h with h | ⟨h | h, _⟩ <;> revert h <;> decide, by decide, by decide, by decide, by decide⟩

/-- `connackFresh` / `connackServer`: with role `any`, a CONNACK without Topic Alias Maximum sent on top
    of a CONNECT we sent ourselves (`isClient = true`) leaves the CONNECT's table (maximum 3) in force;
    the ghost's `ownTam` becomes 0 -/
example : (st cfgA 5 [.send connect3]).tar ≠ none ∧ (st cfgA 5 [.send connect3]).isClient = true ∧
    (st cfgA 5 [.send connect3]).status = .connecting ∧ (Mon.findProp connack0 pTAM).getD 0 = 0 ∧
    (st cfgA 5 [.send connect3, .send connack0]).tar = some { max := 3 } ∧
    gh cfgA 5 [.send connect3, .send connack0] = ([], 0) ∧
    ¬ TamAgree (st cfgA 5 [.send connect3, .send connack0]) 0 :=
  ⟨by decide, by decide, by decide, by decide, by decide, by decide,
   not_tamAgree { max := 3 } (by decide) (by decide)⟩

/-- `size`: we announced Maximum Packet Size 4; a 5-byte PUBLISH re-binding alias 1 is refused before
    its handler runs (the model keeps `1 ↦ "a"`), the ghost registers `1 ↦ "b"`: `TarAgree` fails, and
    the next alias-only PUBLISH (still processed: the handler has no status check) is delivered under
    "a" while the ghost says "b" -/
def connectMps : Pkt := { connect3 with props := [(pTAM, 3), (pMPS, 4)] }
def opsSize : List Op := [.send connectMps, rcv 0x20 connack0, rcv 0x30 (bind 1 [97]),
  .recv [0x30, 3, 0, 0, 0] (fun _ _ _ => .ok (bind 1 [98]))]
example : totalSize 3 > (st cfgC 5 (opsSize.take 3)).mpsRecv ∧
    (st cfgC 5 opsSize).tar = some { max := 3, m := [(1, [97])] } ∧ gh cfgC 5 opsSize = ([(1, [98])], 3) ∧
    ¬ TarAgree (st cfgC 5 opsSize) (gh cfgC 5 opsSize).1 ∧
    recvs (step cfgC (st cfgC 5 opsSize) (rcv 0x30 (use 1))).ev = [{ use 1 with topic := [97], extracted := true }] :=
  ⟨by decide, by decide, by decide,
   not_tarAgree 1 { max := 3, m := [(1, [97])] } [97] (by decide) (by decide) (by decide), by decide⟩

/-- (c) `pubConn` — CONFIRMED: a client that has sent CONNECT (Topic Alias Maximum 3) processes a
    PUBLISH that arrives BEFORE the CONNACK (no status check in `process_recv_v5_0_publish`): it is
    delivered and binds alias 1; the CONNACK's delivery empties the ghost table but not the model's;
    the alias-only PUBLISH that follows is delivered under "a", which the ghost does not know -/
def opsC : List Op := [.send connect3, rcv 0x30 (bind 1 [97]), rcv 0x20 connack0]
example : (st cfgC 5 [.send connect3]).status = .connecting ∧
    recvs (step cfgC (st cfgC 5 [.send connect3]) (rcv 0x30 (bind 1 [97]))).ev = [bind 1 [97]] ∧
    (st cfgC 5 opsC).tar = some { max := 3, m := [(1, [97])] } ∧ gh cfgC 5 opsC = ([], 3) ∧
    ¬ TarAgree (st cfgC 5 opsC) (gh cfgC 5 opsC).1 ∧
    recvs (step cfgC (st cfgC 5 opsC) (rcv 0x30 (use 1))).ev = [{ use 1 with topic := [97], extracted := true }] ∧
    Mon.peerLookup 1 (gh cfgC 5 opsC).1 = none :=
  ⟨by decide, by decide, by decide, by decide,
   not_tarAgree 1 { max := 3, m := [(1, [97])] } [97] (by decide) (by decide) (by decide), by decide, by decide⟩

/-- (c) `connackConn`: a CONNACK that arrives after we sent DISCONNECT (status `disconnected`, no
    `notify_closed` yet) is accepted and delivered: the ghost table is emptied, the model's survives -/
def opsC2 : List Op := [.send connect3, rcv 0x20 connack0, rcv 0x30 (bind 1 [97]), .send disconnect, rcv 0x20 connack0]
example : (st cfgC 5 (opsC2.take 4)).status = .disconnected ∧ (st cfgC 5 opsC2).status = .connected ∧
    (st cfgC 5 opsC2).tar = some { max := 3, m := [(1, [97])] } ∧ gh cfgC 5 opsC2 = ([], 3) ∧
    ¬ TarAgree (st cfgC 5 opsC2) (gh cfgC 5 opsC2).1 :=
  ⟨by decide, by decide, by decide, by decide,
   not_tarAgree 1 { max := 3, m := [(1, [97])] } [97] (by decide) (by decide) (by decide)⟩

/-- (c) `connectFits`: role `any`; the peer's Maximum Packet Size 4 is still in force after our
    DISCONNECT; a CONNECT that does not parse moves the status to `connecting`, the 5-byte error
    CONNACK does not fit and nothing is reset; a CONNACK then arrives *while connecting* and meets the
    old connection's bindings -/
def connectIn : Pkt := { ver := 5, kind := .connect, size := 15, props := [(pMPS, 4)] }
def connackOut : Pkt := { ver := 5, kind := .connack, size := 4, rc := some 0, props := [(pTAM, 3)] }
def opsK2 : List Op := [rcv 0x10 connectIn, .send connackOut, rcv 0x30 (bind 1 [97]), .send disconnect,
  .recv [0x10, 0] (fun _ _ _ => .error eMalformed), rcv 0x20 connack0]
example : (st cfgA 5 (opsK2.take 4)).status = .disconnected ∧ (st cfgA 5 (opsK2.take 4)).mpsSend = 4 ∧
    (st cfgA 5 (opsK2.take 5)).status = .connecting ∧ ¬ ConnectingFresh (st cfgA 5 (opsK2.take 5)) ∧
    (st cfgA 5 opsK2).tar = some { max := 3, m := [(1, [97])] } ∧ gh cfgA 5 opsK2 = ([], 3) ∧
    ¬ TarAgree (st cfgA 5 opsK2) (gh cfgA 5 opsK2).1 :=
  ⟨by decide, by decide, by decide,
   fun h => by
     have := (h (by decide)).1 { max := 3, m := [(1, [97])] } (by decide)
     revert this; decide,
   by decide, by decide,
   not_tarAgree 1 { max := 3, m := [(1, [97])] } [97] (by decide) (by decide) (by decide)⟩

/-- (d) `parse`: a parser that labels the PUBLISH of a v5.0 connection as a v3.1.1 packet, or hands a
    "CONNECT" to the PUBLISH handler: the handler registers the binding, the ghost (which tests
    `p.ver = 5 ∧ p.kind = publish`) does not -/
def opsPV : List Op := [.send connect3, rcv 0x20 connack0, rcv 0x30 { bind 1 [97] with ver := 4 }]
def opsPK : List Op := [.send connect3, rcv 0x20 connack0, rcv 0x30 { bind 1 [97] with kind := .connect }]
example : (st cfgC 5 opsPV).tar = some { max := 3, m := [(1, [97])] } ∧ gh cfgC 5 opsPV = ([], 3) ∧
    (st cfgC 5 opsPK).tar = some { max := 3, m := [(1, [97])] } ∧ gh cfgC 5 opsPK = ([], 3) ∧
    ¬ TarAgree (st cfgC 5 opsPV) (gh cfgC 5 opsPV).1 :=
  ⟨by decide, by decide, by decide, by decide,
   not_tarAgree 1 { max := 3, m := [(1, [97])] } [97] (by decide) (by decide) (by decide)⟩

/-- (d) `restore` / `store`: a v5.0 CONNECT in the store (only `restore_packets` of a list no real
    export contains puts it there) is "resent" when the session is resumed; the ghost reads its Topic
    Alias Maximum 9 -/
def storedConnect : Pkt := { ver := 5, kind := .connect, size := 15, pid := some 5, props := [(pTAM, 9)] }
def opsStore : List Op := [.restorePackets [storedConnect], .send connect3, rcv 0x20 { connack0 with sp := true }]
example : ¬ TarGhost.RestoreTG (.restorePackets [storedConnect]) ∧ ¬ TarGhost.StoreTG (st cfgC 5 (opsStore.take 2)) ∧
    (st cfgC 5 opsStore).tar = some { max := 3 } ∧ gh cfgC 5 opsStore = ([], 9) ∧
    ¬ TamAgree (st cfgC 5 opsStore) 9 :=
  ⟨fun h => by
     have := h storedConnect (by simp)
     revert this; decide,
   fun h => by
     have := h (5, storedConnect) (by decide)
     revert this; decide,
   by decide, by decide, not_tamAgree { max := 3 } (by decide) (by decide)⟩

end C13Ex2

end MqttVerif.Conn
