import MqttVerif.Conn.Lemmas.Basic
/-!
# C14 — Maximum Packet Size is honoured in both directions (first instalment)
-/
set_option linter.unusedSimpArgs false
set_option linter.unusedVariables false
namespace MqttVerif.Conn
open MqttVerif

/-- every packet requested by `send_stored` fits the peer's limit; oversize entries are
    neither sent nor kept (induction over the store, any length) -/
theorem C14_sendStored_within_limit (c : C) (st : List (Nat × Pkt)) :
    (sendStoredLoop c st).1.s.mpsSend = c.s.mpsSend ∧ (sendStoredLoop c st).1.cfg = c.cfg ∧
    ∃ t, (sendStoredLoop c st).1.ev = c.ev ++ t ∧
      (∀ e ∈ t, ∀ p rel, e = .send p rel → p.sz c.cfg.pw ≤ c.s.mpsSend) ∧
      (∀ ip ∈ (sendStoredLoop c st).2, ip.2.sz c.cfg.pw ≤ c.s.mpsSend) := by
  induction st generalizing c with
  | nil => simp [sendStoredLoop]
  | cons ip rest ih =>
    obtain ⟨id, p⟩ := ip
    unfold sendStoredLoop
    by_cases hsz : p.sz c.cfg.pw > c.s.mpsSend
    · simp only [hsz, if_true]
      generalize hc0 : ({ c with s := { c.s with puback := del id c.s.puback, pubrec := del id c.s.pubrec, pubcomp := del id c.s.pubcomp } } : C) = c0
      have e1 : c0.s.mpsSend = c.s.mpsSend := by rw [← hc0]
      have e2 : c0.cfg = c.cfg := by rw [← hc0]
      have e3 : c0.ev = c.ev := by rw [← hc0]
      have hr : (releaseIfUsed c0 id).s.mpsSend = c0.s.mpsSend ∧ (releaseIfUsed c0 id).cfg = c0.cfg ∧
          ∃ t, (releaseIfUsed c0 id).ev = c0.ev ++ t ∧ ∀ e ∈ t, e = .released id := by
        unfold releaseIfUsed releaseId
        by_cases hu : isUsed c0.s id = true
        · simp only [hu, if_true]
          split <;> simp [C.setPanic]
        · simp [hu]
      obtain ⟨h1, h2, t1, ht1, hall⟩ := hr
      obtain ⟨i1, i2, t2, ht2, hs2, hk2⟩ := ih (releaseIfUsed c0 id)
      refine ⟨by rw [i1, h1, e1], by rw [i2, h2, e2], t1 ++ t2, by rw [ht2, ht1, e3, List.append_assoc], ?_, ?_⟩
      · intro e he p' rel hep
        rcases List.mem_append.1 he with h | h
        · have := hall e h; rw [this] at hep; cases hep
        · have := hs2 e h p' rel hep; rw [h1, h2, e1, e2] at this; exact this
      · intro ip hip; have := hk2 ip hip; rw [h1, h2, e1, e2] at this; exact this
    · simp only [hsz, if_false]
      -- the counting step changes only `sendCount` / `panic`
      generalize hc1 : (if c.s.sendMax.isSome = true then
          (fun c : C => { c with s := { c.s with sendCount := (c.s.sendCount + 1) % 65536 } })
            (if c.s.sendCount ≥ 65535 then c.setPanic "core.rs:send_stored:publish_send_count+=1" else c)
        else c) = c1
      have hc1' : c1.s.mpsSend = c.s.mpsSend ∧ c1.cfg = c.cfg ∧ c1.ev = c.ev := by
        subst hc1
        by_cases a : c.s.sendMax.isSome = true <;> by_cases b : c.s.sendCount ≥ 65535 <;>
          simp [a, b, C.setPanic]
      obtain ⟨g1, g2, g3⟩ := hc1'
      obtain ⟨i1, i2, t2, ht2, hs2, hk2⟩ := ih (c1.push (.send p none))
      simp only [push_s, push_cfg, push_ev] at i1 i2 ht2 hs2 hk2
      refine ⟨by rw [i1, g1], by rw [i2, g2], [.send p none] ++ t2, ?_, ?_, ?_⟩
      · rw [ht2, g3]; simp
      · intro e he p' rel hep
        rcases List.mem_append.1 he with h | h
        · simp at h; subst h; cases hep; omega
        · have := hs2 e h p' rel hep; rw [g1, g2] at this; exact this
      · intro ip hip
        rcases List.mem_cons.1 hip with h | h
        · subst h; simp; omega
        · have := hk2 ip h; rw [g1, g2] at this; exact this

/-- a v5.0 packet larger than the peer's limit is refused by the simple send paths: only an
    error event, nothing sent -/
theorem C14_oversize_refused_simple (c : C) (p : Pkt) (h : sizeOk c p = false) :
    (psV5Simple c p).ev = c.ev ++ [.error eTooLarge] ∧ (psV5Puback c p).ev = c.ev ++ [.error eTooLarge] ∧
    (psV5Pubrec c p).ev = c.ev ++ [.error eTooLarge] ∧ (psV5Auth c p).ev = c.ev ++ [.error eTooLarge] ∧
    (psV5Disconnect c p).ev = c.ev ++ [.error eTooLarge] ∧ (psV5Connack c p).ev = c.ev ++ [.error eTooLarge] ∧
    (psV5Connect c p).ev = c.ev ++ [.error eTooLarge] := by
  simp [psV5Simple, psV5Puback, psV5Pubrec, psV5Auth, psV5Disconnect, psV5Connack, psV5Connect, h]

example : ∃ c : C, sizeOk c (mkV5Disconnect 0x95) = false :=
  ⟨{ cfg := ⟨.server, 2⟩, s := { (St.init ⟨.server, 2⟩ 5) with mpsSend := 2 } }, by decide⟩

end MqttVerif.Conn
