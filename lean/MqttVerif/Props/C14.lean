import MqttVerif.Conn.Lemmas.Limit
/-!
# C14 — Maximum Packet Size is honoured in both directions

* `C14_emitted_v5_within_limit` — for EVERY configuration, state and API call: every **v5.0**
  packet in a `RequestSendPacket` event fits the peer's limit that is in force after the call
  (a received CONNECT / CONNACK sets the limit before anything is sent; `notify_closed` resets
  it and sends nothing).  Covers direct sends, automatic responses, stored retransmissions and
  alias-rewritten publishes.
* `C14_emitted_within_limit` — exactly the driver's monitor `Mon.sentSizesWithin` (every packet
  sent, of any version) on a v5.0 connection, for parsers that return packets of the version
  they were asked to parse; `C14_emitted_within_limit_full_false`: without the parser hypothesis
  the model sends an unchecked v3.1.1 PUBCOMP.
* `C14_limit_is_peers`, `C14_recv_oversize`, `C14_oversize_stored_*`.
-/
namespace MqttVerif.Conn
open MqttVerif

/-- C14 (1), unconditional form: every v5.0 packet requested for sending is within the limit. -/
theorem C14_emitted_v5_within_limit (cfg : Cfg) (s : St) (op : Op) :
    ∀ p r, Ev.send p r ∈ (step cfg s op).ev → p.ver = 5 → p.sz cfg.pw ≤ (step cfg s op).s.mpsSend := by
  intro p r hm hv
  have h := (step_WS (B := True) cfg s op (fun _ => trivial) (fun _ _ _ _ _ _ _ _ => trivial)).2 (EvAll_nil _)
  rcases h.h _ hm with h | h
  · exact h
  · exact absurd hv h.1

/-- the L1 parser returns a packet of the version it was asked to parse -/
def ParserKeepsVersion (op : Op) (v : Nat) : Prop :=
  ∀ inp parse, op = .recv inp parse → ∀ fh data p, parse v fh data = .ok p → p.ver = v

theorem sentSizesWithin_of_W {pw L : Nat} {l : List Ev} (h : EvAll (W False L pw) l) :
    Mon.sentSizesWithin pw L l = true := by
  simp only [Mon.sentSizesWithin, List.all_eq_true]
  intro e he
  have := h.h e he
  cases e <;> simp_all [W]

/-- C14 (1), the driver's monitor: on a v5.0 connection every packet handed to the application
    for sending fits the peer's Maximum Packet Size (limit after the call). -/
theorem C14_emitted_within_limit (cfg : Cfg) (s : St) (op : Op) (hv : s.ver = 5)
    (hp : ParserKeepsVersion op 5) :
    Mon.sentSizesWithin cfg.pw (step cfg s op).s.mpsSend (step cfg s op).ev = true := by
  refine sentSizesWithin_of_W ((step_WS (B := False) cfg s op (fun h => h hv) ?_).2 (EvAll_nil _))
  intro inp parse ho fh data p hpar hne
  exact hne (hp inp parse ho fh data p (hv ▸ hpar))

/-- the statement without the parser hypothesis -/
def C14_emitted_within_limit_full : Prop :=
  ∀ (cfg : Cfg) (s : St) (op : Op), s.ver = 5 →
    Mon.sentSizesWithin cfg.pw (step cfg s op).s.mpsSend (step cfg s op).ev = true

namespace C14ex
def cfg : Cfg := { role := .server, pw := 2 }
/-- established v5.0 connection, peer limit 3, automatic responses on -/
def s3 : St := { St.init cfg 5 with status := .connected, mpsSend := 3, autoPub := true }
/-- a parser that answers a v3.1.1 PUBREL although version 5 was requested -/
def badParse : Nat → Nat → List Nat → Except Nat Pkt := fun _ _ _ => .ok { ver := 4, kind := .pubrel, pid := some 1 }
def goodParse : Nat → Nat → List Nat → Except Nat Pkt := fun v _ _ => .ok { ver := v, kind := .pubrel, pid := some 1 }
def pubrelFrame : List Nat := [0x62, 2, 0, 1]

example : (step cfg s3 (.recv pubrelFrame badParse)).ev =
    [.send (mkAck cfg 4 .pubcomp 1) none, .recv { ver := 4, kind := .pubrel, pid := some 1 }] := by decide
/-- with a version-preserving parser the 5-byte PUBCOMP is refused (limit 3) -/
example : (step cfg s3 (.recv pubrelFrame goodParse)).ev =
    [.error eTooLarge, .recv { ver := 5, kind := .pubrel, pid := some 1 }] := by decide
example : s3.ver = 5 ∧ ParserKeepsVersion (.recv pubrelFrame goodParse) 5 := by
  refine ⟨rfl, ?_⟩
  intro inp parse ho fh data p hp
  cases ho
  simp only [goodParse, Except.ok.injEq] at hp
  rw [← hp]
end C14ex

theorem C14_emitted_within_limit_full_false : ¬ C14_emitted_within_limit_full := by
  intro h
  exact absurd (h C14ex.cfg C14ex.s3 (.recv C14ex.pubrelFrame C14ex.badParse) rfl) (by decide)


/-! ## (4) the limit is the peer's -/

/-- C14 (4): `mpsSend` is written only by `notify_closed` (reset to "no limit") and by a received
    CONNECT / a received CONNACK with reason code 0 (value of the last property 39, if any). -/
theorem C14_limit_is_peers (cfg : Cfg) (s : St) (op : Op) :
    (step cfg s op).s.mpsSend = s.mpsSend ∨
    (op = .closed ∧ (step cfg s op).s.mpsSend = noLimit) ∨
    (∃ inp parse fh data v p, op = .recv inp parse ∧
      (Framing.feed s.pb inp).2.1 = some (.complete fh data) ∧ parse v fh data = .ok p ∧
      (fh / 16 = 1 ∨ (fh / 16 = 2 ∧ p.rc = some 0)) ∧
      (step cfg s op).s.mpsSend = mpsOf p.props s.mpsSend) := by
  cases op with
  | send p => exact .inl (send_mps _ _)
  | recv inp parse =>
    rcases recv_limit { cfg := cfg, s := s } inp parse with h | ⟨fh, data, v, hf, h | ⟨p, hp, ht, hm⟩⟩
    · exact .inl h
    · exact .inl h
    · exact .inr (.inr ⟨inp, parse, fh, data, v, p, rfl, hf, hp, ht, hm⟩)
  | timer k => exact .inl (notifyTimerFired_fr _ k).2
  | closed => exact .inr (.inl ⟨rfl, notifyClosed_mps _⟩)
  | setInterval d => exact .inl (setPingreqSendInterval_mps _ _)
  | setFlag f b => exact .inl (setFlag_mps s f b)
  | setRespTimeout ms => exact .inl rfl
  | acquire => exact .inl rfl
  | register id => exact .inl rfl
  | release id => exact .inl (releasePacketId_fr _ _).2
  | erase id => exact .inl (eraseStoredPublish_mps _ _)
  | restoreHandled ids => exact .inl rfl
  | restorePackets ps => exact .inl (restorePackets_fr _ _).2

/-! ## (3) a received packet larger than the announced maximum -/

theorem cancelTimers_tail (c : C) :
    ∃ t, (cancelTimers c).ev = c.ev ++ t ∧ ∀ e ∈ t, ∃ k, e = Ev.timerCancel k := by
  cases h1 : c.s.sendSet <;> cases h2 : c.s.recvSet <;> cases h3 : c.s.respSet <;>
    simp [cancelTimers, h1, h2, h3]

/-- C14 (3): a complete frame larger than the locally announced maximum is not delivered (no
    `NotifyPacketReceived` is added); when connected and the DISCONNECT fits the peer's limit the
    call appends: timer cancels, DISCONNECT 0x95 (Packet too large), close, error. -/
theorem C14_recv_oversize (c : C) (fh : Nat) (data : List Nat) (parse : Nat → Except Nat Pkt)
    (hbig : totalSize data.length > c.s.mpsRecv) :
    (∀ p, Ev.recv p ∈ (processRecvPacket c fh data parse).ev → Ev.recv p ∈ c.ev) ∧
    (c.s.status = .connected → sizeOk c (mkV5Disconnect 0x95) = true →
      ∃ t, (∀ e ∈ t, ∃ k, e = Ev.timerCancel k) ∧
        (processRecvPacket c fh data parse).ev =
          c.ev ++ t ++ [.send (mkV5Disconnect 0x95) none, .close, .error 0x95]) := by
  have hE : eTooLarge = 0x95 := rfl
  by_cases hc : c.s.status = .connected <;> by_cases hz : sizeOk c (mkV5Disconnect 0x95) = true
  · obtain ⟨t, ht, htc⟩ := cancelTimers_tail { c with s := { c.s with status := .disconnected } }
    have hev : (processRecvPacket c fh data parse).ev =
        c.ev ++ t ++ [.send (mkV5Disconnect 0x95) none, .close, .error 0x95] := by
      simp [processRecvPacket, hbig, v5DisconnectOrClose, psV5Disconnect, hc, hz, hE, ht]
    refine ⟨fun p hp => ?_, fun _ _ => ⟨t, htc, hev⟩⟩
    rw [hev, List.mem_append, List.mem_append] at hp
    rcases hp with (hp | hp) | hp
    · exact hp
    · obtain ⟨k, hk⟩ := htc _ hp
      exact absurd hk (by simp)
    · exact absurd hp (by simp)
  · obtain ⟨t, ht, htc⟩ := cancelTimers_tail { c with s := { c.s with status := .disconnected } }
    refine ⟨fun p hp => ?_, fun _ h => absurd h hz⟩
    simp [processRecvPacket, hbig, v5DisconnectOrClose, hc, hz, hE, ht] at hp
    rcases hp with hp | hp
    · exact hp
    · obtain ⟨k, hk⟩ := htc _ hp
      exact absurd hk (by simp)
  · refine ⟨fun p hp => ?_, fun h => absurd h hc⟩
    simpa [processRecvPacket, hbig, v5DisconnectOrClose, psV5Disconnect, hc, hz, hE] using hp
  · refine ⟨fun p hp => ?_, fun h => absurd h hc⟩
    simpa [processRecvPacket, hbig, v5DisconnectOrClose, psV5Disconnect, hc, hz, hE] using hp


/-- **the receiver-side size monitor is a theorem of the model** (driver monitor
    `VIOL sig=C14 oversize_delivered@<site>`): a `recv` call that completes a frame whose total
    size exceeds the Maximum Packet Size we announced on this connection (`mpsRecv`: written by the
    Maximum Packet Size property of the CONNECT / successful CONNACK we sent —
    `C14_announced_by_connect` / `_connack` — and reset to "no limit" by `notify_closed`,
    `C14_closed_resets_announced`) produces no `NotifyPacketReceived` at all.  Every
    configuration, state, input and parser. -/
theorem C14_oversize_not_delivered (cfg : Cfg) (s : St) (inp : List Nat)
    (parse : Nat → Nat → List Nat → Except Nat Pkt) (pb' : Framing.PB) (fh : Nat) (data rest : List Nat)
    (hf : Framing.feed s.pb inp = (pb', some (.complete fh data), rest))
    (hbig : totalSize data.length > s.mpsRecv) :
    ∀ p, Ev.recv p ∉ (step cfg s (.recv inp parse)).ev := by
  intro p hm
  have e : step cfg s (.recv inp parse) =
      processRecvPacket { cfg := cfg, s := { s with pb := pb' } } fh data (fun v => parse v fh data) := by
    simp only [step, recv, hf]
  rw [e] at hm
  have := (C14_recv_oversize { cfg := cfg, s := { s with pb := pb' } } fh data (fun v => parse v fh data) hbig).1 p hm
  simp at this

/-- in the monitor's own words: `deliveredAny` is false -/
theorem C14_monitor_oversize_delivered_sound (cfg : Cfg) (s : St) (inp : List Nat)
    (parse : Nat → Nat → List Nat → Except Nat Pkt) (pb' : Framing.PB) (fh : Nat) (data rest : List Nat)
    (hf : Framing.feed s.pb inp = (pb', some (.complete fh data), rest))
    (hbig : totalSize data.length > s.mpsRecv) :
    ((step cfg s (.recv inp parse)).ev.any fun e => match e with | .recv _ => true | _ => false) = false := by
  rw [Bool.eq_false_iff]
  intro h
  simp only [List.any_eq_true] at h
  obtain ⟨e, he, hb⟩ := h
  cases e with
  | recv p => exact C14_oversize_not_delivered cfg s inp parse pb' fh data rest hf hbig p he
  | _ => simp at hb

theorem connectSendProp_mpsRecv (c : C) (id v) :
    (connectSendProp c id v).s.mpsRecv = if id = pMPS then v else c.s.mpsRecv := by
  unfold connectSendProp
  (repeat' split) <;> simp_all [pTAM, pRM, pMPS, pSEI]

theorem connackSendProp_mpsRecv (c : C) (id v) :
    (connackSendProp c id v).s.mpsRecv = if id = pMPS then v else c.s.mpsRecv := by
  unfold connackSendProp
  (repeat' (first | split | (simp only []; split))) <;> simp_all [pTAM, pRM, pMPS, pSKA]

theorem propsFold_mpsRecv {f : C → Nat → Nat → C}
    (hf : ∀ c id v, (f c id v).s.mpsRecv = if id = pMPS then v else c.s.mpsRecv) (c : C) (l) :
    (propsFold f c l).s.mpsRecv = mpsOf l c.s.mpsRecv := by
  induction l generalizing c with
  | nil => rfl
  | cons x rest ih =>
    obtain ⟨id, v⟩ := x
    simp only [propsFold, mpsOf]
    rw [ih, hf]

/-- the value the monitor's ghost takes (`Mon.findProp p pMPS`) is the one the model stores when
    the packet carries the property at most once (as every real packet does) -/
theorem mpsOf_findProp {p : Pkt} {l d : Nat} (h : Mon.findProp p pMPS = some l)
    (huniq : ∀ x ∈ p.props, x.1 = pMPS → x.2 = l) : mpsOf p.props d = l := by
  have hmem : ∃ x ∈ p.props, x.1 = pMPS := by
    unfold Mon.findProp at h
    cases hf : p.props.find? (·.1 = pMPS) with
    | none => simp [hf] at h
    | some x => exact ⟨x, List.mem_of_find?_eq_some hf, by simpa using List.find?_some hf⟩
  clear h
  generalize p.props = ps at hmem huniq
  induction ps generalizing d with
  | nil => simp at hmem
  | cons y rest ih =>
    obtain ⟨i, v⟩ := y
    simp only [mpsOf]
    by_cases hr : ∃ x ∈ rest, x.1 = pMPS
    · exact ih hr (fun x hx => huniq x (List.mem_cons_of_mem _ hx))
    · have hi : i = pMPS := by
        obtain ⟨x, hx, hx1⟩ := hmem
        rcases List.mem_cons.1 hx with rfl | hx'
        · exact hx1
        · exact absurd ⟨x, hx', hx1⟩ hr
      have hv : v = l := huniq (i, v) (by simp) hi
      have hrest : ∀ d', mpsOf rest d' = d' := by
        intro d'
        clear ih huniq hmem
        induction rest generalizing d' with
        | nil => rfl
        | cons z r ih2 =>
          obtain ⟨j, w⟩ := z
          have hj : j ≠ pMPS := fun e => hr ⟨(j, w), by simp, e⟩
          simp only [mpsOf, hj, if_false]
          exact ih2 (fun ⟨x, hx, hx1⟩ => hr ⟨x, List.mem_cons_of_mem _ hx, hx1⟩) _
      rw [hrest, if_pos hi, hv]

/-- the limit announced by a v5.0 CONNECT accepted for sending is what `mpsRecv` holds afterwards -/
theorem C14_announced_by_connect (cfg : Cfg) (s : St) (p : Pkt) (hk : p.kind = .connect) (hv5 : p.ver = 5)
    (hv : s.ver = 5) (hr : cfg.role ≠ .server) (hst : s.status = .disconnected)
    (hsz : p.sz cfg.pw ≤ s.mpsSend) :
    (step cfg s (.send p)).s.mpsRecv = mpsOf p.props s.mpsRecv := by
  have hrole : roleMaySend cfg.role p = true := by cases h : cfg.role <;> simp_all [roleMaySend]
  have hs : sizeOk { cfg := cfg, s := s } p = true := by simp [sizeOk]; omega
  have h54 : ¬ (5 : Nat) = 4 := by decide
  simp only [step, send, hv, hv5, processSend, hk, hrole, h54, psV5Connect, hs, hst]
  simp only [ne_eq, not_true_eq_false, if_false, Bool.not_true, Bool.false_eq_true]
  have hpp : ∀ c : C, (sendPostProcess c).s.mpsRecv = c.s.mpsRecv := by
    intro c; rcases sendPostProcess_s_cases c with h | h <;> rw [h]
  rw [hpp]
  simp only [push_s]
  rw [propsFold_mpsRecv connectSendProp_mpsRecv]
  split <;> rfl

theorem releaseIfUsed_mpsRecv (c : C) (id : Nat) : (releaseIfUsed c id).s.mpsRecv = c.s.mpsRecv := by
  unfold releaseIfUsed releaseId
  (repeat' (first | split | (simp only []; split))) <;> rfl
theorem releaseAll_mpsRecv (l : List Nat) : ∀ c : C, (releaseAll c l).s.mpsRecv = c.s.mpsRecv := by
  induction l with
  | nil => intro c; rfl
  | cons x rest ih => intro c; rw [releaseAll, ih, releaseIfUsed_mpsRecv]
theorem cancelTimers_mpsRecv (c : C) : (cancelTimers c).s.mpsRecv = c.s.mpsRecv := by
  cases h1 : c.s.sendSet <;> cases h2 : c.s.recvSet <;> cases h3 : c.s.respSet <;>
    simp [cancelTimers, h1, h2, h3]

/-- `notify_closed` forgets the announced limit: the monitor's ghost is reset as well -/
theorem C14_closed_resets_announced (cfg : Cfg) (s : St) : (step cfg s .closed).s.mpsRecv = noLimit := by
  show (notifyClosed _).s.mpsRecv = noLimit
  unfold notifyClosed
  simp only [cancelTimers_mpsRecv]
  split <;> simp [releaseAll_mpsRecv]

/-- the hypotheses of `C14_oversize_not_delivered`: we announced Maximum Packet Size 10, a 14-byte
    PUBLISH frame arrives in one piece (and the announced value is the one `mpsRecv` holds) -/
example :
    let cfg : Cfg := ⟨.client, 2⟩
    let connect : Pkt := { ver := 5, kind := .connect, size := 20, props := [(pMPS, 10)] }
    let s := (step cfg (St.init cfg 5) (.send connect)).s
    s.mpsRecv = 10 ∧ Mon.findProp connect pMPS = some 10 ∧
    Framing.feed s.pb [0x30, 12, 0, 1, 116, 0, 1, 2, 3, 4, 5, 6, 7, 8] =
      ({}, some (.complete 0x30 [0, 1, 116, 0, 1, 2, 3, 4, 5, 6, 7, 8]), []) ∧
    totalSize [0, 1, 116, 0, 1, 2, 3, 4, 5, 6, 7, 8].length > s.mpsRecv := by decide

/-! ## (2) oversize stored packets -/

def fits (c : C) (x : Nat × Pkt) : Bool := decide (x.2.sz c.cfg.pw ≤ c.s.mpsSend)

theorem sendStoredLoop_store (l) (c : C) :
    (sendStoredLoop c l).2 = l.filter (fits c) := by
  induction l generalizing c with
  | nil => rfl
  | cons x rest ih =>
    obtain ⟨id, p⟩ := x
    unfold sendStoredLoop
    split
    · rename_i hz
      have hf : fits c (id, p) = false := by simp [fits]; omega
      rw [ih, List.filter_cons_of_neg (by simp [hf])]
      apply List.filter_congr
      intro x _
      simp [fits]
    · rename_i hz
      have hf : fits c (id, p) = true := by simp [fits]; omega
      simp only [ih, List.filter_cons_of_pos hf]
      congr 1
      apply List.filter_congr
      intro x _
      by_cases h1 : c.s.sendMax.isSome = true <;> by_cases h2 : c.s.sendCount ≥ 4294967295 <;>
        simp [fits, h1, h2]

/-- C14 (2a): after `send_stored` the store is exactly the entries that fit the peer's limit, in
    order — every oversize entry is removed. -/
theorem C14_oversize_stored_dropped (c : C) :
    (sendStored c).s.store = c.s.store.filter (fits c) := by
  rw [sendStored_eq]
  simp only [sendStoredLoop_store]
  apply List.filter_congr
  intro x _
  simp [fits]

/-- C14 (2b): `send_stored` requests sending only packets that fit: an oversize entry is not sent. -/
theorem C14_oversize_stored_not_sent (c : C) :
    ∀ q r, Ev.send q r ∈ (sendStored c).ev → Ev.send q r ∈ c.ev ∨ q.sz c.cfg.pw ≤ c.s.mpsSend := by
  let P : Ev → Prop := fun e => e ∈ c.ev ∨ (match e with | .send q _ => q.sz c.cfg.pw ≤ c.s.mpsSend | _ => True)
  have hP : Lax P := fun e he => by cases e <;> simp_all [Ev.passive, P]
  have h0 : EvAll P c.ev := ⟨fun e he => .inl he⟩
  have := sendStored_all hP c h0 (fun x _ hx => .inr hx)
  intro q r hm
  exact this.h _ hm

theorem sendStoredLoop_mono (l) (c : C) (e : Ev) (he : e ∈ c.ev) : e ∈ (sendStoredLoop c l).1.ev := by
  induction l generalizing c with
  | nil => exact he
  | cons x rest ih =>
    obtain ⟨id, p⟩ := x
    unfold sendStoredLoop
    split
    · refine ih _ ?_
      unfold releaseIfUsed; split <;> simp [he]
    · refine ih _ ?_
      by_cases h1 : c.s.sendMax.isSome = true <;> by_cases h2 : c.s.sendCount ≥ 4294967295 <;> simp [h1, h2, he]

/-- C14 (2c), partial: the oversize entry at the head of the store is dropped with its
    identifier released when in use (`NotifyPacketIdReleased` is emitted).  For an entry further
    down the store the same holds with "in use when the entry is reached"; relating that to the
    state before the call needs the allocator invariant and is left as `…_full`. -/
theorem C14_oversize_stored_released_partial (c : C) (id : Nat) (p : Pkt) (rest)
    (hst : c.s.store = (id, p) :: rest) (hz : p.sz c.cfg.pw > c.s.mpsSend) (hu : isUsed c.s id = true) :
    Ev.released id ∈ (sendStored c).ev := by
  rw [sendStored_eq, hst, sendStoredLoop_over _ id p rest (by simpa using hz)]
  refine sendStoredLoop_mono _ _ _ ?_
  have hu' : isUsed (dropPrep (resetCount c) id).s id = true := by
    have : (dropPrep (resetCount c) id).s.pidMan = c.s.pidMan := by
      unfold dropPrep resetCount; split <;> rfl
    simpa [isUsed, this] using hu
  simp [releaseIfUsed, hu']

def C14_oversize_stored_released_full : Prop :=
  ∀ (c : C) (id : Nat) (p : Pkt), (id, p) ∈ c.s.store → p.sz c.cfg.pw > c.s.mpsSend →
    isUsed c.s id = true → Ev.released id ∈ (sendStored c).ev

end MqttVerif.Conn
