import MqttVerif.Conn.Lemmas.PidsStep
/-!
# C08 (round 5) — a new session frees every identifier

Driver monitor `VIOL sig=C08 id_leaked_into_new_session@<site>`: on a call that starts a new
session (and reports no error), if afterwards the store and the five wait sets are empty then the
free pool must be the single interval `[1, 256^pw − 1]` (otherwise an identifier is in use that
nothing will ever release).  This file shows the MODEL can never trigger it: every call that starts
a new session ends with the allocator completely free, whatever else holds.

`r5_Cleared a s` ("nothing of the session is left", `a` = the allocator before): the allocator is
`Alloc.clear a`, the store, `pid_puback`, `pid_pubrec`, `pid_pubcomp` and `qos2_publish_handled`
are empty.

* `C08_clear_frees_every_id` — for **every** `c`: `r5_Cleared c.s.pidMan (clearStoreRelated c).s`,
  the pool is the single interval `[lowest, highest]`, no identifier is in use, `publish_send_count`
  is 0; `pid_suback` / `pid_unsuback` are **unchanged** (see the counter-example).
* `C08_cleared_full_range` — on an allocator that manages `[1, idMax]` (`PidWf`: true initially, kept
  by every call — `C08_r5_wf_reachable`) `r5_Cleared` gives pool `= [⟨1, 256^pw − 1⟩]`, the exact
  test of the monitor (`allFree`).
* `C08_r5_counterexample_clear_keeps_suback` — **"all five wait sets are empty after
  `clearStoreRelated`" is FALSE in the model**: `clearStoreRelated` does not touch `pid_suback` /
  `pid_unsuback`.  On a state reached through the API (SUBSCRIBE in flight, protocol error, then —
  without `notify_closed` — a CONNACK with session-present = false is accepted while disconnected:
  the known finding `witness_connack_while_disconnected` of Props/C08) the new session starts with
  `pid_suback = [1]` although identifier 1 is free.  The monitor does not alarm there (the pool *is*
  completely free), so this does not make it unsound; the true variant for the CONNACK handlers is
  "`pid_suback` / `pid_unsuback` are what they were" (below).
* `C08_new_session_frees_every_id_…` — the calls that start a new session, as written in the model,
  go through `clearStoreRelated` and nothing afterwards touches the session scope:
  - `…_psV3Connect`, `…_psV5Connect` (accepted CONNECT with clean start — `status = .disconnected`,
    for v5.0 within the size limit): `r5_Cleared` **and** `pid_suback = pid_unsuback = []`
    (`initConn` clears them) — all five wait sets empty, full strength;
  - `…_prV3Connect`, `…_prV5Connect` (CONNECT with clean start received while disconnected): the same;
  - `…_prV3Connack`, `…_prV5Connack` (received while not connected, parsed, return code 0,
    session present = false): `r5_Cleared`, `pid_suback` / `pid_unsuback` unchanged;
  - `…_psV3Connack`, `…_psV5Connack` (sent while connecting, return code 0, session present =
    false, v5.0 within the size limit): `r5_Cleared`, `pid_suback` / `pid_unsuback` unchanged.
* `C08_id_leaked_monitor_sound` — the monitor's test on a state that is `r5_Cleared` with `PidWf`
  before the call: `allFree` holds, the alarm condition is false.
-/
set_option linter.unusedVariables false
set_option linter.unusedSimpArgs false
namespace MqttVerif.Conn
open MqttVerif

/-- nothing of a session is left (`a`: the allocator before the call) -/
def r5_Cleared (a : Alloc.A) (s : St) : Prop :=
  s.pidMan = Alloc.clear a ∧ s.store = [] ∧ s.puback = [] ∧ s.pubrec = [] ∧ s.pubcomp = [] ∧ s.handled = []

/-- the session scope plus the two wait sets `initConn` clears -/
def r5_Sess (s : St) :
    Alloc.A × List (Nat × Pkt) × List Nat × List Nat × List Nat × List Nat × List Nat × List Nat :=
  (s.pidMan, s.store, s.puback, s.pubrec, s.pubcomp, s.handled, s.suback, s.unsuback)

theorem r5_Cleared.of_sess {a : Alloc.A} {s s' : St} (h : r5_Cleared a s) (e : r5_Sess s' = r5_Sess s) :
    r5_Cleared a s' ∧ s'.suback = s.suback ∧ s'.unsuback = s.unsuback := by
  simp only [r5_Sess, Prod.mk.injEq] at e
  obtain ⟨e1, e2, e3, e4, e5, e6, e7, e8⟩ := e
  obtain ⟨h1, h2, h3, h4, h5, h6⟩ := h
  exact ⟨⟨e1 ▸ h1, e2 ▸ h2, e3 ▸ h3, e4 ▸ h4, e5 ▸ h5, e6 ▸ h6⟩, e7, e8⟩

/-- **C08, `clearStoreRelated`** — the allocator is reset to one free interval spanning its whole
    range, no identifier is in use, store / QoS wait sets / handled set are empty, the send
    counter is 0; `pid_suback` and `pid_unsuback` are left alone. -/
theorem C08_clear_frees_every_id (c : C) :
    r5_Cleared c.s.pidMan (clearStoreRelated c).s ∧
    (clearStoreRelated c).s.pidMan.pool = [⟨c.s.pidMan.lowest, c.s.pidMan.highest⟩] ∧
    (∀ id, isUsed (clearStoreRelated c).s id = false) ∧
    (clearStoreRelated c).s.sendCount = 0 ∧
    (clearStoreRelated c).s.suback = c.s.suback ∧ (clearStoreRelated c).s.unsuback = c.s.unsuback ∧
    (clearStoreRelated c).ev = c.ev := by
  refine ⟨⟨rfl, rfl, rfl, rfl, rfl, rfl⟩, rfl, fun id => ?_, rfl, rfl, rfl, rfl⟩
  exact Alloc.clear_isUsed c.s.pidMan id

/-- what `r5_Cleared` says about the pool -/
theorem C08_cleared_pool {a : Alloc.A} {s : St} (h : r5_Cleared a s) :
    s.pidMan.pool = [⟨a.lowest, a.highest⟩] ∧ ∀ id, isUsed s id = false := by
  refine ⟨by rw [h.1]; rfl, fun id => ?_⟩
  simp only [isUsed, h.1]; exact Alloc.clear_isUsed a id

/-- on the allocator of a connection object the cleared pool is `[1, 256^pw − 1]` -/
theorem C08_cleared_full_range {cfg : Cfg} {s0 s : St} (w : PidWf cfg s0) (h : r5_Cleared s0.pidMan s) :
    s.pidMan.pool = [⟨1, 256 ^ cfg.pw - 1⟩] := by
  rw [(C08_cleared_pool h).1, w.1, w.2.1]; rfl

/-- `PidWf` on every state reached from a fresh object (u16 / u32 identifiers) -/
theorem C08_r5_wf_reachable {cfg : Cfg} (hpw : 1 ≤ cfg.pw) {ver : Nat} {s : St}
    (r : Reachable cfg ver s) : PidWf cfg s := by
  have h : 1 ≤ cfg.idMax := by
    have : 256 ^ 1 ≤ 256 ^ cfg.pw := Nat.pow_le_pow_right (by omega) hpw
    unfold Cfg.idMax; omega
  obtain ⟨ops, rfl⟩ := r
  have : ∀ (ops : List Op) (s : St), PidWf cfg s → PidWf cfg (run cfg s ops) := by
    intro ops
    induction ops with
    | nil => intro s w; exact w
    | cons op ops ih =>
      intro s w
      refine ih _ ?_
      have hw : Wf { cfg := cfg, s := s } := ⟨h, w⟩
      have := (step_wf hw op).2
      rwa [step_cfg hw op] at this
  exact this ops _ (Alloc.W_new h)

/-! ## frames of the session scope -/

@[simp] theorem r5_sess_push (c : C) (e : Ev) : r5_Sess (c.push e).s = r5_Sess c.s := rfl
@[simp] theorem r5_sess_sendPostProcess (c : C) : r5_Sess (sendPostProcess c).s = r5_Sess c.s := by
  unfold sendPostProcess
  split
  · extract_lets ms
    split <;> rfl
  · rfl
@[simp] theorem r5_sess_refreshPingreqRecv (c : C) : r5_Sess (refreshPingreqRecv c).s = r5_Sess c.s := by
  unfold refreshPingreqRecv; split <;> rfl
@[simp] theorem r5_sess_connectSendProp (c : C) (id v : Nat) :
    r5_Sess (connectSendProp c id v).s = r5_Sess c.s := by
  unfold connectSendProp; (repeat' split) <;> rfl
@[simp] theorem r5_sess_connectRecvProp (c : C) (id v : Nat) :
    r5_Sess (connectRecvProp c id v).s = r5_Sess c.s := by
  unfold connectRecvProp; (repeat' split) <;> rfl
@[simp] theorem r5_sess_connackSendProp (c : C) (id v : Nat) :
    r5_Sess (connackSendProp c id v).s = r5_Sess c.s := by
  unfold connackSendProp; (repeat' (first | split | (simp only []; split))) <;> rfl

theorem r5_sess_propsFold (f : C → Nat → Nat → C) (hf : ∀ c id v, r5_Sess (f c id v).s = r5_Sess c.s)
    (l : List (Nat × Nat)) : ∀ c, r5_Sess (propsFold f c l).s = r5_Sess c.s := by
  induction l with
  | nil => intro c; rfl
  | cons x rest ih => intro c; obtain ⟨i, v⟩ := x; rw [propsFold, ih, hf]

/-- the properties of a received CONNACK leave the allocator alone or clear it (Session Expiry
    Interval 0), and never touch `pid_suback` / `pid_unsuback` -/
theorem r5_connackRecvProp_pid (c : C) (id v : Nat) :
    ((connackRecvProp c id v).s.pidMan = c.s.pidMan ∨ (connackRecvProp c id v).s.pidMan = Alloc.clear c.s.pidMan) ∧
    (connackRecvProp c id v).s.suback = c.s.suback ∧ (connackRecvProp c id v).s.unsuback = c.s.unsuback := by
  unfold connackRecvProp
  (repeat' (first | split | (simp only []; split))) <;>
    first | exact ⟨.inl rfl, rfl, rfl⟩ | exact ⟨.inr rfl, rfl, rfl⟩

theorem r5_fold_connackRecvProp_pid (l : List (Nat × Nat)) : ∀ c : C,
    ((propsFold connackRecvProp c l).s.pidMan = c.s.pidMan ∨
      (propsFold connackRecvProp c l).s.pidMan = Alloc.clear c.s.pidMan) ∧
    (propsFold connackRecvProp c l).s.suback = c.s.suback ∧
    (propsFold connackRecvProp c l).s.unsuback = c.s.unsuback := by
  induction l with
  | nil => intro c; exact ⟨.inl rfl, rfl, rfl⟩
  | cons x rest ih =>
    intro c; obtain ⟨i, v⟩ := x
    rw [propsFold]
    obtain ⟨h1, h2, h3⟩ := ih (connackRecvProp c i v)
    obtain ⟨g1, g2, g3⟩ := r5_connackRecvProp_pid c i v
    refine ⟨?_, h2.trans g2, h3.trans g3⟩
    rcases h1 with h1 | h1 <;> rcases g1 with g1 | g1 <;> rw [h1, g1]
    · exact .inl rfl
    · exact .inr rfl
    · exact .inr rfl
    · exact .inr rfl

theorem r5_cleared_of_pid {a : Alloc.A} (c : C) (h : c.s.pidMan = a ∨ c.s.pidMan = Alloc.clear a) :
    r5_Cleared a (clearStoreRelated c).s := by
  refine ⟨?_, rfl, rfl, rfl, rfl, rfl⟩
  rcases h with h | h <;> simp [clearStoreRelated, h] <;> rfl

/-- the tail of the CONNECT-receiving handlers: `clearStoreRelated`, then steps that leave the
    session scope alone -/
theorem r5_connect_tail (a : Alloc.A) (X : C) (f : C → C) (hf : ∀ c, r5_Sess (f c).s = r5_Sess c.s)
    (h1 : X.s.pidMan = a) (h2 : X.s.suback = []) (h3 : X.s.unsuback = []) :
    r5_Cleared a (f (clearStoreRelated X)).s ∧ (f (clearStoreRelated X)).s.suback = [] ∧
    (f (clearStoreRelated X)).s.unsuback = [] := by
  obtain ⟨g1, g2, g3⟩ := (r5_cleared_of_pid (a := a) X (.inl h1)).of_sess (hf (clearStoreRelated X))
  exact ⟨g1, g2.trans h2, g3.trans h3⟩

/-! ## the calls that start a new session -/

/-- **C08** — an accepted v3.1.1 CONNECT with clean session: nothing of the session is left,
    all five wait sets are empty -/
theorem C08_new_session_frees_every_id_psV3Connect (c : C) (p : Pkt)
    (hs : c.s.status = .disconnected) (hc : p.clean = true) :
    r5_Cleared c.s.pidMan (psV3Connect c p).s ∧
    (psV3Connect c p).s.suback = [] ∧ (psV3Connect c p).s.unsuback = [] := by
  unfold psV3Connect
  rw [if_neg (by simp [hs])]
  simp only [hc, if_true]
  exact (C08_clear_frees_every_id (initConn c true)).1.of_sess (by rw [r5_sess_sendPostProcess]; rfl)

/-- **C08** — an accepted v5.0 CONNECT with clean start -/
theorem C08_new_session_frees_every_id_psV5Connect (c : C) (p : Pkt) (hz : sizeOk c p = true)
    (hs : c.s.status = .disconnected) (hc : p.clean = true) :
    r5_Cleared c.s.pidMan (psV5Connect c p).s ∧
    (psV5Connect c p).s.suback = [] ∧ (psV5Connect c p).s.unsuback = [] := by
  unfold psV5Connect
  rw [if_neg (by simp [hz]), if_neg (by simp [hs])]
  simp only [hc, if_true]
  refine (C08_clear_frees_every_id (initConn c true)).1.of_sess ?_
  rw [r5_sess_sendPostProcess, r5_sess_push, r5_sess_propsFold _ r5_sess_connectSendProp]; rfl

/-- **C08** — a v3.1.1 CONNECT with clean session received while disconnected -/
theorem C08_new_session_frees_every_id_prV3Connect (c : C) (p : Pkt)
    (hs : c.s.status = .disconnected) (hc : p.clean = true) :
    r5_Cleared c.s.pidMan (prV3Connect c (.ok p)).s ∧
    (prV3Connect c (.ok p)).s.suback = [] ∧ (prV3Connect c (.ok p)).s.unsuback = [] := by
  unfold prV3Connect
  rw [if_neg (by simp [hs])]
  simp only [hc, if_true]
  refine r5_connect_tail c.s.pidMan _ (fun c => (refreshPingreqRecv c).push (.recv p))
    (fun c => r5_sess_refreshPingreqRecv c) ?_ ?_ ?_ <;> (split <;> rfl)

/-- **C08** — a v5.0 CONNECT with clean start received while disconnected -/
theorem C08_new_session_frees_every_id_prV5Connect (c : C) (p : Pkt)
    (hs : c.s.status = .disconnected) (hc : p.clean = true) :
    r5_Cleared c.s.pidMan (prV5Connect c (.ok p)).s ∧
    (prV5Connect c (.ok p)).s.suback = [] ∧ (prV5Connect c (.ok p)).s.unsuback = [] := by
  unfold prV5Connect
  rw [if_neg (by simp [hs])]
  simp only [hc, if_true]
  refine r5_connect_tail c.s.pidMan _
    (fun c => (refreshPingreqRecv (propsFold connectRecvProp c p.props)).push (.recv p))
    (fun c => (r5_sess_refreshPingreqRecv _).trans (r5_sess_propsFold _ r5_sess_connectRecvProp _ _))
    ?_ ?_ ?_ <;> (split <;> rfl)

/-- **C08** — a v3.1.1 CONNACK (return code 0, session present = false) received while not
    connected -/
theorem C08_new_session_frees_every_id_prV3Connack (c : C) (p : Pkt)
    (hs : c.s.status ≠ .connected) (hrc : p.rc = some 0) (hsp : p.sp = false) :
    r5_Cleared c.s.pidMan (prV3Connack c (.ok p)).s ∧
    (prV3Connack c (.ok p)).s.suback = c.s.suback ∧ (prV3Connack c (.ok p)).s.unsuback = c.s.unsuback := by
  unfold prV3Connack
  rw [if_neg hs]
  simp only [hrc, hsp, if_true, Bool.false_eq_true, if_false]
  exact (r5_cleared_of_pid (a := c.s.pidMan) _ (.inl rfl)).of_sess rfl

/-- **C08** — a v5.0 CONNACK (reason code 0, session present = false) received while not
    connected, whatever its properties -/
theorem C08_new_session_frees_every_id_prV5Connack (c : C) (p : Pkt)
    (hs : c.s.status ≠ .connected) (hrc : p.rc = some 0) (hsp : p.sp = false) :
    r5_Cleared c.s.pidMan (prV5Connack c (.ok p)).s ∧
    (prV5Connack c (.ok p)).s.suback = c.s.suback ∧ (prV5Connack c (.ok p)).s.unsuback = c.s.unsuback := by
  unfold prV5Connack
  rw [if_neg hs]
  simp only [hrc, hsp, if_true, Bool.false_eq_true, if_false]
  obtain ⟨h1, h2, h3⟩ := r5_fold_connackRecvProp_pid p.props
    ({ c with s := { c.s with status := .connected } } : C)
  obtain ⟨g1, g2, g3⟩ := (r5_cleared_of_pid (a := c.s.pidMan) _ h1).of_sess
    (s' := ((clearStoreRelated (propsFold connackRecvProp
      ({ c with s := { c.s with status := .connected } } : C) p.props)).push (.recv p)).s) rfl
  exact ⟨g1, g2.trans h2, g3.trans h3⟩

/-- **C08** — a v3.1.1 CONNACK (return code 0, session present = false) sent while connecting -/
theorem C08_new_session_frees_every_id_psV3Connack (c : C) (p : Pkt)
    (hs : c.s.status = .connecting) (hrc : p.rc = some 0) (hsp : p.sp = false) :
    r5_Cleared c.s.pidMan (psV3Connack c p).s ∧
    (psV3Connack c p).s.suback = c.s.suback ∧ (psV3Connack c p).s.unsuback = c.s.unsuback := by
  unfold psV3Connack
  rw [if_neg (by simp [hs])]
  simp only [hrc, hsp, ne_eq, not_true_eq_false, if_false, Bool.false_eq_true]
  exact (r5_cleared_of_pid (a := c.s.pidMan) _ (.inl rfl)).of_sess (r5_sess_sendPostProcess _)

/-- **C08** — a v5.0 CONNACK (reason code 0, session present = false) sent while connecting -/
theorem C08_new_session_frees_every_id_psV5Connack (c : C) (p : Pkt) (hz : sizeOk c p = true)
    (hs : c.s.status = .connecting) (hrc : p.rc = some 0) (hsp : p.sp = false) :
    r5_Cleared c.s.pidMan (psV5Connack c p).s ∧
    (psV5Connack c p).s.suback = c.s.suback ∧ (psV5Connack c p).s.unsuback = c.s.unsuback := by
  unfold psV5Connack
  rw [if_neg (by simp [hz]), if_neg (by simp [hs])]
  simp only [hrc, hsp, if_true, ne_eq, not_true_eq_false, if_false, Bool.false_eq_true]
  have e := r5_sess_propsFold _ r5_sess_connackSendProp p.props c
  have hp : (propsFold connackSendProp c p.props).s.pidMan = c.s.pidMan := congrArg (·.1) e
  have h7 : (propsFold connackSendProp c p.props).s.suback = c.s.suback := congrArg (·.2.2.2.2.2.2.1) e
  have h8 : (propsFold connackSendProp c p.props).s.unsuback = c.s.unsuback := congrArg (·.2.2.2.2.2.2.2) e
  obtain ⟨g1, g2, g3⟩ := (r5_cleared_of_pid (a := c.s.pidMan)
    ({ (propsFold connackSendProp c p.props).push (.send p none) with
        s := { ((propsFold connackSendProp c p.props).push (.send p none)).s with status := .connected } } : C)
    (.inl hp)).of_sess (s' := (sendPostProcess (clearStoreRelated
      ({ (propsFold connackSendProp c p.props).push (.send p none) with
        s := { ((propsFold connackSendProp c p.props).push (.send p none)).s with status := .connected } } : C))).s)
    (r5_sess_sendPostProcess _)
  exact ⟨g1, g2.trans h7, g3.trans h8⟩

/-! ## the monitor -/

/-- the driver's test: the free list is the one interval `[1, idMax]` -/
def r5_allFree (cfg : Cfg) (after : List Alloc.Iv) : Bool :=
  match after with | [iv] => iv.lo = 1 ∧ iv.hi = 256 ^ cfg.pw - 1 | _ => false

/-- **C08 id_leaked_into_new_session** — whenever a call leaves the state `r5_Cleared` (every
    session-starting call does, above) the alarm condition `!allFree ∧ …` is false -/
theorem C08_id_leaked_monitor_sound {cfg : Cfg} {s0 s : St} (w : PidWf cfg s0)
    (h : r5_Cleared s0.pidMan s) : r5_allFree cfg s.pidMan.pool = true := by
  rw [C08_cleared_full_range w h]; simp [r5_allFree]

/-! ## the counter-example and non-vacuity: states reached by running the model from `St.init` -/
namespace C08R5Ex
def cfg : Cfg := { role := .client, pw := 2 }
def connect (clean : Bool) : Pkt := { ver := 5, kind := .connect, size := 20, clean := clean, props := [(pSEI, 60)] }
def connack (sp : Bool) : Pkt := { ver := 5, kind := .connack, size := 5, rc := some 0, sp := sp }
def sub : Pkt := { ver := 5, kind := .subscribe, size := 10, pid := some 1 }
def pub : Pkt := { ver := 5, kind := .publish, qos := 1, pid := some 2, topic := [97], payloadLen := 1 }
def parseOk (sp : Bool) : Nat → Nat → List Nat → Except Nat Pkt := fun _ _ _ => .ok (connack sp)
def parseBad : Nat → Nat → List Nat → Except Nat Pkt := fun _ _ _ => .error eMalformed

/-- connected client, SUBSCRIBE 1 and QoS 1 PUBLISH 2 in flight (2 is stored), then a malformed
    frame: DISCONNECT + close are requested, `status = disconnected`; `notify_closed` is not called -/
def sD : St := run cfg (St.init cfg 5)
  [.send (connect false), .recv [0x20, 0x03, 0x00, 0x00, 0x00] (parseOk false),
   .acquire, .send sub, .acquire, .send pub, .recv [0x40, 0x02, 0x00, 0x02] parseBad]

example : Reachable cfg 5 sD := ⟨_, rfl⟩
example : sD.status = .disconnected ∧ sD.suback = [1] ∧ sD.puback = [2] ∧ sD.store.length = 1 ∧
    isUsed sD 1 = true ∧ isUsed sD 2 = true ∧ sD.pidMan.pool = [⟨3, 65535⟩] := by decide

/-- **counter-example to "all five wait sets are empty after `clearStoreRelated`"**: on the
    reachable state `sD`, `clearStoreRelated` (and the session-starting call that runs it: a
    CONNACK with session present = false accepted while disconnected) frees every identifier and
    empties store and QoS wait sets, but `pid_suback` still holds identifier 1. -/
theorem C08_r5_counterexample_clear_keeps_suback :
    (clearStoreRelated { cfg := cfg, s := sD }).s.suback = [1] ∧
    (clearStoreRelated { cfg := cfg, s := sD }).s.pidMan.pool = [⟨1, 65535⟩] ∧
    (step cfg sD (.recv [0x20, 0x03, 0x00, 0x00, 0x00] (parseOk false))).ev = [.recv (connack false)] ∧
    (step cfg sD (.recv [0x20, 0x03, 0x00, 0x00, 0x00] (parseOk false))).s.suback = [1] ∧
    (step cfg sD (.recv [0x20, 0x03, 0x00, 0x00, 0x00] (parseOk false))).s.pidMan.pool = [⟨1, 65535⟩] ∧
    (step cfg sD (.recv [0x20, 0x03, 0x00, 0x00, 0x00] (parseOk false))).s.store = [] ∧
    (step cfg sD (.recv [0x20, 0x03, 0x00, 0x00, 0x00] (parseOk false))).s.puback = [] := by decide

/-- non-vacuity of the CONNECT theorem: after `notify_closed` the session is persistent (identifier
    2 and its stored packet survive); a CONNECT with clean start frees everything -/
def sC : St := run cfg sD [.closed]
example : sC.status = .disconnected ∧ isUsed sC 2 = true ∧ sC.store.length = 1 ∧ sC.puback = [2] := by decide
example : (step cfg sC (.send (connect true))).s.pidMan.pool = [⟨1, 65535⟩] ∧
    (step cfg sC (.send (connect true))).s.store = [] ∧ (step cfg sC (.send (connect true))).s.puback = [] := by
  decide
example : r5_Cleared sC.pidMan (psV5Connect { cfg := cfg, s := sC } (connect true)).s :=
  (C08_new_session_frees_every_id_psV5Connect { cfg := cfg, s := sC } (connect true)
    (by decide) (by decide) rfl).1
theorem r5_sC_reachable : Reachable cfg 5 sC :=
  ⟨[.send (connect false), .recv [0x20, 0x03, 0x00, 0x00, 0x00] (parseOk false),
    .acquire, .send sub, .acquire, .send pub, .recv [0x40, 0x02, 0x00, 0x02] parseBad, .closed], rfl⟩
example : r5_allFree cfg (psV5Connect { cfg := cfg, s := sC } (connect true)).s.pidMan.pool = true :=
  C08_id_leaked_monitor_sound (s0 := sC) (C08_r5_wf_reachable (by decide) r5_sC_reachable)
    (C08_new_session_frees_every_id_psV5Connect { cfg := cfg, s := sC } (connect true)
      (by decide) (by decide) rfl).1
/-- … and of the CONNACK theorem: reconnect without clean start, the server answers session
    present = false -/
def sR : St := run cfg sC [.send (connect false)]
example : sR.status = .connecting ∧ isUsed sR 2 = true ∧ sR.store.length = 1 := by decide
example : (step cfg sR (.recv [0x20, 0x03, 0x00, 0x00, 0x00] (parseOk false))).s.pidMan.pool = [⟨1, 65535⟩] ∧
    (step cfg sR (.recv [0x20, 0x03, 0x00, 0x00, 0x00] (parseOk false))).s.store = [] := by decide
end C08R5Ex

end MqttVerif.Conn
