import MqttVerif.Framing.Lemmas
/-!
# C09 — stream framing is independent of how the byte stream is chunked

Model: `Framing.feed` (the Rust loop, with the bulk payload copy).  Specification:
`Framing.runSpec`, one byte at a time.  All theorems are for **every** byte stream and
**every** partition into chunks; no bound on lengths.
-/
set_option linter.unusedSimpArgs false
set_option linter.unusedVariables false
namespace MqttVerif.Framing

/-- **C09 (a)** — one call of `feed` = run the byte-step specification up to the first
    output; in particular at most one result per call (the result type is an `Option`),
    and the unread input is a suffix of the input. -/
theorem C09_feed_is_bytewise (pb : PB) (inp : List Nat) (h : Inv pb) :
    feed pb inp = feedSpec pb inp ∧ ∃ consumed, inp = consumed ++ (feed pb inp).2.2 := by
  rw [feed_eq_spec pb inp h]
  exact ⟨rfl, (feedSpec_props pb inp h).2.1⟩

/-- calling `feed` until a receive buffer is exhausted yields exactly the specification's
    outputs for that buffer -/
theorem feedAll_eq_runSpec (fuel : Nat) (pb : PB) (inp : List Nat) (h : Inv pb)
    (hf : inp.length < fuel) : feedAll fuel pb inp = runSpec pb inp := by
  induction fuel generalizing pb inp with
  | zero => omega
  | succ fuel ih =>
    unfold feedAll
    by_cases he : inp = []
    · subst he; simp [runSpec]
    · simp only [he, if_false]
      rw [feed_eq_spec pb inp h]
      obtain ⟨a1, _, a3, a4, a5⟩ := feedSpec_props pb inp h
      cases hs : feedSpec pb inp with
      | mk pb' r =>
        obtain ⟨o, rest⟩ := r
        rw [hs] at a1 a3 a4 a5
        cases o with
        | none =>
          simp only at a4 ⊢
          exact (a4 trivial).2.symm
        | some o =>
          simp only at a3 a5 ⊢
          rw [a5 o rfl, ih pb' rest a1 (by have := a3 he; omega)]

theorem feedAll_inv (fuel : Nat) (pb : PB) (inp : List Nat) (h : Inv pb) (hf : inp.length < fuel) :
    Inv (feedAll fuel pb inp).1 := by
  rw [feedAll_eq_runSpec fuel pb inp h hf]
  induction inp generalizing pb with
  | nil => simpa [runSpec]
  | cons b rest ih =>
    simp only [runSpec]
    have hi := stepByte_inv pb b h
    cases hs : stepByte pb b with
    | mk pb' o =>
      rw [hs] at hi
      cases o <;> simp only <;> exact ih pb' hi (by simp at hf; omega)

/-- **C09 (b), chunk independence.**  Feeding a byte stream in any partition into chunks
    produces the same outputs, in the same order, and leaves the builder in the same state,
    as the byte-step specification run over the concatenation. -/
theorem C09_chunk_independent (pb : PB) (chunks : List (List Nat)) (h : Inv pb) :
    feedChunks pb chunks = runSpec pb chunks.flatten := by
  induction chunks generalizing pb with
  | nil => simp [feedChunks, runSpec]
  | cons c cs ih =>
    simp only [feedChunks, List.flatten_cons]
    have hi := feedAll_inv (c.length + 1) pb c h (by omega)
    rw [ih _ hi, feedAll_eq_runSpec _ pb c h (by omega), runSpec_append]

/-- corollary: two partitions of the same stream are indistinguishable — in particular any
    partition behaves like "one whole packet at a time" -/
theorem C09_any_two_partitions (pb : PB) (c1 c2 : List (List Nat)) (h : Inv pb)
    (he : c1.flatten = c2.flatten) : feedChunks pb c1 = feedChunks pb c2 := by
  rw [C09_chunk_independent pb c1 h, C09_chunk_independent pb c2 h, he]

/-- **C09 (c), over-long Remaining Length.**  A fourth length byte with the continuation bit
    set (i.e. a Remaining Length longer than four bytes): `feed` reports an error, has
    consumed exactly the bytes up to and including that byte, and the builder is back in its
    initial state, so framing resumes at the next byte. -/
theorem C09_long_length_resync (fh l1 l2 l3 l4 : Nat) (rest : List Nat)
    (h1 : l1 ≥ 128) (h2 : l2 ≥ 128) (h3 : l3 ≥ 128) (h4 : l4 ≥ 128) :
    feed PB.reset (fh :: l1 :: l2 :: l3 :: l4 :: rest) = (PB.reset, some .error, rest) ∧
    runSpec PB.reset (fh :: l1 :: l2 :: l3 :: l4 :: rest)
      = ((runSpec PB.reset rest).1, .error :: (runSpec PB.reset rest).2) := by
  -- big literals: facts by `omega`, rewriting by `simp only` (simp's arithmetic simprocs
  -- produce proofs on which the kernel hits its recursion limit)
  have n1 : ¬ l1 < 128 := by omega
  have n2 : ¬ l2 < 128 := by omega
  have n3 : ¬ l3 < 128 := by omega
  have e1 : ¬ ((1:Nat) = 128*128*128) := by omega
  have e2 : ¬ ((128:Nat) = 128*128*128) := by omega
  have e3 : ¬ ((16384:Nat) = 128*128*128) := by omega
  have e4 : (2097152:Nat) = 128*128*128 := by omega
  have m1 : (1:Nat) * 128 = 128 := by omega
  have m2 : (128:Nat) * 128 = 16384 := by omega
  have m3 : (16384:Nat) * 128 = 2097152 := by omega
  have s0 : stepByte PB.reset fh = (⟨.remLen, [fh], 0, 1, []⟩, none) := by
    simp only [stepByte, PB.reset, List.nil_append]
  have s1 : stepByte ⟨.remLen, [fh], 0, 1, []⟩ l1 = (⟨.remLen, [fh, l1], l1 % 128, 128, []⟩, none) := by
    simp only [stepByte, n1, e1, false_and, if_false, m1, List.cons_append, List.nil_append,
      Nat.zero_add, Nat.mul_one]
  have s2 : stepByte ⟨.remLen, [fh, l1], l1 % 128, 128, []⟩ l2
      = (⟨.remLen, [fh, l1, l2], l1 % 128 + l2 % 128 * 128, 16384, []⟩, none) := by
    simp only [stepByte, n2, e2, false_and, if_false, m2, List.cons_append, List.nil_append]
  have s3 : stepByte ⟨.remLen, [fh, l1, l2], l1 % 128 + l2 % 128 * 128, 16384, []⟩ l3
      = (⟨.remLen, [fh, l1, l2, l3], l1 % 128 + l2 % 128 * 128 + l3 % 128 * 16384, 2097152, []⟩, none) := by
    simp only [stepByte, n3, e3, false_and, if_false, m3, List.cons_append, List.nil_append]
  have s4 : stepByte ⟨.remLen, [fh, l1, l2, l3], l1 % 128 + l2 % 128 * 128 + l3 % 128 * 16384, 2097152, []⟩ l4
      = (PB.reset, some .error) := by
    simp only [stepByte, e4, h4, and_self, if_true]
  constructor
  · rw [feed_eq_spec _ _ inv_reset]
    simp only [feedSpec, s0, s1, s2, s3, s4]
  · simp only [runSpec, s0, s1, s2, s3, s4]

/-! ## byte conservation (ghost-instrumented run) -/

/-- bytes currently held inside the builder -/
def held (pb : PB) : List Nat := pb.header ++ pb.buf

/-- `runSpec` instrumented with the raw bytes of every frame it closes -/
def runRaw : PB → List Nat → PB × List (Out × List Nat)
  | pb, [] => (pb, [])
  | pb, b :: rest =>
    match stepByte pb b with
    | (pb', some o) => let r := runRaw pb' rest; (r.1, (o, held pb ++ [b]) :: r.2)
    | (pb', none) => runRaw pb' rest

theorem runRaw_erase (pb : PB) (inp : List Nat) :
    ((runRaw pb inp).1, (runRaw pb inp).2.map (·.1)) = runSpec pb inp := by
  induction inp generalizing pb with
  | nil => rfl
  | cons b rest ih =>
    simp only [runRaw, runSpec]
    cases hs : stepByte pb b with
    | mk pb' o =>
      cases o with
      | none => exact ih pb'
      | some o => simp only [List.map_cons]; rw [← ih pb']

/-- shape invariant used for conservation: outside the payload state the buffer is empty -/
def Shape (pb : PB) : Prop := pb.st ≠ .payload → pb.buf = []

theorem stepByte_held (pb : PB) (b : Nat) (hs : Shape pb) :
    Shape (stepByte pb b).1 ∧
    ((stepByte pb b).2 = none → held (stepByte pb b).1 = held pb ++ [b]) ∧
    ((stepByte pb b).2 ≠ none → held (stepByte pb b).1 = []) := by
  unfold stepByte
  cases hst : pb.st with
  | fixedHeader =>
    have := hs (by simp [hst])
    simp [Shape, held, this]
  | remLen =>
    have := hs (by simp [hst])
    simp only
    (repeat' split) <;> simp [Shape, held, PB.reset, this]
  | payload =>
    simp only
    split <;> simp [Shape, held, PB.reset]

/-- **C09 (d), no byte lost, duplicated or reordered.**  The bytes already held by the
    builder followed by the stream are exactly the raw bytes of the frames closed (in order)
    followed by the bytes still held afterwards. -/
theorem C09_bytes_conserved (pb : PB) (inp : List Nat) (hs : Shape pb) :
    held pb ++ inp = ((runRaw pb inp).2.map (·.2)).flatten ++ held (runRaw pb inp).1 := by
  induction inp generalizing pb with
  | nil => simp [runRaw]
  | cons b rest ih =>
    obtain ⟨s1, s2, s3⟩ := stepByte_held pb b hs
    simp only [runRaw]
    cases hsb : stepByte pb b with
    | mk pb' o =>
      rw [hsb] at s1 s2 s3
      cases o with
      | none =>
        simp only at s2 ⊢
        rw [← ih pb' s1, s2 trivial]; simp
      | some o =>
        simp only at s3 ⊢
        have := ih pb' s1
        rw [s3 (by simp)] at this
        simp only [List.nil_append] at this
        simp only [List.map_cons, List.flatten_cons, List.append_assoc]
        rw [← this]; simp

/-- every closed frame's data is the tail of its raw bytes and its first raw byte is the
    fixed header reported -/
theorem stepByte_frame_shape (pb : PB) (b : Nat) (fh : Nat) (data : List Nat)
    (hs : Shape pb) (hh : pb.st ≠ .fixedHeader → pb.header ≠ [])
    (ho : (stepByte pb b).2 = some (.complete fh data)) :
    ∃ lenBytes, held pb ++ [b] = fh :: lenBytes ++ data := by
  unfold stepByte at ho
  cases hst : pb.st with
  | fixedHeader => simp [hst] at ho
  | remLen =>
    have hb := hs (by simp [hst])
    have hne := hh (by simp [hst])
    simp only [hst] at ho
    (repeat' split at ho) <;> simp at ho
    obtain ⟨rfl, rfl⟩ := ho
    cases hd : pb.header with
    | nil => exact absurd hd hne
    | cons x xs => exact ⟨xs ++ [b], by simp [held, hd, hb]⟩
  | payload =>
    have hne := hh (by simp [hst])
    simp only [hst] at ho
    split at ho <;> simp at ho
    obtain ⟨rfl, rfl⟩ := ho
    cases hd : pb.header with
    | nil => exact absurd hd hne
    | cons x xs => exact ⟨xs, by simp [held, hd]⟩

/-! ## non-vacuity -/
example : Inv PB.reset ∧ Shape PB.reset := ⟨inv_reset, by intro _; rfl⟩
example : feedChunks PB.reset [[0x30, 0x02], [0x41], [0x42, 0xC0, 0x00]]
    = (PB.reset, [.complete 0x30 [0x41, 0x42], .complete 0xC0 []]) := by decide

end MqttVerif.Framing
