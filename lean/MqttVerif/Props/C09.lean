import MqttVerif.Framing.Lemmas
import MqttVerif.Conn.Lemmas.PbFrame
/-!
# C09 — stream framing is independent of how the byte stream is chunked

Model: `Framing.feed` (the Rust loop, with the bulk payload copy).  Specification:
`Framing.runSpec`, one byte at a time.  All theorems are for **every** byte stream and
**every** partition into chunks; no bound on lengths.
-/
set_option linter.unusedSimpArgs false
set_option linter.unusedVariables false
namespace MqttVerif.Framing

/-- **C09 (a)** — one call of `feed` = run the byte-step specification up to the first
    output; in particular at most one result per call (the result type is an `Option`),
    and the unread input is a suffix of the input. -/
theorem C09_feed_is_bytewise (pb : PB) (inp : List Nat) (h : Inv pb) :
    feed pb inp = feedSpec pb inp ∧ ∃ consumed, inp = consumed ++ (feed pb inp).2.2 := by
  rw [feed_eq_spec pb inp h]
  exact ⟨rfl, (feedSpec_props pb inp h).2.1⟩

/-- calling `feed` until a receive buffer is exhausted yields exactly the specification's
    outputs for that buffer -/
theorem feedAll_eq_runSpec (fuel : Nat) (pb : PB) (inp : List Nat) (h : Inv pb)
    (hf : inp.length < fuel) : feedAll fuel pb inp = runSpec pb inp := by
  induction fuel generalizing pb inp with
  | zero => omega
  | succ fuel ih =>
    unfold feedAll
    by_cases he : inp = []
    · subst he; simp [runSpec]
    · simp only [he, if_false]
      rw [feed_eq_spec pb inp h]
      obtain ⟨a1, _, a3, a4, a5⟩ := feedSpec_props pb inp h
      cases hs : feedSpec pb inp with
      | mk pb' r =>
        obtain ⟨o, rest⟩ := r
        rw [hs] at a1 a3 a4 a5
        cases o with
        | none =>
          simp only at a4 ⊢
          exact (a4 trivial).2.symm
        | some o =>
          simp only at a3 a5 ⊢
          rw [a5 o rfl, ih pb' rest a1 (by have := a3 he; omega)]

theorem feedAll_inv (fuel : Nat) (pb : PB) (inp : List Nat) (h : Inv pb) (hf : inp.length < fuel) :
    Inv (feedAll fuel pb inp).1 := by
  rw [feedAll_eq_runSpec fuel pb inp h hf]
  induction inp generalizing pb with
  | nil => simpa [runSpec]
  | cons b rest ih =>
    simp only [runSpec]
    have hi := stepByte_inv pb b h
    cases hs : stepByte pb b with
    | mk pb' o =>
      rw [hs] at hi
      cases o <;> simp only <;> exact ih pb' hi (by simp at hf; omega)

/-- **C09 (b), chunk independence.**  Feeding a byte stream in any partition into chunks
    produces the same outputs, in the same order, and leaves the builder in the same state,
    as the byte-step specification run over the concatenation. -/
theorem C09_chunk_independent (pb : PB) (chunks : List (List Nat)) (h : Inv pb) :
    feedChunks pb chunks = runSpec pb chunks.flatten := by
  induction chunks generalizing pb with
  | nil => simp [feedChunks, runSpec]
  | cons c cs ih =>
    simp only [feedChunks, List.flatten_cons]
    have hi := feedAll_inv (c.length + 1) pb c h (by omega)
    rw [ih _ hi, feedAll_eq_runSpec _ pb c h (by omega), runSpec_append]

/-- corollary: two partitions of the same stream are indistinguishable — in particular any
    partition behaves like "one whole packet at a time" -/
theorem C09_any_two_partitions (pb : PB) (c1 c2 : List (List Nat)) (h : Inv pb)
    (he : c1.flatten = c2.flatten) : feedChunks pb c1 = feedChunks pb c2 := by
  rw [C09_chunk_independent pb c1 h, C09_chunk_independent pb c2 h, he]

/-- **C09 (c), over-long Remaining Length.**  A fourth length byte with the continuation bit
    set (i.e. a Remaining Length longer than four bytes): `feed` reports an error, has
    consumed exactly the bytes up to and including that byte, and the builder is back in its
    initial state, so framing resumes at the next byte. -/
theorem C09_long_length_resync (fh l1 l2 l3 l4 : Nat) (rest : List Nat)
    (h1 : l1 ≥ 128) (h2 : l2 ≥ 128) (h3 : l3 ≥ 128) (h4 : l4 ≥ 128) :
    feed PB.reset (fh :: l1 :: l2 :: l3 :: l4 :: rest) = (PB.reset, some .error, rest) ∧
    runSpec PB.reset (fh :: l1 :: l2 :: l3 :: l4 :: rest)
      = ((runSpec PB.reset rest).1, .error :: (runSpec PB.reset rest).2) := by
  -- big literals: facts by `omega`, rewriting by `simp only` (simp's arithmetic simprocs
  -- produce proofs on which the kernel hits its recursion limit)
  have n1 : ¬ l1 < 128 := by omega
  have n2 : ¬ l2 < 128 := by omega
  have n3 : ¬ l3 < 128 := by omega
  have e1 : ¬ ((1:Nat) = 128*128*128) := by omega
  have e2 : ¬ ((128:Nat) = 128*128*128) := by omega
  have e3 : ¬ ((16384:Nat) = 128*128*128) := by omega
  have e4 : (2097152:Nat) = 128*128*128 := by omega
  have m1 : (1:Nat) * 128 = 128 := by omega
  have m2 : (128:Nat) * 128 = 16384 := by omega
  have m3 : (16384:Nat) * 128 = 2097152 := by omega
  have s0 : stepByte PB.reset fh = (⟨.remLen, [fh], 0, 1, []⟩, none) := by
    simp only [stepByte, PB.reset, List.nil_append]
  have s1 : stepByte ⟨.remLen, [fh], 0, 1, []⟩ l1 = (⟨.remLen, [fh, l1], l1 % 128, 128, []⟩, none) := by
    simp only [stepByte, n1, e1, false_and, if_false, m1, List.cons_append, List.nil_append,
      Nat.zero_add, Nat.mul_one]
  have s2 : stepByte ⟨.remLen, [fh, l1], l1 % 128, 128, []⟩ l2
      = (⟨.remLen, [fh, l1, l2], l1 % 128 + l2 % 128 * 128, 16384, []⟩, none) := by
    simp only [stepByte, n2, e2, false_and, if_false, m2, List.cons_append, List.nil_append]
  have s3 : stepByte ⟨.remLen, [fh, l1, l2], l1 % 128 + l2 % 128 * 128, 16384, []⟩ l3
      = (⟨.remLen, [fh, l1, l2, l3], l1 % 128 + l2 % 128 * 128 + l3 % 128 * 16384, 2097152, []⟩, none) := by
    simp only [stepByte, n3, e3, false_and, if_false, m3, List.cons_append, List.nil_append]
  have s4 : stepByte ⟨.remLen, [fh, l1, l2, l3], l1 % 128 + l2 % 128 * 128 + l3 % 128 * 16384, 2097152, []⟩ l4
      = (PB.reset, some .error) := by
    simp only [stepByte, e4, h4, and_self, if_true]
  constructor
  · rw [feed_eq_spec _ _ inv_reset]
    simp only [feedSpec, s0, s1, s2, s3, s4]
  · simp only [runSpec, s0, s1, s2, s3, s4]

/-! ## byte conservation (ghost-instrumented run) -/

/-- bytes currently held inside the builder -/
def held (pb : PB) : List Nat := pb.header ++ pb.buf

/-- `runSpec` instrumented with the raw bytes of every frame it closes -/
def runRaw : PB → List Nat → PB × List (Out × List Nat)
  | pb, [] => (pb, [])
  | pb, b :: rest =>
    match stepByte pb b with
    | (pb', some o) => let r := runRaw pb' rest; (r.1, (o, held pb ++ [b]) :: r.2)
    | (pb', none) => runRaw pb' rest

theorem runRaw_erase (pb : PB) (inp : List Nat) :
    ((runRaw pb inp).1, (runRaw pb inp).2.map (·.1)) = runSpec pb inp := by
  induction inp generalizing pb with
  | nil => rfl
  | cons b rest ih =>
    simp only [runRaw, runSpec]
    cases hs : stepByte pb b with
    | mk pb' o =>
      cases o with
      | none => exact ih pb'
      | some o => simp only [List.map_cons]; rw [← ih pb']

/-- shape invariant used for conservation: outside the payload state the buffer is empty -/
def Shape (pb : PB) : Prop := pb.st ≠ .payload → pb.buf = []

theorem stepByte_held (pb : PB) (b : Nat) (hs : Shape pb) :
    Shape (stepByte pb b).1 ∧
    ((stepByte pb b).2 = none → held (stepByte pb b).1 = held pb ++ [b]) ∧
    ((stepByte pb b).2 ≠ none → held (stepByte pb b).1 = []) := by
  unfold stepByte
  cases hst : pb.st with
  | fixedHeader =>
    have := hs (by simp [hst])
    simp [Shape, held, this]
  | remLen =>
    have := hs (by simp [hst])
    simp only
    (repeat' split) <;> simp [Shape, held, PB.reset, this]
  | payload =>
    simp only
    split <;> simp [Shape, held, PB.reset]

/-- **C09 (d), no byte lost, duplicated or reordered.**  The bytes already held by the
    builder followed by the stream are exactly the raw bytes of the frames closed (in order)
    followed by the bytes still held afterwards. -/
theorem C09_bytes_conserved (pb : PB) (inp : List Nat) (hs : Shape pb) :
    held pb ++ inp = ((runRaw pb inp).2.map (·.2)).flatten ++ held (runRaw pb inp).1 := by
  induction inp generalizing pb with
  | nil => simp [runRaw]
  | cons b rest ih =>
    obtain ⟨s1, s2, s3⟩ := stepByte_held pb b hs
    simp only [runRaw]
    cases hsb : stepByte pb b with
    | mk pb' o =>
      rw [hsb] at s1 s2 s3
      cases o with
      | none =>
        simp only at s2 ⊢
        rw [← ih pb' s1, s2 trivial]; simp
      | some o =>
        simp only at s3 ⊢
        have := ih pb' s1
        rw [s3 (by simp)] at this
        simp only [List.nil_append] at this
        simp only [List.map_cons, List.flatten_cons, List.append_assoc]
        rw [← this]; simp

/-- every closed frame's data is the tail of its raw bytes and its first raw byte is the
    fixed header reported -/
theorem stepByte_frame_shape (pb : PB) (b : Nat) (fh : Nat) (data : List Nat)
    (hs : Shape pb) (hh : pb.st ≠ .fixedHeader → pb.header ≠ [])
    (ho : (stepByte pb b).2 = some (.complete fh data)) :
    ∃ lenBytes, held pb ++ [b] = fh :: lenBytes ++ data := by
  unfold stepByte at ho
  cases hst : pb.st with
  | fixedHeader => simp [hst] at ho
  | remLen =>
    have hb := hs (by simp [hst])
    have hne := hh (by simp [hst])
    simp only [hst] at ho
    (repeat' split at ho) <;> simp at ho
    obtain ⟨rfl, rfl⟩ := ho
    cases hd : pb.header with
    | nil => exact absurd hd hne
    | cons x xs => exact ⟨xs ++ [b], by simp [held, hd, hb]⟩
  | payload =>
    have hne := hh (by simp [hst])
    simp only [hst] at ho
    split at ho <;> simp at ho
    obtain ⟨rfl, rfl⟩ := ho
    cases hd : pb.header with
    | nil => exact absurd hd hne
    | cons x xs => exact ⟨xs, by simp [held, hd]⟩

/-! ## non-vacuity -/
example : Inv PB.reset ∧ Shape PB.reset := ⟨inv_reset, by intro _; rfl⟩
example : feedChunks PB.reset [[0x30, 0x02], [0x41], [0x42, 0xC0, 0x00]]
    = (PB.reset, [.complete 0x30 [0x41, 0x42], .complete 0xC0 []]) := by decide

end MqttVerif.Framing


/-! ## C09 at connection level: `recv` frames exactly like the byte-step specification

The driver (`connLine`) runs a ghost assembler `gpb` next to every traced connection: it is reset
by `closed`, advanced by `Framing.feedSpec gpb inp` on every `recv inp`, and untouched by every
other call; the frame and the number of consumed bytes the implementation reports must be those
of `feedSpec` (`VIOL sig=C09 conn_framing@<site>`).  Below: the same holds for the model's
`Conn.recv`, for **every** state whose assembler satisfies the builder invariant `Framing.Inv`
(in the payload state at least one byte is expected — `C09_conn_inv_step`: kept by every call,
true initially), every input and every parser. -/
namespace MqttVerif.Conn
open MqttVerif

theorem stepByte_out_reset' (pb : Framing.PB) (b : Nat) :
    (Framing.stepByte pb b).2 = none ∨ (Framing.stepByte pb b).1 = Framing.PB.reset := by
  unfold Framing.stepByte
  (repeat' (first | split | (simp only []; split))) <;> simp

theorem stepByte_out_reset (pb : Framing.PB) (b : Nat) (h : (Framing.stepByte pb b).2 ≠ none) :
    (Framing.stepByte pb b).1 = Framing.PB.reset :=
  (stepByte_out_reset' pb b).resolve_left h

/-- once the specification reports a result, the assembler is back in its initial state -/
theorem feedSpec_out_reset (pb : Framing.PB) (inp : List Nat)
    (h : (Framing.feedSpec pb inp).2.1 ≠ none) : (Framing.feedSpec pb inp).1 = Framing.PB.reset := by
  induction inp generalizing pb with
  | nil => simp [Framing.feedSpec] at h
  | cons b rest ih =>
    simp only [Framing.feedSpec] at h ⊢
    have hr := stepByte_out_reset pb b
    cases hs : Framing.stepByte pb b with
    | mk pb' o =>
      rw [hs] at h hr
      cases o with
      | none => exact ih pb' h
      | some o => exact hr (by simp)

/-- the driver's ghost assembler -/
def C09.ghostPb (gpb : Framing.PB) : Op → Framing.PB
  | .closed => {}
  | .recv inp _ => (Framing.feedSpec gpb inp).1
  | _ => gpb

/-- what the connection does with the result of one `feed`: nothing (incomplete), a framing
    error (timers cancelled, close requested, `MalformedPacket` reported), or the packet handler
    on the completed frame -/
def C09.afterFeed (cfg : Cfg) (s : St) (parse : Nat → Nat → List Nat → Except Nat Pkt)
    (pb : Framing.PB) : Option Framing.Out → C
  | none => { cfg := cfg, s := { s with pb := pb } }
  | some .error => ((cancelTimers { cfg := cfg, s := { s with pb := pb } }).push .close).err eMalformed
  | some (.complete fh d) =>
    processRecvPacket { cfg := cfg, s := { s with pb := pb } } fh d (fun v => parse v fh d)

/-- **C09 conn_framing** (driver monitor `VIOL sig=C09 conn_framing@<site>`).  For every state
    (assembler invariant), every receive buffer and every parser: the unread rest `recv` returns —
    hence the number of bytes it consumed, `inp.length - rest.length` — and the frame it hands to the
    packet handler are those of the byte-at-a-time specification `Framing.feedSpec` run on the same
    bytes from the same assembler state:
    * the consumed bytes are a prefix of the input;
    * no result (`none`): no event, nothing but `pb` changes;
    * `.error` (Remaining Length longer than four bytes): error event `MalformedPacket` after a close
      request, and the assembler is reset;
    * `.complete fh d`: the call *is* the packet handler run on `(fh, d)` (assembler reset). -/
theorem C09_conn_framing (cfg : Cfg) (s : St) (inp : List Nat)
    (parse : Nat → Nat → List Nat → Except Nat Pkt) (h : Framing.Inv s.pb) :
    (recv { cfg := cfg, s := s } inp parse).2 = (Framing.feedSpec s.pb inp).2.2 ∧
    (∃ consumed, inp = consumed ++ (Framing.feedSpec s.pb inp).2.2 ∧
      consumed.length = inp.length - (recv { cfg := cfg, s := s } inp parse).2.length) ∧
    step cfg s (.recv inp parse) =
      C09.afterFeed cfg s parse (Framing.feedSpec s.pb inp).1 (Framing.feedSpec s.pb inp).2.1 ∧
    ((Framing.feedSpec s.pb inp).2.1 ≠ none → (Framing.feedSpec s.pb inp).1 = Framing.PB.reset) := by
  have hf := Framing.feed_eq_spec s.pb inp h
  obtain ⟨pre, hpre⟩ := (Framing.feedSpec_props s.pb inp h).2.1
  have hrecv : recv { cfg := cfg, s := s } inp parse =
      (C09.afterFeed cfg s parse (Framing.feedSpec s.pb inp).1 (Framing.feedSpec s.pb inp).2.1,
        (Framing.feedSpec s.pb inp).2.2) := by
    unfold recv
    rw [hf]
    obtain ⟨pb, out, rest⟩ := Framing.feedSpec s.pb inp
    simp only []
    cases out with
    | none => rfl
    | some o => cases o <;> rfl
  refine ⟨by rw [hrecv], ⟨pre, hpre, ?_⟩, ?_, feedSpec_out_reset _ _⟩
  · rw [hrecv]
    have := congrArg List.length hpre
    simp only [List.length_append] at this
    dsimp only
    omega
  · show (recv { cfg := cfg, s := s } inp parse).1 = _
    rw [hrecv]

/-- the three cases of `C09_conn_framing`, spelt out on the events -/
theorem C09_conn_framing_events (cfg : Cfg) (s : St) (inp : List Nat)
    (parse : Nat → Nat → List Nat → Except Nat Pkt) (h : Framing.Inv s.pb) :
    ((Framing.feedSpec s.pb inp).2.1 = none →
      (step cfg s (.recv inp parse)).ev = [] ∧
      (step cfg s (.recv inp parse)).s = { s with pb := (Framing.feedSpec s.pb inp).1 }) ∧
    ((Framing.feedSpec s.pb inp).2.1 = some .error →
      (∃ cancels, (step cfg s (.recv inp parse)).ev = cancels ++ [.close, .error eMalformed]) ∧
      (step cfg s (.recv inp parse)).s.pb = Framing.PB.reset) ∧
    (∀ fh d, (Framing.feedSpec s.pb inp).2.1 = some (.complete fh d) →
      step cfg s (.recv inp parse) =
        processRecvPacket { cfg := cfg, s := { s with pb := Framing.PB.reset } } fh d (fun v => parse v fh d)) := by
  obtain ⟨_, _, hs, hr⟩ := C09_conn_framing cfg s inp parse h
  refine ⟨fun e => ?_, fun e => ?_, fun fh d e => ?_⟩
  · rw [hs, e]; exact ⟨rfl, rfl⟩
  · have hr' := hr (by rw [e]; simp)
    rw [hs, e, hr']
    refine ⟨⟨(cancelTimers { cfg := cfg, s := { s with pb := Framing.PB.reset } }).ev, ?_⟩, ?_⟩
    · simp [C09.afterFeed, C.err, C.push]
    · simp [C09.afterFeed]
  · have hr' := hr (by rw [e]; simp)
    rw [hs, e, hr']; rfl

/-- **the ghost assembler is the model's assembler**: after every call the model's `pb` is the
    driver's ghost update of it (`closed` resets — fix of finding #1 —, `recv` advances by
    `feedSpec`, nothing else touches it), and the builder invariant is kept -/
theorem C09_conn_inv_step (cfg : Cfg) (s : St) (op : Op) (h : Framing.Inv s.pb) :
    (step cfg s op).s.pb = C09.ghostPb s.pb op ∧ Framing.Inv (step cfg s op).s.pb := by
  have key : (step cfg s op).s.pb = C09.ghostPb s.pb op := by
    cases op with
    | send p => exact PbF.pb_send _ p
    | recv inp parse =>
      rw [(C09_conn_framing cfg s inp parse h).2.2.1]
      show _ = (Framing.feedSpec s.pb inp).1
      cases ho : (Framing.feedSpec s.pb inp).2.1 with
      | none => rfl
      | some o => cases o <;> simp [C09.afterFeed]
    | timer k => exact PbF.pb_notifyTimerFired _ k
    | closed => exact PbF.pb_notifyClosed _
    | setInterval d => exact PbF.pb_setPingreqSendInterval _ d
    | setFlag f b => cases f <;> rfl
    | setRespTimeout ms => rfl
    | acquire => rfl
    | register id => rfl
    | release id => exact PbF.pb_releasePacketId _ id
    | erase id => exact PbF.pb_eraseStoredPublish _ id
    | restoreHandled ids => rfl
    | restorePackets ps => exact PbF.pb_restorePackets ps _
  refine ⟨key, ?_⟩
  rw [key]
  cases op <;> first | exact h | exact Framing.inv_reset | exact (Framing.feedSpec_props s.pb _ h).1

/-- the driver's ghost along a whole trace -/
def C09.ghostRun (gpb : Framing.PB) : List Op → Framing.PB
  | [] => gpb
  | op :: ops => C09.ghostRun (C09.ghostPb gpb op) ops

/-- run level: from any state with a sound assembler — in particular a fresh connection object
    (`C09_conn_reachable`) — the model's assembler follows the ghost through every sequence of calls -/
theorem C09_conn_inv_run (cfg : Cfg) (ops : List Op) (s : St) (h : Framing.Inv s.pb) :
    (run cfg s ops).pb = C09.ghostRun s.pb ops ∧ Framing.Inv (run cfg s ops).pb := by
  induction ops generalizing s with
  | nil => exact ⟨rfl, h⟩
  | cons op ops ih =>
    obtain ⟨h1, h2⟩ := C09_conn_inv_step cfg s op h
    have := ih (step cfg s op).s h2
    simp only [run, C09.ghostRun]
    rw [← h1]; exact this

theorem C09_conn_reachable (cfg : Cfg) (ver : Nat) (ops : List Op) :
    (run cfg (St.init cfg ver) ops).pb = C09.ghostRun {} ops ∧
    Framing.Inv (run cfg (St.init cfg ver) ops).pb :=
  C09_conn_inv_run cfg ops (St.init cfg ver) Framing.inv_reset

/-! ### non-vacuity -/
namespace C09Ex
def cfg : Cfg := { role := .client, pw := 2 }
def pingresp : Pkt := { ver := 4, kind := .pingresp, size := 2 }
def parse : Nat → Nat → List Nat → Except Nat Pkt := fun _ _ _ => .ok pingresp
def s0 : St := { St.init cfg 4 with status := .connected }
/-- a PUBLISH frame split over two buffers with a PINGRESP behind it: the first call consumes
    everything without a result, the second completes the frame and leaves the PINGRESP unread -/
example : Framing.feedSpec s0.pb [0x30, 3, 0] = (⟨.payload, [0x30, 3], 2, 128, [0]⟩, none, []) := by decide
def s1 : St := (step cfg s0 (.recv [0x30, 3, 0] parse)).s
example : Framing.Inv s1.pb ∧ (step cfg s0 (.recv [0x30, 3, 0] parse)).ev = [] := by
  refine ⟨(C09_conn_inv_step cfg s0 _ Framing.inv_reset).2, by decide⟩
example : Framing.feedSpec s1.pb [1, 97, 0xD0, 0] = (Framing.PB.reset, some (.complete 0x30 [0, 1, 97]), [0xD0, 0]) ∧
    (recv { cfg := cfg, s := s1 } [1, 97, 0xD0, 0] parse).2 = [0xD0, 0] := by decide
/-- a fifth length byte: error event after a close request, assembler reset, two bytes left unread -/
example : (step cfg s0 (.recv [0x30, 128, 128, 128, 128, 7, 7] parse)).ev = [.close, .error eMalformed] ∧
    (recv { cfg := cfg, s := s0 } [0x30, 128, 128, 128, 128, 7, 7] parse).2 = [7, 7] ∧
    (step cfg s0 (.recv [0x30, 128, 128, 128, 128, 7, 7] parse)).s.pb = Framing.PB.reset := by decide
/-- `Framing.Inv` is needed: in a (unreachable) payload state that expects 0 bytes the Rust loop
    returns `Incomplete` without consuming anything; the specification consumes the byte -/
def pbBad : Framing.PB := ⟨.payload, [0x30, 0], 0, 128, []⟩
example : ¬ Framing.Inv pbBad ∧ (Framing.feed pbBad [7]).2.1 = none ∧ (Framing.feed pbBad [7]).2.2 = [7] ∧
    (Framing.feedSpec pbBad [7]).2.2 = [] :=
  ⟨fun h => absurd (h rfl) (by decide), by decide⟩
/-- the ghost along a trace: `closed` discards the half-received frame -/
example : C09.ghostRun {} [.recv [0x30, 3, 0] parse, .closed, .recv [0xD0] parse] = ⟨.remLen, [0xD0], 0, 1, []⟩ := by
  decide
end C09Ex

end MqttVerif.Conn
