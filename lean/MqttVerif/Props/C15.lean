import MqttVerif.Conn.Lemmas.TimersAccept
import MqttVerif.Conn.Lemmas.TimersSend
import MqttVerif.Conn.Lemmas.TimersRearm
/-!
# C15 — keep-alive timer requests are consistent and complete

Model: `Conn.step` (L2).  Ghost state: `Mon.Armed`, maintained from the *events* of each call by
`Mon.timersStep` (`RequestTimerReset k` arms, `RequestTimerCancel k` requires armed and clears);
a fired timer is no longer armed when `notify_timer_fired` starts (`startArmed`).
`flagsOf s` = the model's own `pingreq_send_set / pingreq_recv_set / pingresp_recv_set`.

All theorems are for **every** configuration, state, operation (a `recv` carries arbitrary bytes
and an arbitrary parser) and operation sequence; none is restricted to reachable states unless
it says `Reachable`.
-/
set_option linter.unusedSimpArgs false
set_option linter.unusedVariables false
namespace MqttVerif.Conn
open MqttVerif Mon

/-! ## 1. the timer events of every call are consistent with, and account for, the flags -/

/-- **C15 (1)** — for every state and every call: folding the call's timer events over the
    ghost flags (= the model flags before the call, minus the fired timer for a `.timer k` call)
    never meets a cancel of an unarmed timer, and ends exactly in the model flags after the
    call. -/
theorem C15_events_match_flags (cfg : Cfg) (s : St) (op : Op) :
    timersStep (startArmed s op) (step cfg s op).ev = some (flagsOf (step cfg s op).s) := by
  rw [← timersStep_tev]; exact (step_inv cfg s op).g

/-- (1) for the calls that are not a timer expiry: start from the flags themselves -/
theorem C15_events_match_flags_nontimer (cfg : Cfg) (s : St) (op : Op) (h : ∀ k, op ≠ .timer k) :
    timersStep (flagsOf s) (step cfg s op).ev = some (flagsOf (step cfg s op).s) := by
  have := C15_events_match_flags cfg s op
  cases op <;> simp_all [startArmed]

/-- (1) for a timer expiry: the fired timer counts as not armed -/
theorem C15_events_match_flags_timer (cfg : Cfg) (s : St) (k : Timer) :
    timersStep ((flagsOf s).set k false) (step cfg s (.timer k)).ev
      = some (flagsOf (step cfg s (.timer k)).s) :=
  C15_events_match_flags cfg s (.timer k)

/-- a successful fold means: at every `RequestTimerCancel k` the ghost flag of `k` was set -/
theorem timersStep_cancel_armed (a r : Armed) (pre post : List Ev) (k : Timer)
    (h : timersStep a (pre ++ .timerCancel k :: post) = some r) :
    ∃ b, timersStep a pre = some b ∧ b.get k = true := by
  rw [timersStep_append] at h
  cases hb : timersStep a pre with
  | none => simp [hb] at h
  | some b =>
    refine ⟨b, rfl, ?_⟩
    simp only [hb, Option.bind_some, timersStep] at h
    by_cases hk : b.get k = true
    · exact hk
    · simp [hk] at h

/-- **C15 (1a), cancel only armed** — wherever a call emits `RequestTimerCancel k`, the timer
    `k` is armed at that point according to the events seen so far. -/
theorem C15_cancel_only_armed (cfg : Cfg) (s : St) (op : Op) (pre post : List Ev) (k : Timer)
    (h : (step cfg s op).ev = pre ++ .timerCancel k :: post) :
    ∃ b, timersStep (startArmed s op) pre = some b ∧ b.get k = true :=
  timersStep_cancel_armed _ _ pre post k (h ▸ C15_events_match_flags cfg s op)

/-- the monitor form evaluated by the driver: the fold never fails -/
theorem C15_cancel_only_armed_mon (cfg : Cfg) (s : St) (op : Op) :
    timersStep (startArmed s op) (step cfg s op).ev ≠ none := by
  rw [C15_events_match_flags]; simp

-- non-vacuity of the hypothesis of `C15_cancel_only_armed`: a call that emits a cancel
example : (step ⟨.client, 2⟩ { St.init ⟨.client, 2⟩ 4 with sendSet := true } .closed).ev
    = [] ++ .timerCancel .pingreqSend :: [] := by decide

/-- the ghost flags an observer computes from the events of a whole history (`none` = some
    call cancelled an unarmed timer) -/
def fired (a : Armed) : Op → Armed
  | .timer k => a.set k false
  | _ => a

def ghostRun (cfg : Cfg) : St → Armed → List Op → Option Armed
  | _, a, [] => some a
  | s, a, op :: ops =>
    match timersStep (fired a op) (step cfg s op).ev with
    | none => none
    | some a' => ghostRun cfg (step cfg s op).s a' ops

/-- **C15 (1b)** — along any operation sequence from any state, the ghost flags computed from
    the events alone always equal the model's flags: the flags are a faithful account of what
    the application has been told. -/
theorem C15_ghost_equals_flags (cfg : Cfg) (s : St) (ops : List Op) :
    ghostRun cfg s (flagsOf s) ops = some (flagsOf (run cfg s ops)) := by
  induction ops generalizing s with
  | nil => rfl
  | cons op ops ih =>
    have h := C15_events_match_flags cfg s op
    have e : fired (flagsOf s) op = startArmed s op := by cases op <;> rfl
    simp only [ghostRun, run, e, h]
    exact ih _

/-- (1b) from a fresh connection object: nothing armed initially -/
theorem C15_ghost_equals_flags_init (cfg : Cfg) (ver : Nat) (ops : List Op) :
    ghostRun cfg (St.init cfg ver) unarmed ops = some (flagsOf (run cfg (St.init cfg ver) ops)) :=
  C15_ghost_equals_flags cfg (St.init cfg ver) ops

/-! ## 2. disconnected means unarmed -/

/-- **C15 (2), step form** — `status = disconnected → no timer armed` is preserved by every
    call from every state; no side condition on the operation (in particular a `.timer k` for a
    timer that is not armed, and `setInterval`, are covered). -/
theorem C15_disconnected_means_unarmed_step (cfg : Cfg) (s : St) (op : Op) (h : DU s) :
    DU (step cfg s op).s :=
  (step_inv cfg s op).d h

theorem C15_disconnected_means_unarmed_run (cfg : Cfg) (s : St) (ops : List Op) (h : DU s) :
    DU (run cfg s ops) := by
  induction ops generalizing s with
  | nil => exact h
  | cons op ops ih => exact ih _ (C15_disconnected_means_unarmed_step cfg s op h)

/-- **C15 (2)** — in every reachable state: if the status is `disconnected` (the transport was
    reported closed, a DISCONNECT was sent, a CONNACK refused the connection, or no connection
    was ever made) no timer is armed. -/
theorem C15_disconnected_means_unarmed (cfg : Cfg) (ver : Nat) (s : St) (h : Reachable cfg ver s) :
    s.status = .disconnected → flagsOf s = unarmed := by
  obtain ⟨ops, rfl⟩ := h
  exact C15_disconnected_means_unarmed_run cfg _ ops (fun _ => rfl)

-- non-vacuity: a non-initial state with armed timers satisfies `DU`, and a reachable one
example : DU { St.init ⟨.client, 2⟩ 4 with status := .connected, sendSet := true, respSet := true } := by
  decide
example : Reachable ⟨.client, 2⟩ 4 (run ⟨.client, 2⟩ (St.init ⟨.client, 2⟩ 4)
    [.send { ver := 4, kind := .connect, keepAlive := 10 }]) := ⟨_, rfl⟩

/-- whatever the state, after `notify_closed` the status is `disconnected` and nothing is armed -/
theorem C15_closed_unarms (cfg : Cfg) (s : St) :
    (step cfg s .closed).s.status = .disconnected ∧ flagsOf (step cfg s .closed).s = unarmed := by
  simp [step, notifyClosed_eq, flagsOf, unarmed]

/-- a `send` of a DISCONNECT either is refused with a single `NotifyError` (state unchanged), or
    cancels exactly the armed timers, sends the packet, requests the close, and leaves the
    endpoint `disconnected` with nothing armed -/
theorem C15_disconnect_sent_unarms (cfg : Cfg) (s : St) (p : Pkt) (hk : p.kind = .disconnect) :
    (∃ e, step cfg s (.send p) = C.err { cfg := cfg, s := s } e) ∨
    ((step cfg s (.send p)).s.status = .disconnected ∧ flagsOf (step cfg s (.send p)).s = unarmed ∧
     (step cfg s (.send p)).ev = cancelEvs (flagsOf s) ++ [.send p none, .close]) := by
  have href : ∀ (c : C) (e : Nat), refuseSend c e p = c.err e := by
    intro c e; simp [refuseSend, initiatingId, hk]
  simp only [step, send]
  split
  · exact .inl ⟨_, href _ _⟩
  split
  · exact .inl ⟨_, href _ _⟩
  simp only [processSend, hk]
  split
  · unfold psV3Disconnect
    split
    · exact .inl ⟨_, rfl⟩
    · refine .inr ⟨by simp, by simp [flagsOf, unarmed], ?_⟩
      simp [cancelTimers_ev, flagsOf]
  · unfold psV5Disconnect
    split
    · exact .inl ⟨_, rfl⟩
    split
    · exact .inl ⟨_, rfl⟩
    · refine .inr ⟨by simp, by simp [flagsOf, unarmed], ?_⟩
      simp [cancelTimers_ev, flagsOf]

example : (step ⟨.client, 2⟩ { St.init ⟨.client, 2⟩ 4 with status := .connected, sendSet := true, respSet := true }
      (.send { ver := 4, kind := .disconnect, size := 2 })).ev
    = [.timerCancel .pingreqSend, .timerCancel .pingrespRecv,
       .send { ver := 4, kind := .disconnect, size := 2 } none, .close] := by decide

/-! ## 3. no arming while disconnected -/

/-- **C15 (3), strong form** — a call (local or `recv` of arbitrary bytes) that emits any
    `RequestTimerReset` does not end in status `disconnected`. -/
theorem C15_arming_call_not_disconnected (cfg : Cfg) (s : St) (op : Op)
    (h : anyReset (step cfg s op).ev = true) : (step cfg s op).s.status ≠ .disconnected :=
  (step_inv cfg s op).n (by rw [anyReset_tev]; exact h)

/-- **C15 (3)** — if the status is `disconnected` before and after a call, the call emits no
    `RequestTimerReset` (every op, including arbitrary received bytes). -/
theorem C15_no_arming_while_disconnected (cfg : Cfg) (s : St) (op : Op)
    (h : s.status = .disconnected) (h' : (step cfg s op).s.status = .disconnected) :
    anyReset (step cfg s op).ev = false := by
  cases hr : anyReset (step cfg s op).ev with
  | false => rfl
  | true => exact absurd h' (C15_arming_call_not_disconnected cfg s op hr)

-- non-vacuity: a client with a persistent session queues a PUBREL while disconnected (the
-- scenario of finding #14): status stays `disconnected`, and the theorem says nothing is armed
def exOfflineClient : St :=
  { St.init ⟨.client, 2⟩ 4 with
    needStore := true, isClient := true, keepAliveMs := 10000
    pidMan := (Alloc.useValue (Alloc.new 1 65535 65535) 1).2 }

example :
    exOfflineClient.status = .disconnected ∧
    (step ⟨.client, 2⟩ exOfflineClient (.send { ver := 4, kind := .pubrel, pid := some 1 })).s.status
      = .disconnected ∧
    (step ⟨.client, 2⟩ exOfflineClient (.send { ver := 4, kind := .pubrel, pid := some 1 })).s.pubcomp = [1] := by
  decide

/-! ## 6. PINGREQ arms the response timer, PINGRESP cancels it -/

/-- a `send` of a PINGREQ that passes the version and role checks is `process_send_*_pingreq` -/
theorem step_send_pingreq (cfg : Cfg) (s : St) (p : Pkt) (hv : s.ver = p.ver)
    (hr : roleMaySend cfg.role p = true) (hk : p.kind = .pingreq) :
    step cfg s (.send p) = psPingreq { cfg := cfg, s := s } p := by
  simp only [step, send, hv, hr, processSend, hk]
  simp

/-- **C15 (6a)** — an accepted PINGREQ (connected; for v5.0 within the peer's Maximum Packet
    Size) emits exactly: the packet, `RequestTimerReset(PingrespRecv, pingresp_recv_timeout_ms)`
    iff that timeout is non-zero, then the client's PINGREQ-timer re-arm. -/
theorem C15_pingreq_arms_response_timer (cfg : Cfg) (s : St) (p : Pkt) (hv : s.ver = p.ver)
    (hr : roleMaySend cfg.role p = true) (hk : p.kind = .pingreq)
    (hsz : p.ver = 5 → p.size ≤ s.mpsSend) (hs : s.status = .connected) :
    (step cfg s (.send p)).ev = [.send p none] ++ armResp s ++ rearmSend s ∧
    (step cfg s (.send p)).s.respSet = (s.respSet || decide (s.respTimeoutMs ≠ 0)) ∧
    (∀ ms, .timerReset .pingrespRecv ms ∈ (step cfg s (.send p)).ev ↔
      (s.respTimeoutMs ≠ 0 ∧ ms = s.respTimeoutMs)) := by
  rw [step_send_pingreq cfg s p hv hr hk]
  have hz : p.ver = 5 → sizeOk { cfg := cfg, s := s } p = true := by
    intro h5; exact (sizeOk_small _ _ (by simp [hk])).2 (hsz h5)
  obtain ⟨h1, h2, _⟩ := psPingreq_accepted { cfg := cfg, s := s } p hz hs
  refine ⟨by simpa using h1, h2, ?_⟩
  intro ms
  rw [h1]
  unfold armResp rearmSend
  by_cases h0 : s.respTimeoutMs = 0 <;> by_cases hc : s.isClient = true ∧ pingInterval s > 0 <;>
    simp [h0, hc] <;> omega

-- non-vacuity: a connected v3.1.1 client with a 5 s response timeout and keep-alive 10 s
def exConnectedClient : St :=
  { St.init ⟨.client, 2⟩ 4 with
    status := .connected, isClient := true, keepAliveMs := 10000, respTimeoutMs := 5000 }

example : (step ⟨.client, 2⟩ exConnectedClient (.send (mkPingreq 4))).ev
    = [.send (mkPingreq 4) none, .timerReset .pingrespRecv 5000, .timerReset .pingreqSend 10000] := by
  decide

/-- **C15 (6b)** — a received PINGRESP emits `RequestTimerCancel(PingrespRecv)` iff the response
    timer is armed, then the notification; afterwards the response timer is not armed. -/
theorem C15_pingresp_cancels (c : C) (p : Pkt) :
    (dispatchRecv c 13 (.ok p)).ev
      = c.ev ++ (if c.s.respSet then [.timerCancel .pingrespRecv] else []) ++ [.recv p] ∧
    (dispatchRecv c 13 (.ok p)).s.respSet = false := by
  have := prPingresp_ok c p
  exact ⟨this.1, this.2.1⟩

-- end to end through the framing layer: the two bytes of a PINGRESP
example : (step ⟨.client, 2⟩ { exConnectedClient with respSet := true }
      (.recv [0xD0, 0x00] (fun v _ _ => .ok (mkPingresp v)))).ev
    = [.timerCancel .pingrespRecv, .recv (mkPingresp 4)] := by
  decide

/-! ## 7. the effect of each expiry -/

/-- **C15 (7a)** — PINGREQ-send timer fires on an established v3.1.1 connection: a PINGREQ is
    sent (and the response timer and the PINGREQ timer are armed as for any PINGREQ). -/
theorem C15_expiry_pingreq_send_v3 (cfg : Cfg) (s : St) (hs : s.status = .connected) (hv : s.ver = 4) :
    (step cfg s (.timer .pingreqSend)).ev = [.send (mkPingreq 4) none] ++ armResp s ++ rearmSend s := by
  have e : step cfg s (.timer .pingreqSend)
      = psPingreq { cfg := cfg, s := { s with sendSet := false } } (mkPingreq 4) := by
    simp [step, notifyTimerFired, hs, hv]
  rw [e]
  exact (psPingreq_accepted _ _ (by simp [mkPingreq]) hs).1

/-- **C15 (7a)**, v5.0: the PINGREQ is sent when its two bytes fit the peer's Maximum Packet
    Size, otherwise the call reports `PacketTooLarge` and nothing else. -/
theorem C15_expiry_pingreq_send_v5 (cfg : Cfg) (s : St) (hs : s.status = .connected) (hv : s.ver = 5) :
    (step cfg s (.timer .pingreqSend)).ev =
      if 2 ≤ s.mpsSend then [.send (mkPingreq 5) none] ++ armResp s ++ rearmSend s
      else [.error eTooLarge] := by
  have e : step cfg s (.timer .pingreqSend)
      = psPingreq { cfg := cfg, s := { s with sendSet := false } } (mkPingreq 5) := by
    simp [step, notifyTimerFired, hs, hv]
  rw [e]
  have hz := sizeOk_small { cfg := cfg, s := { s with sendSet := false } } (mkPingreq 5) (by simp [mkPingreq])
  by_cases hm : 2 ≤ s.mpsSend
  · rw [if_pos hm]
    exact (psPingreq_accepted _ _ (fun _ => hz.2 hm) hs).1
  · rw [if_neg hm]
    have hz' : sizeOk { cfg := cfg, s := { s with sendSet := false } } (mkPingreq 5) = false := by
      cases h : sizeOk { cfg := cfg, s := { s with sendSet := false } } (mkPingreq 5) with
      | false => rfl
      | true => exact absurd (hz.1 h) hm
    unfold psPingreq
    rw [if_pos ⟨rfl, by rw [hz']; rfl⟩]
    rfl

/-- **C15 (7a)**, not connected: the expiry only clears the flag -/
theorem C15_expiry_pingreq_send_not_connected (cfg : Cfg) (s : St) (hs : s.status ≠ .connected) :
    (step cfg s (.timer .pingreqSend)).ev = [] ∧
    (step cfg s (.timer .pingreqSend)).s = { s with sendSet := false } := by
  simp [step, notifyTimerFired, hs]

/-- **C15 (7b)** — a receive-side timeout (PINGREQ not received / PINGRESP not received) on a
    v3.1.1 connection: exactly a close request. -/
theorem C15_expiry_timeout_v3 (cfg : Cfg) (s : St) (k : Timer) (hk : k ≠ .pingreqSend) (hv : s.ver = 4) :
    (step cfg s (.timer k)).ev = [.close] := by
  cases k
  · exact absurd rfl hk
  · simp [step, notifyTimerFired, hv]
  · simp [step, notifyTimerFired, hv]

/-- **C15 (7b)**, v5.0 on an established connection: the remaining timers are cancelled, a
    DISCONNECT with reason 0x8D (Keep Alive timeout) is sent if its three bytes fit the peer's
    Maximum Packet Size, and the close is requested either way; the connection ends
    disconnected with nothing armed. -/
theorem C15_expiry_timeout_v5 (cfg : Cfg) (s : St) (k : Timer) (hk : k ≠ .pingreqSend) (hv : s.ver = 5)
    (hs : s.status = .connected) :
    (step cfg s (.timer k)).ev = cancelEvs ((flagsOf s).set k false) ++
      (if 3 ≤ s.mpsSend then [.send (mkV5Disconnect 141) none, .close] else [.close]) ∧
    (step cfg s (.timer k)).s.status = .disconnected ∧
    flagsOf (step cfg s (.timer k)).s = unarmed := by
  cases k
  · exact absurd rfl hk
  · have e : step cfg s (.timer .pingreqRecv)
        = v5DisconnectOrClose { cfg := cfg, s := { s with recvSet := false } } (mkV5Disconnect eKeepAliveTimeout) := by
      simp [step, notifyTimerFired, hv, hs]
    rw [e]
    have hz := sizeOk_small { cfg := cfg, s := { s with recvSet := false } } (mkV5Disconnect eKeepAliveTimeout)
      (by simp [mkV5Disconnect])
    obtain ⟨h1, h2, h3⟩ := v5DisconnectOrClose_connected { cfg := cfg, s := { s with recvSet := false } }
      (mkV5Disconnect eKeepAliveTimeout) hs
    refine ⟨?_, h2, h3⟩
    rw [h1]
    by_cases hm : 3 ≤ s.mpsSend
    · rw [if_pos hm, if_pos (hz.2 hm)]; rfl
    · rw [if_neg hm, if_neg (fun h => hm (hz.1 h))]; rfl
  · have e : step cfg s (.timer .pingrespRecv)
        = v5DisconnectOrClose { cfg := cfg, s := { s with respSet := false } } (mkV5Disconnect eKeepAliveTimeout) := by
      simp [step, notifyTimerFired, hv, hs]
    rw [e]
    have hz := sizeOk_small { cfg := cfg, s := { s with respSet := false } } (mkV5Disconnect eKeepAliveTimeout)
      (by simp [mkV5Disconnect])
    obtain ⟨h1, h2, h3⟩ := v5DisconnectOrClose_connected { cfg := cfg, s := { s with respSet := false } }
      (mkV5Disconnect eKeepAliveTimeout) hs
    refine ⟨?_, h2, h3⟩
    rw [h1]
    by_cases hm : 3 ≤ s.mpsSend
    · rw [if_pos hm, if_pos (hz.2 hm)]; rfl
    · rw [if_neg hm, if_neg (fun h => hm (hz.1 h))]; rfl

/-- **C15 (7b)**, v5.0 while not connected: the expiry only clears the flag -/
theorem C15_expiry_timeout_v5_not_connected (cfg : Cfg) (s : St) (k : Timer) (hk : k ≠ .pingreqSend)
    (hv : s.ver = 5) (hs : s.status ≠ .connected) :
    (step cfg s (.timer k)).ev = [] ∧ flagsOf (step cfg s (.timer k)).s = (flagsOf s).set k false := by
  cases k
  · exact absurd rfl hk
  · simp [step, notifyTimerFired, hv, hs, flagsOf, Armed.set]
  · simp [step, notifyTimerFired, hv, hs, flagsOf, Armed.set]

-- non-vacuity of (7): v5.0 server, PINGREQ-receive timeout, with and without room for DISCONNECT
def exV5Server (mps : Nat) : St :=
  { St.init ⟨.server, 2⟩ 5 with
    status := .connected, recvSet := true, recvTimeoutMs := 15000, mpsSend := mps, respSet := true }

example : (step ⟨.server, 2⟩ (exV5Server 100) (.timer .pingreqRecv)).ev
    = [.timerCancel .pingrespRecv, .send (mkV5Disconnect 141) none, .close] := by decide
example : (step ⟨.server, 2⟩ (exV5Server 2) (.timer .pingreqRecv)).ev
    = [.timerCancel .pingrespRecv, .close] := by decide
example : (step ⟨.server, 2⟩ (exV5Server 1) (.timer .pingreqSend)).ev = [.error eTooLarge] := by decide
example : (step ⟨.client, 2⟩ exConnectedClient (.timer .pingrespRecv)).ev = [.close] := by decide
example : (step ⟨.client, 2⟩ exConnectedClient (.timer .pingreqSend)).ev
    = [.send (mkPingreq 4) none, .timerReset .pingrespRecv 5000, .timerReset .pingreqSend 10000] := by decide

/-! ## 5. a server re-arms the 1.5 × keep-alive receive timer on every packet it accepts -/

/-- **C15 (5a)** — a CONNECT received while disconnected sets the receive timeout to
    1.5 × keep-alive (ms) — 0 for keep-alive 0, whatever an earlier connection used, because
    `initialize` resets it (finding #3) — and arms the timer iff keep-alive ≠ 0. -/
theorem C15_connect_sets_recv_timeout (c : C) (p : Pkt) (hs : c.s.status = .disconnected) :
    (dispatchRecv c 1 (.ok p)).s.recvTimeoutMs = recvTimeoutOf p.keepAlive ∧
    (dispatchRecv c 1 (.ok p)).ev = c.ev ++
      (if p.keepAlive ≠ 0 then [.timerReset .pingreqRecv (recvTimeoutOf p.keepAlive)] else []) ++ [.recv p] ∧
    (dispatchRecv c 1 (.ok p)).s.status = .connecting := by
  simp only [dispatchRecv]
  split
  · have := prV3Connect_ok c p hs; exact ⟨this.2.1, this.1, this.2.2.1⟩
  · have := prV5Connect_ok c p hs; exact ⟨this.2.1, this.1, this.2.2.1⟩

theorem C15_recv_timeout_values : recvTimeoutOf 0 = 0 ∧ recvTimeoutOf 10 = 15000 ∧
    ∀ k, k ≠ 0 → recvTimeoutOf k ≠ 0 :=
  ⟨rfl, rfl, recvTimeoutOf_pos⟩

-- end to end: a version-undetermined server whose previous connection used 15 s receives the
-- 14 bytes of a v3.1.1 CONNECT with keep-alive 0, resp. 10
def exConnectBytes : List Nat := [0x10, 12, 0, 4, 77, 81, 84, 84, 4, 2, 0, 10, 0, 0]
example : (step ⟨.server, 2⟩ { St.init ⟨.server, 2⟩ 0 with recvTimeoutMs := 15000 }
      (.recv exConnectBytes (fun v _ _ => .ok { ver := v, kind := .connect, keepAlive := 0 }))).ev
    = [.recv { ver := 4, kind := .connect, keepAlive := 0 }] := by decide
example : (step ⟨.server, 2⟩ { St.init ⟨.server, 2⟩ 0 with recvTimeoutMs := 15000 }
      (.recv exConnectBytes (fun v _ _ => .ok { ver := v, kind := .connect, keepAlive := 10 }))).ev
    = [.timerReset .pingreqRecv 15000, .recv { ver := 4, kind := .connect, keepAlive := 10 }] := by decide

/-- **C15 (5b)** — every handler of an inbound packet other than CONNECT (5a), CONNACK,
    PINGRESP (client side) and DISCONNECT (cancels the timers) ends in one of four ways:
    refused (`NotifyError` last), a panic site (C05), or — accepted, or answered as a QoS 2
    duplicate — the events end with the re-arm `RequestTimerReset(PingreqRecv, recv_timeout)`,
    present iff `recv_timeout ≠ 0` and the status is not `disconnected` (both as at the start
    of the call), followed by the notification if there is one. -/
theorem C15_server_rearms_on_accept (c : C) (t : Nat) (pp : Except Nat Pkt)
    (ht : t ≠ 1 ∧ t ≠ 2 ∧ t ≠ 13 ∧ t ≠ 14) :
    (∃ m e, dispatchRecv c t pp = C.err m e) ∨
    (∃ m site, dispatchRecv c t pp = C.setPanic m site) ∨
    (∃ pre tail, (tail = [] ∨ ∃ p, tail = [.recv p]) ∧
      (dispatchRecv c t pp).ev = pre ++
        (if c.s.recvTimeoutMs ≠ 0 ∧ c.s.status ≠ .disconnected
          then [.timerReset .pingreqRecv c.s.recvTimeoutMs] else []) ++ tail ∧
      (c.s.recvTimeoutMs ≠ 0 ∧ c.s.status ≠ .disconnected → (dispatchRecv c t pp).s.recvSet = true)) := by
  have ho := dispatchRecv_outcome c t pp ht
  generalize dispatchRecv c t pp = d at ho ⊢
  cases ho with
  | rejected m e => exact .inl ⟨m, e, rfl⟩
  | panic m site => exact .inr (.inl ⟨m, site, rfl⟩)
  | accepted m p h =>
    refine .inr (.inr ⟨m.ev, [.recv p], .inr ⟨p, rfl⟩, ?_, ?_⟩)
    · simp [refresh_ev, rearmRecv, h]
    · intro hc
      have hm : m.s.recvTimeoutMs ≠ 0 ∧ m.s.status ≠ .disconnected := by rw [h.2.1, h.2.2]; exact hc
      simp [refreshPingreqRecv, hm]
  | duplicate m h =>
    refine .inr (.inr ⟨m.ev, [], .inl rfl, ?_, ?_⟩)
    · simp [refresh_ev, rearmRecv, h]
    · intro hc
      have hm : m.s.recvTimeoutMs ≠ 0 ∧ m.s.status ≠ .disconnected := by rw [h.2.1, h.2.2]; exact hc
      simp [refreshPingreqRecv, hm]

-- non-vacuity: a connected server with a 15 s receive timeout receives the two bytes of PINGREQ
def exServer : St :=
  { St.init ⟨.server, 2⟩ 4 with status := .connected, recvTimeoutMs := 15000 }
example : (step ⟨.server, 2⟩ exServer (.recv [0xC0, 0x00] (fun v _ _ => .ok (mkPingreq v)))).ev
    = [.timerReset .pingreqRecv 15000, .recv (mkPingreq 4)] := by decide
example : (step ⟨.server, 2⟩ { exServer with recvTimeoutMs := 0 }
      (.recv [0xC0, 0x00] (fun v _ _ => .ok (mkPingreq v)))).ev = [.recv (mkPingreq 4)] := by decide

/-! ## 4. a client re-arms the PINGREQ timer after every packet it sends -/

/-- the interval is chosen by priority: application override, then Server Keep Alive, then the
    CONNECT keep-alive -/
theorem C15_ping_interval_priority (s : St) :
    pingInterval s = s.userInterval.getD (s.serverKeepAliveMs.getD s.keepAliveMs) := by
  unfold pingInterval; cases s.userInterval <;> cases s.serverKeepAliveMs <;> rfl

/-- what `send_post_process` does, exactly: for a client whose interval is non-zero, one
    `RequestTimerReset(PingreqSend, interval)`; otherwise nothing (0 disables) -/
theorem C15_send_post_process (c : C) :
    (sendPostProcess c).ev = c.ev ++
      (if c.s.isClient ∧ pingInterval c.s > 0 then [.timerReset .pingreqSend (pingInterval c.s)] else []) :=
  sendPostProcess_ev c

/-- **C15 (4)** — every `send` call, whatever the packet and the state, ends in one of three
    ways: (i) nothing was sent and no timer event was emitted; (ii) the connection ended
    (DISCONNECT sent / CONNACK refusing: status `disconnected`, see (2)); (iii) the call's events
    are `pre ++ re-arm` where `pre` contains no PINGREQ-timer event at all and the re-arm is
    `RequestTimerReset(PingreqSend, interval)` iff the endpoint is a client and the interval by
    priority is non-zero (state after the call; CONNECT makes the endpoint a client and sets the
    keep-alive first). -/
theorem C15_client_rearms_after_send (cfg : Cfg) (s : St) (p : Pkt) :
    (sends (step cfg s (.send p)).ev = [] ∧ tev (step cfg s (.send p)).ev = []) ∨
    (step cfg s (.send p)).s.status = .disconnected ∨
    (∃ pre, (step cfg s (.send p)).ev = pre ++ rearmSend (step cfg s (.send p)).s ∧ stev pre = []) := by
  have h := send_sendok { cfg := cfg, s := s } p
  simp only [step]
  rcases h with h | h | ⟨m, hm, hs⟩
  · exact .inl h
  · exact .inr (.inl h)
  · refine .inr (.inr ⟨m.ev, ?_, hs⟩)
    rw [hm, sendPostProcess_ev, rearmSend_spp]

/-- (4) in the form of the full statement, for the `send` calls: after every
    `RequestSendPacket` of the call a re-arm with the priority interval follows -/
theorem C15_client_rearms_after_send_partial (cfg : Cfg) (s : St) (p : Pkt)
    (pre post : List Ev) (q : Pkt) (rel : Option Nat)
    (he : (step cfg s (.send p)).ev = pre ++ .send q rel :: post)
    (hc : (step cfg s (.send p)).s.isClient = true)
    (hs : (step cfg s (.send p)).s.status ≠ .disconnected)
    (hi : pingInterval (step cfg s (.send p)).s > 0) :
    .timerReset .pingreqSend (pingInterval (step cfg s (.send p)).s) ∈ post := by
  rcases C15_client_rearms_after_send cfg s p with ⟨h, _⟩ | h | ⟨pre', h, _⟩
  · rw [he] at h; simp at h
  · exact absurd h hs
  · rw [he] at h
    simp only [rearmSend, hc, hi, and_self, if_true] at h
    rcases List.eq_nil_or_concat post with hp | ⟨post', x, hp⟩
    · subst hp
      have := List.append_inj_right' (t₁ := [Ev.send q rel]) h rfl
      simp at this
    · subst hp
      have h' : (pre ++ .send q rel :: post') ++ [x]
          = pre' ++ [.timerReset .pingreqSend (pingInterval (step cfg s (.send p)).s)] := by
        simpa using h
      have := List.append_inj_right' h' rfl
      simp at this
      simp [this]

/-- **C15 (4), the full statement** — in **every** call (not only `send`: also a received packet
    answered automatically, a received CONNACK(session present) that makes the client resend its
    stored packets, a timer expiry that sends PINGREQ), from **every** state: after every
    `RequestSendPacket` of the call a re-arm `RequestTimerReset(PingreqSend, interval)` with the
    priority interval follows, provided the endpoint ends the call as a client that is not
    disconnected with a non-zero interval.

    Before fix 999e935 this was false (finding #26: the stored packets a client resends on a
    *received* CONNACK were not followed by a re-arm — the former theorem
    `C15_client_rearms_full_false` with the `decide`d witness
    `C15_resend_on_connack_no_rearm_witness`: events `[send stored, recv connack]`); the same
    scenario is now `C15_resend_on_connack_rearm_witness` below. -/
def C15_client_rearms_full : Prop :=
  ∀ (cfg : Cfg) (s : St) (op : Op) (pre post : List Ev) (q : Pkt) (rel : Option Nat),
    (step cfg s op).ev = pre ++ .send q rel :: post →
    (step cfg s op).s.isClient = true → (step cfg s op).s.status ≠ .disconnected →
    pingInterval (step cfg s op).s > 0 →
    .timerReset .pingreqSend (pingInterval (step cfg s op).s) ∈ post

/-- fixed by 999e935: the full statement holds (`step_rs`: every path of every handler that
    requests a packet for sending ends in `send_post_process`, or leaves the endpoint
    disconnected, or is not a client's) -/
theorem C15_client_rearms_full_holds : C15_client_rearms_full := by
  intro cfg s op pre post q rel he hc hs hi
  exact step_rs cfg s op hc hs hi pre post q rel he

def exStoredPublish : Pkt := { ver := 4, kind := .publish, qos := 1, pid := some 1, dup := true, topic := [97] }
def exConnackSP : Pkt := { ver := 4, kind := .connack, rc := some 0, sp := true }

/-- a v3.1.1 client (keep-alive 10 s) that sent CONNECT with a stored QoS 1 PUBLISH -/
def exResumingClient : St :=
  { St.init ⟨.client, 2⟩ 4 with
    status := .connecting, isClient := true, keepAliveMs := 10000, needStore := true
    store := [(1, exStoredPublish)], puback := [1]
    pidMan := (Alloc.useValue (Alloc.new 1 65535 65535) 1).2 }

/-- fixed by 999e935 (was `C15_resend_on_connack_no_rearm_witness`, the refutation of
    `C15_client_rearms_full`): the retransmission on a received CONNACK(session present) is now
    followed by the re-arm of the PINGREQ timer, before the CONNACK is delivered -/
theorem C15_resend_on_connack_rearm_witness :
    (step ⟨.client, 2⟩ exResumingClient (.recv [0x20, 2, 1, 0] (fun _ _ _ => .ok exConnackSP))).ev
      = [.send exStoredPublish none, .timerReset .pingreqSend 10000, .recv exConnackSP] ∧
    (step ⟨.client, 2⟩ exResumingClient (.recv [0x20, 2, 1, 0] (fun _ _ _ => .ok exConnackSP))).s.status
      = .connected ∧
    (step ⟨.client, 2⟩ exResumingClient (.recv [0x20, 2, 1, 0] (fun _ _ _ => .ok exConnackSP))).s.sendSet
      = true ∧
    pingInterval
      (step ⟨.client, 2⟩ exResumingClient (.recv [0x20, 2, 1, 0] (fun _ _ _ => .ok exConnackSP))).s
      = 10000 := by
  decide

/-- nothing stored to resend: no re-arm is requested by the CONNACK -/
example :
    (step ⟨.client, 2⟩ { exResumingClient with store := [], puback := [] }
      (.recv [0x20, 2, 1, 0] (fun _ _ _ => .ok exConnackSP))).ev = [.recv exConnackSP] := by
  decide

-- non-vacuity of (4): override beats Server Keep Alive beats keep-alive; 0 disables
example : (step ⟨.client, 2⟩ exConnectedClient (.send (mkAck ⟨.client, 2⟩ 4 .puback 7))).ev
    = [.send (mkAck ⟨.client, 2⟩ 4 .puback 7) none, .timerReset .pingreqSend 10000] := by decide
example : (step ⟨.client, 2⟩ { exConnectedClient with serverKeepAliveMs := some 3000 }
      (.send (mkAck ⟨.client, 2⟩ 4 .puback 7))).ev
    = [.send (mkAck ⟨.client, 2⟩ 4 .puback 7) none, .timerReset .pingreqSend 3000] := by decide
example : (step ⟨.client, 2⟩ { exConnectedClient with serverKeepAliveMs := some 3000, userInterval := some 500 }
      (.send (mkAck ⟨.client, 2⟩ 4 .puback 7))).ev
    = [.send (mkAck ⟨.client, 2⟩ 4 .puback 7) none, .timerReset .pingreqSend 500] := by decide
example : (step ⟨.client, 2⟩ { exConnectedClient with serverKeepAliveMs := some 3000, userInterval := some 0 }
      (.send (mkAck ⟨.client, 2⟩ 4 .puback 7))).ev
    = [.send (mkAck ⟨.client, 2⟩ 4 .puback 7) none] := by decide

/-! ## non-vacuity of the remaining hypotheses -/

example : ∀ k, Op.closed ≠ .timer k := by intro k h; cases h
example : timersStep ⟨true, false, false⟩ ([] ++ .timerCancel .pingreqSend :: []) = some unarmed := by decide
example : anyReset (step ⟨.client, 2⟩ exConnectedClient (.send (mkAck ⟨.client, 2⟩ 4 .puback 7))).ev = true := by
  decide
example : exConnectedClient.ver = (mkPingreq 4).ver ∧ roleMaySend Role.client (mkPingreq 4) = true ∧
    (mkPingreq 4).kind = .pingreq ∧ exConnectedClient.status = .connected := by decide
example : (exV5Server 100).status = .connected ∧ (exV5Server 100).ver = 5 ∧
    exConnectedClient.ver = 4 ∧ Timer.pingreqRecv ≠ Timer.pingreqSend := by decide
example : (St.init ⟨.server, 2⟩ 5).status ≠ .connected ∧ (St.init ⟨.server, 2⟩ 5).ver = 5 := by decide
example : ({ cfg := ⟨.server, 2⟩, s := St.init ⟨.server, 2⟩ 4 } : C).s.status = .disconnected := by decide
example : (12 : Nat) ≠ 1 ∧ (12 : Nat) ≠ 2 ∧ (12 : Nat) ≠ 13 ∧ (12 : Nat) ≠ 14 := by decide
example :
    (step ⟨.client, 2⟩ exConnectedClient (.send (mkAck ⟨.client, 2⟩ 4 .puback 7))).ev
      = [] ++ .send (mkAck ⟨.client, 2⟩ 4 .puback 7) none :: [.timerReset .pingreqSend 10000] ∧
    (step ⟨.client, 2⟩ exConnectedClient (.send (mkAck ⟨.client, 2⟩ 4 .puback 7))).s.isClient = true ∧
    (step ⟨.client, 2⟩ exConnectedClient (.send (mkAck ⟨.client, 2⟩ 4 .puback 7))).s.status ≠ .disconnected ∧
    pingInterval (step ⟨.client, 2⟩ exConnectedClient (.send (mkAck ⟨.client, 2⟩ 4 .puback 7))).s > 0 := by
  decide

end MqttVerif.Conn
