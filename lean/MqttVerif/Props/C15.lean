import MqttVerif.Conn.Lemmas.TimersAccept
import MqttVerif.Conn.Lemmas.TimersSend
import MqttVerif.Conn.Lemmas.TimersRearm
import MqttVerif.Conn.Lemmas.SrvMs3
/-!
# C15 — keep-alive timer requests are consistent and complete

Model: `Conn.step` (L2).  Ghost state: `Mon.Armed`, maintained from the *events* of each call by
`Mon.timersStep` (`RequestTimerReset k` arms, `RequestTimerCancel k` requires armed and clears);
a fired timer is no longer armed when `notify_timer_fired` starts (`startArmed`).
`flagsOf s` = the model's own `pingreq_send_set / pingreq_recv_set / pingresp_recv_set`.

Section 8: the driver monitor `C15 no_recv_rearm` (ghost `srvMs`) as a theorem of the model; its
lemma files `Conn/Lemmas/SrvMs*.lean` live in their own namespace `SrvMs`.

All theorems are for **every** configuration, state, operation (a `recv` carries arbitrary bytes
and an arbitrary parser) and operation sequence; none is restricted to reachable states unless
it says `Reachable`.
-/
set_option linter.unusedSimpArgs false
set_option linter.unusedVariables false
namespace MqttVerif.Conn
open MqttVerif Mon

/-! ## 1. the timer events of every call are consistent with, and account for, the flags -/

/-- **C15 (1)** — for every state and every call: folding the call's timer events over the
    ghost flags (= the model flags before the call, minus the fired timer for a `.timer k` call)
    never meets a cancel of an unarmed timer, and ends exactly in the model flags after the
    call. -/
theorem C15_events_match_flags (cfg : Cfg) (s : St) (op : Op) :
    timersStep (startArmed s op) (step cfg s op).ev = some (flagsOf (step cfg s op).s) := by
  rw [← timersStep_tev]; exact (step_inv cfg s op).g

/-- (1) for the calls that are not a timer expiry: start from the flags themselves -/
theorem C15_events_match_flags_nontimer (cfg : Cfg) (s : St) (op : Op) (h : ∀ k, op ≠ .timer k) :
    timersStep (flagsOf s) (step cfg s op).ev = some (flagsOf (step cfg s op).s) := by
  have := C15_events_match_flags cfg s op
  cases op <;> simp_all [startArmed]

/-- (1) for a timer expiry: the fired timer counts as not armed -/
theorem C15_events_match_flags_timer (cfg : Cfg) (s : St) (k : Timer) :
    timersStep ((flagsOf s).set k false) (step cfg s (.timer k)).ev
      = some (flagsOf (step cfg s (.timer k)).s) :=
  C15_events_match_flags cfg s (.timer k)

/-- a successful fold means: at every `RequestTimerCancel k` the ghost flag of `k` was set -/
theorem timersStep_cancel_armed (a r : Armed) (pre post : List Ev) (k : Timer)
    (h : timersStep a (pre ++ .timerCancel k :: post) = some r) :
    ∃ b, timersStep a pre = some b ∧ b.get k = true := by
  rw [timersStep_append] at h
  cases hb : timersStep a pre with
  | none => simp [hb] at h
  | some b =>
    refine ⟨b, rfl, ?_⟩
    simp only [hb, Option.bind_some, timersStep] at h
    by_cases hk : b.get k = true
    · exact hk
    · simp [hk] at h

/-- **C15 (1a), cancel only armed** — wherever a call emits `RequestTimerCancel k`, the timer
    `k` is armed at that point according to the events seen so far. -/
theorem C15_cancel_only_armed (cfg : Cfg) (s : St) (op : Op) (pre post : List Ev) (k : Timer)
    (h : (step cfg s op).ev = pre ++ .timerCancel k :: post) :
    ∃ b, timersStep (startArmed s op) pre = some b ∧ b.get k = true :=
  timersStep_cancel_armed _ _ pre post k (h ▸ C15_events_match_flags cfg s op)

/-- the monitor form evaluated by the driver: the fold never fails -/
theorem C15_cancel_only_armed_mon (cfg : Cfg) (s : St) (op : Op) :
    timersStep (startArmed s op) (step cfg s op).ev ≠ none := by
  rw [C15_events_match_flags]; simp

-- non-vacuity of the hypothesis of `C15_cancel_only_armed`: a call that emits a cancel
example : (step ⟨.client, 2⟩ { St.init ⟨.client, 2⟩ 4 with sendSet := true } .closed).ev
    = [] ++ .timerCancel .pingreqSend :: [] := by decide

/-- the ghost flags an observer computes from the events of a whole history (`none` = some
    call cancelled an unarmed timer) -/
def fired (a : Armed) : Op → Armed
  | .timer k => a.set k false
  | _ => a

def ghostRun (cfg : Cfg) : St → Armed → List Op → Option Armed
  | _, a, [] => some a
  | s, a, op :: ops =>
    match timersStep (fired a op) (step cfg s op).ev with
    | none => none
    | some a' => ghostRun cfg (step cfg s op).s a' ops

/-- **C15 (1b)** — along any operation sequence from any state, the ghost flags computed from
    the events alone always equal the model's flags: the flags are a faithful account of what
    the application has been told. -/
theorem C15_ghost_equals_flags (cfg : Cfg) (s : St) (ops : List Op) :
    ghostRun cfg s (flagsOf s) ops = some (flagsOf (run cfg s ops)) := by
  induction ops generalizing s with
  | nil => rfl
  | cons op ops ih =>
    have h := C15_events_match_flags cfg s op
    have e : fired (flagsOf s) op = startArmed s op := by cases op <;> rfl
    simp only [ghostRun, run, e, h]
    exact ih _

/-- (1b) from a fresh connection object: nothing armed initially -/
theorem C15_ghost_equals_flags_init (cfg : Cfg) (ver : Nat) (ops : List Op) :
    ghostRun cfg (St.init cfg ver) unarmed ops = some (flagsOf (run cfg (St.init cfg ver) ops)) :=
  C15_ghost_equals_flags cfg (St.init cfg ver) ops

/-! ## 2. disconnected means unarmed -/

/-- **C15 (2), step form** — `status = disconnected → no timer armed` is preserved by every
    call from every state; no side condition on the operation (in particular a `.timer k` for a
    timer that is not armed, and `setInterval`, are covered). -/
theorem C15_disconnected_means_unarmed_step (cfg : Cfg) (s : St) (op : Op) (h : DU s) :
    DU (step cfg s op).s :=
  (step_inv cfg s op).d h

theorem C15_disconnected_means_unarmed_run (cfg : Cfg) (s : St) (ops : List Op) (h : DU s) :
    DU (run cfg s ops) := by
  induction ops generalizing s with
  | nil => exact h
  | cons op ops ih => exact ih _ (C15_disconnected_means_unarmed_step cfg s op h)

/-- **C15 (2)** — in every reachable state: if the status is `disconnected` (the transport was
    reported closed, a DISCONNECT was sent, a CONNACK refused the connection, or no connection
    was ever made) no timer is armed. -/
theorem C15_disconnected_means_unarmed (cfg : Cfg) (ver : Nat) (s : St) (h : Reachable cfg ver s) :
    s.status = .disconnected → flagsOf s = unarmed := by
  obtain ⟨ops, rfl⟩ := h
  exact C15_disconnected_means_unarmed_run cfg _ ops (fun _ => rfl)

-- non-vacuity: a non-initial state with armed timers satisfies `DU`, and a reachable one
example : DU { St.init ⟨.client, 2⟩ 4 with status := .connected, sendSet := true, respSet := true } := by
  decide
example : Reachable ⟨.client, 2⟩ 4 (run ⟨.client, 2⟩ (St.init ⟨.client, 2⟩ 4)
    [.send { ver := 4, kind := .connect, keepAlive := 10 }]) := ⟨_, rfl⟩

/-- whatever the state, after `notify_closed` the status is `disconnected` and nothing is armed -/
theorem C15_closed_unarms (cfg : Cfg) (s : St) :
    (step cfg s .closed).s.status = .disconnected ∧ flagsOf (step cfg s .closed).s = unarmed := by
  simp [step, notifyClosed_eq, flagsOf, unarmed]

/-- a `send` of a DISCONNECT either is refused with a single `NotifyError` (state unchanged), or
    cancels exactly the armed timers, sends the packet, requests the close, and leaves the
    endpoint `disconnected` with nothing armed -/
theorem C15_disconnect_sent_unarms (cfg : Cfg) (s : St) (p : Pkt) (hk : p.kind = .disconnect) :
    (∃ e, step cfg s (.send p) = C.err { cfg := cfg, s := s } e) ∨
    ((step cfg s (.send p)).s.status = .disconnected ∧ flagsOf (step cfg s (.send p)).s = unarmed ∧
     (step cfg s (.send p)).ev = cancelEvs (flagsOf s) ++ [.send p none, .close]) := by
  have href : ∀ (c : C) (e : Nat), refuseSend c e p = c.err e := by
    intro c e; simp [refuseSend, initiatingId, hk]
  simp only [step, send]
  split
  · exact .inl ⟨_, href _ _⟩
  split
  · exact .inl ⟨_, href _ _⟩
  simp only [processSend, hk]
  split
  · unfold psV3Disconnect
    split
    · exact .inl ⟨_, rfl⟩
    · refine .inr ⟨by simp, by simp [flagsOf, unarmed], ?_⟩
      simp [cancelTimers_ev, flagsOf]
  · unfold psV5Disconnect
    split
    · exact .inl ⟨_, rfl⟩
    split
    · exact .inl ⟨_, rfl⟩
    · refine .inr ⟨by simp, by simp [flagsOf, unarmed], ?_⟩
      simp [cancelTimers_ev, flagsOf]

example : (step ⟨.client, 2⟩ { St.init ⟨.client, 2⟩ 4 with status := .connected, sendSet := true, respSet := true }
      (.send { ver := 4, kind := .disconnect, size := 2 })).ev
    = [.timerCancel .pingreqSend, .timerCancel .pingrespRecv,
       .send { ver := 4, kind := .disconnect, size := 2 } none, .close] := by decide

/-! ## 3. no arming while disconnected -/

/-- **C15 (3), strong form** — a call (local or `recv` of arbitrary bytes) that emits any
    `RequestTimerReset` does not end in status `disconnected`. -/
theorem C15_arming_call_not_disconnected (cfg : Cfg) (s : St) (op : Op)
    (h : anyReset (step cfg s op).ev = true) : (step cfg s op).s.status ≠ .disconnected :=
  (step_inv cfg s op).n (by rw [anyReset_tev]; exact h)

/-- **C15 (3)** — if the status is `disconnected` before and after a call, the call emits no
    `RequestTimerReset` (every op, including arbitrary received bytes). -/
theorem C15_no_arming_while_disconnected (cfg : Cfg) (s : St) (op : Op)
    (h : s.status = .disconnected) (h' : (step cfg s op).s.status = .disconnected) :
    anyReset (step cfg s op).ev = false := by
  cases hr : anyReset (step cfg s op).ev with
  | false => rfl
  | true => exact absurd h' (C15_arming_call_not_disconnected cfg s op hr)

-- non-vacuity: a client with a persistent session queues a PUBREL while disconnected (the
-- scenario of finding #14): status stays `disconnected`, and the theorem says nothing is armed
def exOfflineClient : St :=
  { St.init ⟨.client, 2⟩ 4 with
    needStore := true, isClient := true, keepAliveMs := 10000
    pidMan := (Alloc.useValue (Alloc.new 1 65535 65535) 1).2 }

example :
    exOfflineClient.status = .disconnected ∧
    (step ⟨.client, 2⟩ exOfflineClient (.send { ver := 4, kind := .pubrel, pid := some 1 })).s.status
      = .disconnected ∧
    (step ⟨.client, 2⟩ exOfflineClient (.send { ver := 4, kind := .pubrel, pid := some 1 })).s.pubcomp = [1] := by
  decide

/-! ## 6. PINGREQ arms the response timer, PINGRESP cancels it -/

/-- a `send` of a PINGREQ that passes the version and role checks is `process_send_*_pingreq` -/
theorem step_send_pingreq (cfg : Cfg) (s : St) (p : Pkt) (hv : s.ver = p.ver)
    (hr : roleMaySend cfg.role p = true) (hk : p.kind = .pingreq) :
    step cfg s (.send p) = psPingreq { cfg := cfg, s := s } p := by
  simp only [step, send, hv, hr, processSend, hk]
  simp

/-- **C15 (6a)** — an accepted PINGREQ (connected; for v5.0 within the peer's Maximum Packet
    Size) emits exactly: the packet, `RequestTimerReset(PingrespRecv, pingresp_recv_timeout_ms)`
    iff that timeout is non-zero, then the client's PINGREQ-timer re-arm. -/
theorem C15_pingreq_arms_response_timer (cfg : Cfg) (s : St) (p : Pkt) (hv : s.ver = p.ver)
    (hr : roleMaySend cfg.role p = true) (hk : p.kind = .pingreq)
    (hsz : p.ver = 5 → p.size ≤ s.mpsSend) (hs : s.status = .connected) :
    (step cfg s (.send p)).ev = [.send p none] ++ armResp s ++ rearmSend s ∧
    (step cfg s (.send p)).s.respSet = (s.respSet || decide (s.respTimeoutMs ≠ 0)) ∧
    (∀ ms, .timerReset .pingrespRecv ms ∈ (step cfg s (.send p)).ev ↔
      (s.respTimeoutMs ≠ 0 ∧ ms = s.respTimeoutMs)) := by
  rw [step_send_pingreq cfg s p hv hr hk]
  have hz : p.ver = 5 → sizeOk { cfg := cfg, s := s } p = true := by
    intro h5; exact (sizeOk_small _ _ (by simp [hk])).2 (hsz h5)
  obtain ⟨h1, h2, _⟩ := psPingreq_accepted { cfg := cfg, s := s } p hz hs
  refine ⟨by simpa using h1, h2, ?_⟩
  intro ms
  rw [h1]
  unfold armResp rearmSend
  by_cases h0 : s.respTimeoutMs = 0 <;> by_cases hc : s.isClient = true ∧ pingInterval s > 0 <;>
    simp [h0, hc] <;> omega

-- non-vacuity: a connected v3.1.1 client with a 5 s response timeout and keep-alive 10 s
def exConnectedClient : St :=
  { St.init ⟨.client, 2⟩ 4 with
    status := .connected, isClient := true, keepAliveMs := 10000, respTimeoutMs := 5000 }

example : (step ⟨.client, 2⟩ exConnectedClient (.send (mkPingreq 4))).ev
    = [.send (mkPingreq 4) none, .timerReset .pingrespRecv 5000, .timerReset .pingreqSend 10000] := by
  decide

/-- **C15 (6b)** — a received PINGRESP emits `RequestTimerCancel(PingrespRecv)` iff the response
    timer is armed, then the notification; afterwards the response timer is not armed. -/
theorem C15_pingresp_cancels (c : C) (p : Pkt) :
    (dispatchRecv c 13 (.ok p)).ev
      = c.ev ++ (if c.s.respSet then [.timerCancel .pingrespRecv] else []) ++ [.recv p] ∧
    (dispatchRecv c 13 (.ok p)).s.respSet = false := by
  have := prPingresp_ok c p
  exact ⟨this.1, this.2.1⟩

-- end to end through the framing layer: the two bytes of a PINGRESP
example : (step ⟨.client, 2⟩ { exConnectedClient with respSet := true }
      (.recv [0xD0, 0x00] (fun v _ _ => .ok (mkPingresp v)))).ev
    = [.timerCancel .pingrespRecv, .recv (mkPingresp 4)] := by
  decide

/-! ## 7. the effect of each expiry -/

/-- **C15 (7a)** — PINGREQ-send timer fires on an established v3.1.1 connection: a PINGREQ is
    sent (and the response timer and the PINGREQ timer are armed as for any PINGREQ). -/
theorem C15_expiry_pingreq_send_v3 (cfg : Cfg) (s : St) (hs : s.status = .connected) (hv : s.ver = 4) :
    (step cfg s (.timer .pingreqSend)).ev = [.send (mkPingreq 4) none] ++ armResp s ++ rearmSend s := by
  have e : step cfg s (.timer .pingreqSend)
      = psPingreq { cfg := cfg, s := { s with sendSet := false } } (mkPingreq 4) := by
    simp [step, notifyTimerFired, hs, hv]
  rw [e]
  exact (psPingreq_accepted _ _ (by simp [mkPingreq]) hs).1

/-- **C15 (7a)**, v5.0: the PINGREQ is sent when its two bytes fit the peer's Maximum Packet
    Size, otherwise the call reports `PacketTooLarge` and nothing else. -/
theorem C15_expiry_pingreq_send_v5 (cfg : Cfg) (s : St) (hs : s.status = .connected) (hv : s.ver = 5) :
    (step cfg s (.timer .pingreqSend)).ev =
      if 2 ≤ s.mpsSend then [.send (mkPingreq 5) none] ++ armResp s ++ rearmSend s
      else [.error eTooLarge] := by
  have e : step cfg s (.timer .pingreqSend)
      = psPingreq { cfg := cfg, s := { s with sendSet := false } } (mkPingreq 5) := by
    simp [step, notifyTimerFired, hs, hv]
  rw [e]
  have hz := sizeOk_small { cfg := cfg, s := { s with sendSet := false } } (mkPingreq 5) (by simp [mkPingreq])
  by_cases hm : 2 ≤ s.mpsSend
  · rw [if_pos hm]
    exact (psPingreq_accepted _ _ (fun _ => hz.2 hm) hs).1
  · rw [if_neg hm]
    have hz' : sizeOk { cfg := cfg, s := { s with sendSet := false } } (mkPingreq 5) = false := by
      cases h : sizeOk { cfg := cfg, s := { s with sendSet := false } } (mkPingreq 5) with
      | false => rfl
      | true => exact absurd (hz.1 h) hm
    unfold psPingreq
    rw [if_pos ⟨rfl, by rw [hz']; rfl⟩]
    rfl

/-- **C15 (7a)**, not connected: the expiry only clears the flag -/
theorem C15_expiry_pingreq_send_not_connected (cfg : Cfg) (s : St) (hs : s.status ≠ .connected) :
    (step cfg s (.timer .pingreqSend)).ev = [] ∧
    (step cfg s (.timer .pingreqSend)).s = { s with sendSet := false } := by
  simp [step, notifyTimerFired, hs]

/-- **C15 (7b)** — a receive-side timeout (PINGREQ not received / PINGRESP not received) on a
    v3.1.1 connection: exactly a close request. -/
theorem C15_expiry_timeout_v3 (cfg : Cfg) (s : St) (k : Timer) (hk : k ≠ .pingreqSend) (hv : s.ver = 4) :
    (step cfg s (.timer k)).ev = [.close] := by
  cases k
  · exact absurd rfl hk
  · simp [step, notifyTimerFired, hv]
  · simp [step, notifyTimerFired, hv]

/-- **C15 (7b)**, v5.0 on an established connection: the remaining timers are cancelled, a
    DISCONNECT with reason 0x8D (Keep Alive timeout) is sent if its three bytes fit the peer's
    Maximum Packet Size, and the close is requested either way; the connection ends
    disconnected with nothing armed. -/
theorem C15_expiry_timeout_v5 (cfg : Cfg) (s : St) (k : Timer) (hk : k ≠ .pingreqSend) (hv : s.ver = 5)
    (hs : s.status = .connected) :
    (step cfg s (.timer k)).ev = cancelEvs ((flagsOf s).set k false) ++
      (if 3 ≤ s.mpsSend then [.send (mkV5Disconnect 141) none, .close] else [.close]) ∧
    (step cfg s (.timer k)).s.status = .disconnected ∧
    flagsOf (step cfg s (.timer k)).s = unarmed := by
  cases k
  · exact absurd rfl hk
  · have e : step cfg s (.timer .pingreqRecv)
        = v5DisconnectOrClose { cfg := cfg, s := { s with recvSet := false } } (mkV5Disconnect eKeepAliveTimeout) := by
      simp [step, notifyTimerFired, hv, hs]
    rw [e]
    have hz := sizeOk_small { cfg := cfg, s := { s with recvSet := false } } (mkV5Disconnect eKeepAliveTimeout)
      (by simp [mkV5Disconnect])
    obtain ⟨h1, h2, h3⟩ := v5DisconnectOrClose_connected { cfg := cfg, s := { s with recvSet := false } }
      (mkV5Disconnect eKeepAliveTimeout) hs
    refine ⟨?_, h2, h3⟩
    rw [h1]
    by_cases hm : 3 ≤ s.mpsSend
    · rw [if_pos hm, if_pos (hz.2 hm)]; rfl
    · rw [if_neg hm, if_neg (fun h => hm (hz.1 h))]; rfl
  · have e : step cfg s (.timer .pingrespRecv)
        = v5DisconnectOrClose { cfg := cfg, s := { s with respSet := false } } (mkV5Disconnect eKeepAliveTimeout) := by
      simp [step, notifyTimerFired, hv, hs]
    rw [e]
    have hz := sizeOk_small { cfg := cfg, s := { s with respSet := false } } (mkV5Disconnect eKeepAliveTimeout)
      (by simp [mkV5Disconnect])
    obtain ⟨h1, h2, h3⟩ := v5DisconnectOrClose_connected { cfg := cfg, s := { s with respSet := false } }
      (mkV5Disconnect eKeepAliveTimeout) hs
    refine ⟨?_, h2, h3⟩
    rw [h1]
    by_cases hm : 3 ≤ s.mpsSend
    · rw [if_pos hm, if_pos (hz.2 hm)]; rfl
    · rw [if_neg hm, if_neg (fun h => hm (hz.1 h))]; rfl

/-- **C15 (7b)**, v5.0 while not connected: the expiry only clears the flag -/
theorem C15_expiry_timeout_v5_not_connected (cfg : Cfg) (s : St) (k : Timer) (hk : k ≠ .pingreqSend)
    (hv : s.ver = 5) (hs : s.status ≠ .connected) :
    (step cfg s (.timer k)).ev = [] ∧ flagsOf (step cfg s (.timer k)).s = (flagsOf s).set k false := by
  cases k
  · exact absurd rfl hk
  · simp [step, notifyTimerFired, hv, hs, flagsOf, Armed.set]
  · simp [step, notifyTimerFired, hv, hs, flagsOf, Armed.set]

-- non-vacuity of (7): v5.0 server, PINGREQ-receive timeout, with and without room for DISCONNECT
def exV5Server (mps : Nat) : St :=
  { St.init ⟨.server, 2⟩ 5 with
    status := .connected, recvSet := true, recvTimeoutMs := 15000, mpsSend := mps, respSet := true }

example : (step ⟨.server, 2⟩ (exV5Server 100) (.timer .pingreqRecv)).ev
    = [.timerCancel .pingrespRecv, .send (mkV5Disconnect 141) none, .close] := by decide
example : (step ⟨.server, 2⟩ (exV5Server 2) (.timer .pingreqRecv)).ev
    = [.timerCancel .pingrespRecv, .close] := by decide
example : (step ⟨.server, 2⟩ (exV5Server 1) (.timer .pingreqSend)).ev = [.error eTooLarge] := by decide
example : (step ⟨.client, 2⟩ exConnectedClient (.timer .pingrespRecv)).ev = [.close] := by decide
example : (step ⟨.client, 2⟩ exConnectedClient (.timer .pingreqSend)).ev
    = [.send (mkPingreq 4) none, .timerReset .pingrespRecv 5000, .timerReset .pingreqSend 10000] := by decide

/-! ## 5. a server re-arms the 1.5 × keep-alive receive timer on every packet it accepts -/

/-- **C15 (5a)** — a CONNECT received while disconnected sets the receive timeout to
    1.5 × keep-alive (ms) — 0 for keep-alive 0, whatever an earlier connection used, because
    `initialize` resets it (finding #3) — and arms the timer iff keep-alive ≠ 0. -/
theorem C15_connect_sets_recv_timeout (c : C) (p : Pkt) (hs : c.s.status = .disconnected) :
    (dispatchRecv c 1 (.ok p)).s.recvTimeoutMs = recvTimeoutOf p.keepAlive ∧
    (dispatchRecv c 1 (.ok p)).ev = c.ev ++
      (if p.keepAlive ≠ 0 then [.timerReset .pingreqRecv (recvTimeoutOf p.keepAlive)] else []) ++ [.recv p] ∧
    (dispatchRecv c 1 (.ok p)).s.status = .connecting := by
  simp only [dispatchRecv]
  split
  · have := prV3Connect_ok c p hs; exact ⟨this.2.1, this.1, this.2.2.1⟩
  · have := prV5Connect_ok c p hs; exact ⟨this.2.1, this.1, this.2.2.1⟩

theorem C15_recv_timeout_values : recvTimeoutOf 0 = 0 ∧ recvTimeoutOf 10 = 15000 ∧
    ∀ k, k ≠ 0 → recvTimeoutOf k ≠ 0 :=
  ⟨rfl, rfl, recvTimeoutOf_pos⟩

-- end to end: a version-undetermined server whose previous connection used 15 s receives the
-- 14 bytes of a v3.1.1 CONNECT with keep-alive 0, resp. 10
def exConnectBytes : List Nat := [0x10, 12, 0, 4, 77, 81, 84, 84, 4, 2, 0, 10, 0, 0]
example : (step ⟨.server, 2⟩ { St.init ⟨.server, 2⟩ 0 with recvTimeoutMs := 15000 }
      (.recv exConnectBytes (fun v _ _ => .ok { ver := v, kind := .connect, keepAlive := 0 }))).ev
    = [.recv { ver := 4, kind := .connect, keepAlive := 0 }] := by decide
example : (step ⟨.server, 2⟩ { St.init ⟨.server, 2⟩ 0 with recvTimeoutMs := 15000 }
      (.recv exConnectBytes (fun v _ _ => .ok { ver := v, kind := .connect, keepAlive := 10 }))).ev
    = [.timerReset .pingreqRecv 15000, .recv { ver := 4, kind := .connect, keepAlive := 10 }] := by decide

/-- **C15 (5b)** — every handler of an inbound packet other than CONNECT (5a), CONNACK,
    PINGRESP (client side) and DISCONNECT (cancels the timers) ends in one of four ways:
    refused (`NotifyError` last), a panic site (C05), or — accepted, or answered as a QoS 2
    duplicate — the events end with the re-arm `RequestTimerReset(PingreqRecv, recv_timeout)`,
    present iff `recv_timeout ≠ 0` and the status is not `disconnected` (both as at the start
    of the call), followed by the notification if there is one. -/
theorem C15_server_rearms_on_accept (c : C) (t : Nat) (pp : Except Nat Pkt)
    (ht : t ≠ 1 ∧ t ≠ 2 ∧ t ≠ 13 ∧ t ≠ 14) :
    (∃ m e, dispatchRecv c t pp = C.err m e) ∨
    (∃ m site, dispatchRecv c t pp = C.setPanic m site) ∨
    (∃ pre tail, (tail = [] ∨ ∃ p, tail = [.recv p]) ∧
      (dispatchRecv c t pp).ev = pre ++
        (if c.s.recvTimeoutMs ≠ 0 ∧ c.s.status ≠ .disconnected
          then [.timerReset .pingreqRecv c.s.recvTimeoutMs] else []) ++ tail ∧
      (c.s.recvTimeoutMs ≠ 0 ∧ c.s.status ≠ .disconnected → (dispatchRecv c t pp).s.recvSet = true)) := by
  have ho := dispatchRecv_outcome c t pp ht
  generalize dispatchRecv c t pp = d at ho ⊢
  cases ho with
  | rejected m e => exact .inl ⟨m, e, rfl⟩
  | panic m site => exact .inr (.inl ⟨m, site, rfl⟩)
  | accepted m p h =>
    refine .inr (.inr ⟨m.ev, [.recv p], .inr ⟨p, rfl⟩, ?_, ?_⟩)
    · simp [refresh_ev, rearmRecv, h]
    · intro hc
      have hm : m.s.recvTimeoutMs ≠ 0 ∧ m.s.status ≠ .disconnected := by rw [h.2.1, h.2.2]; exact hc
      simp [refreshPingreqRecv, hm]
  | duplicate m h =>
    refine .inr (.inr ⟨m.ev, [], .inl rfl, ?_, ?_⟩)
    · simp [refresh_ev, rearmRecv, h]
    · intro hc
      have hm : m.s.recvTimeoutMs ≠ 0 ∧ m.s.status ≠ .disconnected := by rw [h.2.1, h.2.2]; exact hc
      simp [refreshPingreqRecv, hm]

-- non-vacuity: a connected server with a 15 s receive timeout receives the two bytes of PINGREQ
def exServer : St :=
  { St.init ⟨.server, 2⟩ 4 with status := .connected, recvTimeoutMs := 15000 }
example : (step ⟨.server, 2⟩ exServer (.recv [0xC0, 0x00] (fun v _ _ => .ok (mkPingreq v)))).ev
    = [.timerReset .pingreqRecv 15000, .recv (mkPingreq 4)] := by decide
example : (step ⟨.server, 2⟩ { exServer with recvTimeoutMs := 0 }
      (.recv [0xC0, 0x00] (fun v _ _ => .ok (mkPingreq v)))).ev = [.recv (mkPingreq 4)] := by decide

/-! ## 4. a client re-arms the PINGREQ timer after every packet it sends -/

/-- the interval is chosen by priority: application override, then Server Keep Alive, then the
    CONNECT keep-alive -/
theorem C15_ping_interval_priority (s : St) :
    pingInterval s = s.userInterval.getD (s.serverKeepAliveMs.getD s.keepAliveMs) := by
  unfold pingInterval; cases s.userInterval <;> cases s.serverKeepAliveMs <;> rfl

/-- what `send_post_process` does, exactly: for a client whose interval is non-zero, one
    `RequestTimerReset(PingreqSend, interval)`; otherwise nothing (0 disables) -/
theorem C15_send_post_process (c : C) :
    (sendPostProcess c).ev = c.ev ++
      (if c.s.isClient ∧ pingInterval c.s > 0 then [.timerReset .pingreqSend (pingInterval c.s)] else []) :=
  sendPostProcess_ev c

/-- **C15 (4)** — every `send` call, whatever the packet and the state, ends in one of three
    ways: (i) nothing was sent and no timer event was emitted; (ii) the connection ended
    (DISCONNECT sent / CONNACK refusing: status `disconnected`, see (2)); (iii) the call's events
    are `pre ++ re-arm` where `pre` contains no PINGREQ-timer event at all and the re-arm is
    `RequestTimerReset(PingreqSend, interval)` iff the endpoint is a client and the interval by
    priority is non-zero (state after the call; CONNECT makes the endpoint a client and sets the
    keep-alive first). -/
theorem C15_client_rearms_after_send (cfg : Cfg) (s : St) (p : Pkt) :
    (sends (step cfg s (.send p)).ev = [] ∧ tev (step cfg s (.send p)).ev = []) ∨
    (step cfg s (.send p)).s.status = .disconnected ∨
    (∃ pre, (step cfg s (.send p)).ev = pre ++ rearmSend (step cfg s (.send p)).s ∧ stev pre = []) := by
  have h := send_sendok { cfg := cfg, s := s } p
  simp only [step]
  rcases h with h | h | ⟨m, hm, hs⟩
  · exact .inl h
  · exact .inr (.inl h)
  · refine .inr (.inr ⟨m.ev, ?_, hs⟩)
    rw [hm, sendPostProcess_ev, rearmSend_spp]

/-- (4) in the form of the full statement, for the `send` calls: after every
    `RequestSendPacket` of the call a re-arm with the priority interval follows -/
theorem C15_client_rearms_after_send_partial (cfg : Cfg) (s : St) (p : Pkt)
    (pre post : List Ev) (q : Pkt) (rel : Option Nat)
    (he : (step cfg s (.send p)).ev = pre ++ .send q rel :: post)
    (hc : (step cfg s (.send p)).s.isClient = true)
    (hs : (step cfg s (.send p)).s.status ≠ .disconnected)
    (hi : pingInterval (step cfg s (.send p)).s > 0) :
    .timerReset .pingreqSend (pingInterval (step cfg s (.send p)).s) ∈ post := by
  rcases C15_client_rearms_after_send cfg s p with ⟨h, _⟩ | h | ⟨pre', h, _⟩
  · rw [he] at h; simp at h
  · exact absurd h hs
  · rw [he] at h
    simp only [rearmSend, hc, hi, and_self, if_true] at h
    rcases List.eq_nil_or_concat post with hp | ⟨post', x, hp⟩
    · subst hp
      have := List.append_inj_right' (t₁ := [Ev.send q rel]) h rfl
      simp at this
    · subst hp
      have h' : (pre ++ .send q rel :: post') ++ [x]
          = pre' ++ [.timerReset .pingreqSend (pingInterval (step cfg s (.send p)).s)] := by
        simpa using h
      have := List.append_inj_right' h' rfl
      simp at this
      simp [this]

/-- **C15 (4), the full statement** — in **every** call (not only `send`: also a received packet
    answered automatically, a received CONNACK(session present) that makes the client resend its
    stored packets, a timer expiry that sends PINGREQ), from **every** state: after every
    `RequestSendPacket` of the call a re-arm `RequestTimerReset(PingreqSend, interval)` with the
    priority interval follows, provided the endpoint ends the call as a client that is not
    disconnected with a non-zero interval.

    Before fix 999e935 this was false (finding #26: the stored packets a client resends on a
    *received* CONNACK were not followed by a re-arm — the former theorem
    `C15_client_rearms_full_false` with the `decide`d witness
    `C15_resend_on_connack_no_rearm_witness`: events `[send stored, recv connack]`); the same
    scenario is now `C15_resend_on_connack_rearm_witness` below. -/
def C15_client_rearms_full : Prop :=
  ∀ (cfg : Cfg) (s : St) (op : Op) (pre post : List Ev) (q : Pkt) (rel : Option Nat),
    (step cfg s op).ev = pre ++ .send q rel :: post →
    (step cfg s op).s.isClient = true → (step cfg s op).s.status ≠ .disconnected →
    pingInterval (step cfg s op).s > 0 →
    .timerReset .pingreqSend (pingInterval (step cfg s op).s) ∈ post

/-- fixed by 999e935: the full statement holds (`step_rs`: every path of every handler that
    requests a packet for sending ends in `send_post_process`, or leaves the endpoint
    disconnected, or is not a client's) -/
theorem C15_client_rearms_full_holds : C15_client_rearms_full := by
  intro cfg s op pre post q rel he hc hs hi
  exact step_rs cfg s op hc hs hi pre post q rel he

def exStoredPublish : Pkt := { ver := 4, kind := .publish, qos := 1, pid := some 1, dup := true, topic := [97] }
def exConnackSP : Pkt := { ver := 4, kind := .connack, rc := some 0, sp := true }

/-- a v3.1.1 client (keep-alive 10 s) that sent CONNECT with a stored QoS 1 PUBLISH -/
def exResumingClient : St :=
  { St.init ⟨.client, 2⟩ 4 with
    status := .connecting, isClient := true, keepAliveMs := 10000, needStore := true
    store := [(1, exStoredPublish)], puback := [1]
    pidMan := (Alloc.useValue (Alloc.new 1 65535 65535) 1).2 }

/-- fixed by 999e935 (was `C15_resend_on_connack_no_rearm_witness`, the refutation of
    `C15_client_rearms_full`): the retransmission on a received CONNACK(session present) is now
    followed by the re-arm of the PINGREQ timer, before the CONNACK is delivered -/
theorem C15_resend_on_connack_rearm_witness :
    (step ⟨.client, 2⟩ exResumingClient (.recv [0x20, 2, 1, 0] (fun _ _ _ => .ok exConnackSP))).ev
      = [.send exStoredPublish none, .timerReset .pingreqSend 10000, .recv exConnackSP] ∧
    (step ⟨.client, 2⟩ exResumingClient (.recv [0x20, 2, 1, 0] (fun _ _ _ => .ok exConnackSP))).s.status
      = .connected ∧
    (step ⟨.client, 2⟩ exResumingClient (.recv [0x20, 2, 1, 0] (fun _ _ _ => .ok exConnackSP))).s.sendSet
      = true ∧
    pingInterval
      (step ⟨.client, 2⟩ exResumingClient (.recv [0x20, 2, 1, 0] (fun _ _ _ => .ok exConnackSP))).s
      = 10000 := by
  decide

/-- nothing stored to resend: no re-arm is requested by the CONNACK -/
example :
    (step ⟨.client, 2⟩ { exResumingClient with store := [], puback := [] }
      (.recv [0x20, 2, 1, 0] (fun _ _ _ => .ok exConnackSP))).ev = [.recv exConnackSP] := by
  decide

-- non-vacuity of (4): override beats Server Keep Alive beats keep-alive; 0 disables
example : (step ⟨.client, 2⟩ exConnectedClient (.send (mkAck ⟨.client, 2⟩ 4 .puback 7))).ev
    = [.send (mkAck ⟨.client, 2⟩ 4 .puback 7) none, .timerReset .pingreqSend 10000] := by decide
example : (step ⟨.client, 2⟩ { exConnectedClient with serverKeepAliveMs := some 3000 }
      (.send (mkAck ⟨.client, 2⟩ 4 .puback 7))).ev
    = [.send (mkAck ⟨.client, 2⟩ 4 .puback 7) none, .timerReset .pingreqSend 3000] := by decide
example : (step ⟨.client, 2⟩ { exConnectedClient with serverKeepAliveMs := some 3000, userInterval := some 500 }
      (.send (mkAck ⟨.client, 2⟩ 4 .puback 7))).ev
    = [.send (mkAck ⟨.client, 2⟩ 4 .puback 7) none, .timerReset .pingreqSend 500] := by decide
example : (step ⟨.client, 2⟩ { exConnectedClient with serverKeepAliveMs := some 3000, userInterval := some 0 }
      (.send (mkAck ⟨.client, 2⟩ 4 .puback 7))).ev
    = [.send (mkAck ⟨.client, 2⟩ 4 .puback 7) none] := by decide

/-! ## non-vacuity of the remaining hypotheses -/

example : ∀ k, Op.closed ≠ .timer k := by intro k h; cases h
example : timersStep ⟨true, false, false⟩ ([] ++ .timerCancel .pingreqSend :: []) = some unarmed := by decide
example : anyReset (step ⟨.client, 2⟩ exConnectedClient (.send (mkAck ⟨.client, 2⟩ 4 .puback 7))).ev = true := by
  decide
example : exConnectedClient.ver = (mkPingreq 4).ver ∧ roleMaySend Role.client (mkPingreq 4) = true ∧
    (mkPingreq 4).kind = .pingreq ∧ exConnectedClient.status = .connected := by decide
example : (exV5Server 100).status = .connected ∧ (exV5Server 100).ver = 5 ∧
    exConnectedClient.ver = 4 ∧ Timer.pingreqRecv ≠ Timer.pingreqSend := by decide
example : (St.init ⟨.server, 2⟩ 5).status ≠ .connected ∧ (St.init ⟨.server, 2⟩ 5).ver = 5 := by decide
example : ({ cfg := ⟨.server, 2⟩, s := St.init ⟨.server, 2⟩ 4 } : C).s.status = .disconnected := by decide
example : (12 : Nat) ≠ 1 ∧ (12 : Nat) ≠ 2 ∧ (12 : Nat) ≠ 13 ∧ (12 : Nat) ≠ 14 := by decide
example :
    (step ⟨.client, 2⟩ exConnectedClient (.send (mkAck ⟨.client, 2⟩ 4 .puback 7))).ev
      = [] ++ .send (mkAck ⟨.client, 2⟩ 4 .puback 7) none :: [.timerReset .pingreqSend 10000] ∧
    (step ⟨.client, 2⟩ exConnectedClient (.send (mkAck ⟨.client, 2⟩ 4 .puback 7))).s.isClient = true ∧
    (step ⟨.client, 2⟩ exConnectedClient (.send (mkAck ⟨.client, 2⟩ 4 .puback 7))).s.status ≠ .disconnected ∧
    pingInterval (step ⟨.client, 2⟩ exConnectedClient (.send (mkAck ⟨.client, 2⟩ 4 .puback 7))).s > 0 := by
  decide

/-! ## 8. the driver monitor `C15 no_recv_rearm` is a theorem of the model -/

/-- the driver's ghost `srvMs`, before the call: `closed` forgets the timeout
    (`srv0` in `Driver/ConnDrv.lean`) -/
def C15.srvReset : Op → Nat → Nat
  | .closed, _ => 0
  | _, g => g

/-- the driver's ghost `srvMs`, after the call: the fold of `monitorCall` over the call's events, verbatim -/
def C15.srvStep (srv0 : Nat) (evs : List Ev) : Nat :=
  evs.foldl (fun (acc : Nat) (e : Ev) => match e with
    | .recv q => if q.kind = Kind.connect then q.keepAlive * 1000 * 3 / 2 else acc
    | .send q _ => if q.kind = Kind.connack ∧ q.rc = some 0 then (match Mon.findProp q pSKA with | some v => v * 1000 * 3 / 2 | none => acc) else acc
    | _ => acc) srv0

/-- the ghost along a history of calls -/
def C15.srvRun (cfg : Cfg) : St → Nat → List Op → Nat
  | _, g, [] => g
  | s, g, op :: ops => C15.srvRun cfg (step cfg s op).s (C15.srvStep (C15.srvReset op g) (step cfg s op).ev) ops

theorem C15.srvStep_eq (g : Nat) (evs : List Ev) : C15.srvStep g evs = SrvMs.srvStep g evs := by
  unfold C15.srvStep SrvMs.srvStep
  congr 1

theorem C15.srvReset_eq (op : Op) (g : Nat) : C15.srvReset op g = SrvMs.srvReset op g := by
  cases op <;> rfl

theorem C15.srvRun_eq (cfg : Cfg) (ops : List Op) : ∀ (s : St) (g : Nat),
    C15.srvRun cfg s g ops = SrvMs.srvRun cfg s g ops := by
  induction ops with
  | nil => intro s g; rfl
  | cons op ops ih => intro s g; simp only [C15.srvRun, SrvMs.srvRun, C15.srvStep_eq, C15.srvReset_eq, ih]


/-- **C15 (8a), one call** (ghost side of `VIOL sig=C15 no_recv_rearm@<site>`): the relation
    `SrvMs.Inv s g` between the model state and the driver's ghost `srvMs` —

    * `s.isClient = false → g = s.recvTimeoutMs ∨ g = 0`, and
    * no stored packet is a successful CONNACK with a Server Keep Alive property —

    is kept by every call that respects the contract `SrvMs.Legal` (CONNACKs sent with an
    unambiguous Server Keep Alive, `SrvMs.SendOk`; a parser whose result is a CONNECT exactly for
    a CONNECT frame, `SrvMs.ParseKind`; no such CONNACK handed to `restore_packets`), the ghost
    being updated exactly as the driver does (`C15.srvReset`, then `C15.srvStep` over the events). -/
theorem C15_srv_ghost_step (cfg : Cfg) (s : St) (op : Op) (g : Nat) (hl : SrvMs.Legal op)
    (h : SrvMs.Inv s g) :
    SrvMs.Inv (step cfg s op).s (C15.srvStep (C15.srvReset op g) (step cfg s op).ev) := by
  rw [C15.srvStep_eq, C15.srvReset_eq]
  exact SrvMs.step_inv cfg s op g hl h

/-- **C15 (8a), every history** (ghost side of `VIOL sig=C15 no_recv_rearm@<site>`): from a new
    connection object with ghost 0, after any sequence of calls that respect `SrvMs.Legal`. -/
theorem C15_srv_ghost_run (cfg : Cfg) (ver : Nat) (ops : List Op) (hl : ∀ op ∈ ops, SrvMs.Legal op) :
    SrvMs.Inv (run cfg (St.init cfg ver) ops) (C15.srvRun cfg (St.init cfg ver) 0 ops) := by
  rw [C15.srvRun_eq]
  exact SrvMs.run_inv cfg ops _ _ hl (SrvMs.init_inv cfg ver)

/-- what the monitor uses of the relation: on an endpoint that did not start the connection
    itself, a non-zero ghost **is** the model's `pingreq_recv_timeout_ms` -/
theorem C15_srv_ghost_is_timeout {s : St} {g : Nat} (h : SrvMs.Inv s g) (hc : s.isClient = false)
    (hg : g > 0) : s.recvTimeoutMs = g := by
  rcases h.1 hc with e | e
  · exact e.symm
  · omega

theorem C15.hasError_err (c : C) (e : Nat) : Mon.hasError (c.err e).ev = true := by
  simp [Mon.hasError, C.err, C.push]

theorem C15.prConnect_established (c : C) (pp : Except Nat Pkt) (hs : c.s.status ≠ .disconnected) :
    (∃ m e, prV3Connect c pp = C.err m e) ∧ (∃ m e, prV5Connect c pp = C.err m e) := by
  constructor
  · unfold prV3Connect; rw [if_pos hs]; exact ⟨_, _, rfl⟩
  · unfold prV5Connect; rw [if_pos hs]; exact ⟨_, _, rfl⟩

/-- on a connection that is not `disconnected`, `process_recv_packet` either refuses the frame
    (last event `NotifyError`) or is the handler of the frame's packet type (not CONNECT) -/
theorem C15.processRecvPacket_shape (c : C) (fh : Nat) (data : List Nat) (parse : Nat → Except Nat Pkt)
    (hs : c.s.status ≠ .disconnected) :
    (∃ m e, processRecvPacket c fh data parse = C.err m e) ∨
    (fh / 16 ≠ 1 ∧ processRecvPacket c fh data parse = dispatchRecv c (fh / 16) (parse c.s.ver)) := by
  unfold processRecvPacket
  split
  · exact .inl ⟨_, _, rfl⟩
  · extract_lets t lvl s1
    split
    · exact .inl ⟨_, _, rfl⟩
    split
    · split
      · split
        · exact .inl ⟨_, _, rfl⟩
        · split
          · exact .inl (C15.prConnect_established { c with s := { c.s with ver := 4 } } (parse 4) hs).1
          split
          · exact .inl (C15.prConnect_established { c with s := { c.s with ver := 5 } } (parse 5) hs).2
          · exact .inl ⟨_, _, rfl⟩
      · exact .inl ⟨_, _, rfl⟩
    · by_cases h1 : t = 1
      · left
        rw [h1]; unfold dispatchRecv; simp only []
        split
        · exact (C15.prConnect_established c _ hs).1
        · exact (C15.prConnect_established c _ hs).2
      · exact .inr ⟨h1, rfl⟩

/-- the packet handler of a frame that is not CONNACK / PINGRESP / DISCONNECT, on a connection
    that is not `disconnected` and has a receive timeout: no error event and no panic ⇒ the
    re-arm is among the events -/
theorem C15.processRecvPacket_rearms (c : C) (fh : Nat) (data : List Nat) (parse : Nat → Except Nat Pkt)
    (hs : c.s.status ≠ .disconnected) (hrt : c.s.recvTimeoutMs ≠ 0)
    (ht : fh / 16 ≠ 2 ∧ fh / 16 ≠ 13 ∧ fh / 16 ≠ 14)
    (hne : Mon.hasError (processRecvPacket c fh data parse).ev = false)
    (hpan : (processRecvPacket c fh data parse).s.panic = none) :
    .timerReset .pingreqRecv c.s.recvTimeoutMs ∈ (processRecvPacket c fh data parse).ev := by
  rcases C15.processRecvPacket_shape c fh data parse hs with ⟨m, e, h⟩ | ⟨h1, h⟩
  · rw [h, C15.hasError_err] at hne; cases hne
  · rw [h] at hne hpan ⊢
    have ho := dispatchRecv_outcome c (fh / 16) (parse c.s.ver) ⟨h1, ht.1, ht.2.1, ht.2.2⟩
    generalize dispatchRecv c (fh / 16) (parse c.s.ver) = d at ho hne hpan ⊢
    cases ho with
    | rejected m e => rw [C15.hasError_err] at hne; cases hne
    | panic m site => simp [C.setPanic] at hpan
    | accepted m q h =>
      have hm : m.s.recvTimeoutMs ≠ 0 ∧ m.s.status ≠ .disconnected := by rw [h.2.2, h.2.1]; exact ⟨hrt, hs⟩
      have e : (refreshPingreqRecv m).ev = m.ev ++ [.timerReset .pingreqRecv c.s.recvTimeoutMs] := by
        rw [refresh_ev, rearmRecv, if_pos hm, h.2.2]
      simp [C.push, e]
    | duplicate m h =>
      have hm : m.s.recvTimeoutMs ≠ 0 ∧ m.s.status ≠ .disconnected := by rw [h.2.2, h.2.1]; exact ⟨hrt, hs⟩
      have e : (refreshPingreqRecv m).ev = m.ev ++ [.timerReset .pingreqRecv c.s.recvTimeoutMs] := by
        rw [refresh_ev, rearmRecv, if_pos hm, h.2.2]
      simp [C.push, e]

/-- the parser contract of the claim: a successful result has the packet type of the frame it was
    parsed from (as `NSn.ParseNS` of C10, `ParseOk` of C07); implies `SrvMs.ParseKind` -/
def C15.ParseNibble (parse : Nat → Nat → List Nat → Except Nat Pkt) : Prop :=
  ∀ v fh d q, parse v fh d = .ok q → q.kind.nibble = fh / 16

theorem C15.ParseNibble.kind {parse : Nat → Nat → List Nat → Except Nat Pkt} (h : C15.ParseNibble parse) :
    SrvMs.ParseKind parse := SrvMs.ParseKind.of_nibble h

/-- a `recv` call that completes a frame is `process_recv_packet` on that frame -/
theorem C15.step_recv_complete (cfg : Cfg) (s : St) (inp : List Nat)
    (parse : Nat → Nat → List Nat → Except Nat Pkt) (pb : Framing.PB) (fh : Nat) (data rest : List Nat)
    (hfeed : Framing.feed s.pb inp = (pb, some (.complete fh data), rest)) :
    step cfg s (.recv inp parse)
      = processRecvPacket { cfg := cfg, s := { s with pb := pb } } fh data (fun v => parse v fh data) := by
  simp [step, recv, hfeed]

/-- a `recv` call that ends in a framing error reports an error (the monitor's guard
    `frame ≠ none` lets it through, `!hasError` excludes it) -/
theorem C15_recv_frame_error_has_error (cfg : Cfg) (s : St) (inp : List Nat)
    (parse : Nat → Nat → List Nat → Except Nat Pkt) (pb : Framing.PB) (rest : List Nat)
    (hfeed : Framing.feed s.pb inp = (pb, some .error, rest)) :
    Mon.hasError (step cfg s (.recv inp parse)).ev = true := by
  simp [step, recv, hfeed, Mon.hasError, C.err, C.push]

theorem C15.kind_excl_nibble {k : Kind} {t : Nat} (h : k.nibble = t)
    (hk : k ≠ .disconnect ∧ k ≠ .connack ∧ k ≠ .pingresp) : t ≠ 2 ∧ t ≠ 13 ∧ t ≠ 14 := by
  subst h; cases k <;> simp_all [Kind.nibble]

/-- **C15 (8b), the claim of `VIOL sig=C15 no_recv_rearm@<site>`** — state `s`, ghost `g` related by
    `SrvMs.Inv`; a `recv` call completes a frame which the parser (contract `C15.ParseNibble`) turns
    into packet `p`; the connection is not `disconnected` before the call (the monitor: `connected`
    before and after); the endpoint did not start the connection (`is_client = false` *after* the
    call, the digest field `cli`); the ghost is non-zero; the call reports no error and does not
    panic (the monitor is not evaluated on a panicking call); `p` is not DISCONNECT, CONNACK,
    PINGRESP (the monitor excludes SUBACK and UNSUBACK too: not needed).
    Then the call's events contain `RequestTimerReset(PingreqRecv, g)`. -/
theorem C15_no_recv_rearm (cfg : Cfg) (s : St) (g : Nat) (inp : List Nat)
    (parse : Nat → Nat → List Nat → Except Nat Pkt) (pb : Framing.PB) (fh : Nat) (data rest : List Nat)
    (p : Pkt)
    (hinv : SrvMs.Inv s g)
    (hnib : C15.ParseNibble parse)
    (hfeed : Framing.feed s.pb inp = (pb, some (.complete fh data), rest))
    (hp : parse s.ver fh data = .ok p)
    (hs : s.status ≠ .disconnected)
    (hcli : (step cfg s (.recv inp parse)).s.isClient = false)
    (hg : g > 0)
    (hne : Mon.hasError (step cfg s (.recv inp parse)).ev = false)
    (hpan : (step cfg s (.recv inp parse)).s.panic = none)
    (hkind : p.kind ≠ .disconnect ∧ p.kind ≠ .connack ∧ p.kind ≠ .pingresp) :
    .timerReset .pingreqRecv g ∈ (step cfg s (.recv inp parse)).ev := by
  have ht := C15.kind_excl_nibble (hnib _ _ _ _ hp) hkind
  -- `is_client` is the one before the call
  have hk3 := SrvMs.recv_keeps g { cfg := cfg, s := s } inp parse hnib.kind hs
    (fun pb' fh' data' rest' hf => by
      rw [hfeed] at hf
      simp only [Prod.mk.injEq, Option.some.injEq, Framing.Out.complete.injEq] at hf
      rw [← hf.2.1.1]; exact ht.1)
  have hcl0 : s.isClient = false := by
    have := congrArg (·.1) hk3
    simp only [SrvMs.K3] at this
    rw [← this]; exact hcli
  have hrt : s.recvTimeoutMs = g := C15_srv_ghost_is_timeout hinv hcl0 hg
  rw [C15.step_recv_complete cfg s inp parse pb fh data rest hfeed] at hne hpan ⊢
  rw [← hrt]
  exact C15.processRecvPacket_rearms { cfg := cfg, s := { s with pb := pb } } fh data _ hs
    (by show s.recvTimeoutMs ≠ 0; omega) ht hne hpan

/-- (8b) in the driver's own terms: the guard of `monitorCall` (status `connected` before and
    after, the five excluded packet types, `srv0 > 0`, `!hasError`) implies that the test
    `evs.any (· = RequestTimerReset(PingreqRecv, srv0))` succeeds: no `VIOL` -/
theorem C15_no_recv_rearm_mon (cfg : Cfg) (s : St) (srv0 : Nat) (inp : List Nat)
    (parse : Nat → Nat → List Nat → Except Nat Pkt) (pb : Framing.PB) (fh : Nat) (data rest : List Nat)
    (p : Pkt)
    (hinv : SrvMs.Inv s srv0) (hnib : C15.ParseNibble parse)
    (hfeed : Framing.feed s.pb inp = (pb, some (.complete fh data), rest))
    (hp : parse s.ver fh data = .ok p)
    (hpan : (step cfg s (.recv inp parse)).s.panic = none)
    (hguard : s.status = .connected ∧ (step cfg s (.recv inp parse)).s.status = .connected ∧
      (step cfg s (.recv inp parse)).s.isClient = false ∧ srv0 > 0 ∧
      Mon.hasError (step cfg s (.recv inp parse)).ev = false ∧ p.kind ≠ Kind.disconnect ∧
      p.kind ≠ Kind.connack ∧ p.kind ≠ Kind.suback ∧ p.kind ≠ Kind.unsuback ∧ p.kind ≠ Kind.pingresp) :
    ((step cfg s (.recv inp parse)).ev.any fun (e : Ev) => e = Ev.timerReset Timer.pingreqRecv srv0) = true := by
  obtain ⟨h1, _, h3, h4, h5, h6, h7, _, _, h10⟩ := hguard
  have := C15_no_recv_rearm cfg s srv0 inp parse pb fh data rest p hinv hnib hfeed hp
    (by rw [h1]; decide) h3 h4 h5 hpan ⟨h6, h7, h10⟩
  exact List.any_eq_true.2 ⟨_, this, by simp⟩

/-- **C15 (8), along a history** (`VIOL sig=C15 no_recv_rearm@<site>` on every legal walk): after
    any calls that respect `SrvMs.Legal` from a new connection object, with the ghost computed from
    the events alone (`C15.srvRun … 0`), a further `recv` call that satisfies the monitor's guard
    re-arms the receive timer with the ghost's value. -/
theorem C15_no_recv_rearm_run (cfg : Cfg) (ver : Nat) (ops : List Op) (hl : ∀ op ∈ ops, SrvMs.Legal op)
    (inp : List Nat) (parse : Nat → Nat → List Nat → Except Nat Pkt) (pb : Framing.PB) (fh : Nat)
    (data rest : List Nat) (p : Pkt) (hnib : C15.ParseNibble parse)
    (hfeed : Framing.feed (run cfg (St.init cfg ver) ops).pb inp = (pb, some (.complete fh data), rest))
    (hp : parse (run cfg (St.init cfg ver) ops).ver fh data = .ok p)
    (hpan : (step cfg (run cfg (St.init cfg ver) ops) (.recv inp parse)).s.panic = none)
    (hguard : (run cfg (St.init cfg ver) ops).status = .connected ∧
      (step cfg (run cfg (St.init cfg ver) ops) (.recv inp parse)).s.status = .connected ∧
      (step cfg (run cfg (St.init cfg ver) ops) (.recv inp parse)).s.isClient = false ∧
      C15.srvReset (.recv inp parse) (C15.srvRun cfg (St.init cfg ver) 0 ops) > 0 ∧
      Mon.hasError (step cfg (run cfg (St.init cfg ver) ops) (.recv inp parse)).ev = false ∧
      p.kind ≠ Kind.disconnect ∧ p.kind ≠ Kind.connack ∧ p.kind ≠ Kind.suback ∧ p.kind ≠ Kind.unsuback ∧
      p.kind ≠ Kind.pingresp) :
    ((step cfg (run cfg (St.init cfg ver) ops) (.recv inp parse)).ev.any fun (e : Ev) =>
      e = Ev.timerReset Timer.pingreqRecv (C15.srvReset (.recv inp parse) (C15.srvRun cfg (St.init cfg ver) 0 ops))) = true :=
  C15_no_recv_rearm_mon cfg _ _ inp parse pb fh data rest p (C15_srv_ghost_run cfg ver ops hl) hnib hfeed hp hpan hguard

/-! ### non-vacuity of (8), and every hypothesis is needed -/

/-- a parser that honours `C15.ParseNibble`: it answers PINGREQ frames only -/
def C15.exParsePing : Nat → Nat → List Nat → Except Nat Pkt :=
  fun v fh _ => if fh / 16 = 12 then .ok (mkPingreq v) else .error eMalformed

theorem C15.exParsePing_nibble : C15.ParseNibble C15.exParsePing := by
  intro v fh d q h
  unfold C15.exParsePing at h
  split at h
  · rename_i h12; cases h; rw [h12]; rfl
  · cases h

-- every hypothesis of `C15_no_recv_rearm` holds for a connected v3.1.1 server with receive timeout
-- 15 s = ghost and the two bytes of a PINGREQ, and so does the conclusion
example :
    SrvMs.Inv exServer 15000 ∧
    Framing.feed exServer.pb [0xC0, 0x00] = ({}, some (.complete 0xC0 []), []) ∧
    (C15.exParsePing exServer.ver 0xC0 []).toOption = some (mkPingreq 4) ∧
    exServer.status ≠ .disconnected ∧
    (step ⟨.server, 2⟩ exServer (.recv [0xC0, 0x00] C15.exParsePing)).s.isClient = false ∧
    Mon.hasError (step ⟨.server, 2⟩ exServer (.recv [0xC0, 0x00] C15.exParsePing)).ev = false ∧
    (step ⟨.server, 2⟩ exServer (.recv [0xC0, 0x00] C15.exParsePing)).s.panic = none ∧
    ((mkPingreq 4).kind ≠ .disconnect ∧ (mkPingreq 4).kind ≠ .connack ∧ (mkPingreq 4).kind ≠ .pingresp) ∧
    .timerReset .pingreqRecv 15000 ∈ (step ⟨.server, 2⟩ exServer (.recv [0xC0, 0x00] C15.exParsePing)).ev := by
  decide

-- the theorem applied to it
example : .timerReset .pingreqRecv 15000 ∈ (step ⟨.server, 2⟩ exServer (.recv [0xC0, 0x00] C15.exParsePing)).ev :=
  C15_no_recv_rearm ⟨.server, 2⟩ exServer 15000 [0xC0, 0x00] C15.exParsePing {} 0xC0 [] [] (mkPingreq 4)
    (by decide) C15.exParsePing_nibble (by decide) rfl (by decide) (by decide) (by decide) (by decide)
    (by decide) (by decide)

/-- the history of a v5.0 server: CONNECT (keep-alive 10) delivered, CONNACK with Server Keep Alive
    20 sent, then a PINGREQ arrives -/
def C15.exParseSrv : Nat → Nat → List Nat → Except Nat Pkt :=
  fun v fh _ => if fh / 16 = 1 then .ok { ver := v, kind := .connect, keepAlive := 10 }
    else if fh / 16 = 12 then .ok (mkPingreq v) else .error eMalformed
def C15.exConnackSka : Pkt := { ver := 5, kind := .connack, size := 8, rc := some 0, props := [(pSKA, 20)] }
def C15.exSrvOps : List Op := [.recv exConnectBytes C15.exParseSrv, .send C15.exConnackSka]

theorem C15.exParseSrv_nibble : C15.ParseNibble C15.exParseSrv := by
  intro v fh d q h
  unfold C15.exParseSrv at h
  split at h
  · rename_i h1; cases h; rw [h1]; rfl
  · split at h
    · rename_i h12; cases h; rw [h12]; rfl
    · cases h

theorem C15.exSrvOps_legal : ∀ op ∈ C15.exSrvOps, SrvMs.Legal op := by
  intro op h
  simp only [C15.exSrvOps, List.mem_cons, List.mem_nil_iff, or_false] at h
  rcases h with rfl | rfl
  · exact C15.exParseSrv_nibble.kind
  · show SrvMs.SendOk C15.exConnackSka
    decide

-- the ghost follows the model: 15000 after the CONNECT, 30000 after the CONNACK; the PINGREQ re-arms
-- with 30000
example :
    C15.srvRun ⟨.server, 2⟩ (St.init ⟨.server, 2⟩ 5) 0 (C15.exSrvOps.take 1) = 15000 ∧
    (run ⟨.server, 2⟩ (St.init ⟨.server, 2⟩ 5) (C15.exSrvOps.take 1)).recvTimeoutMs = 15000 ∧
    C15.srvRun ⟨.server, 2⟩ (St.init ⟨.server, 2⟩ 5) 0 C15.exSrvOps = 30000 ∧
    (run ⟨.server, 2⟩ (St.init ⟨.server, 2⟩ 5) C15.exSrvOps).recvTimeoutMs = 30000 ∧
    (run ⟨.server, 2⟩ (St.init ⟨.server, 2⟩ 5) C15.exSrvOps).status = .connected ∧
    (step ⟨.server, 2⟩ (run ⟨.server, 2⟩ (St.init ⟨.server, 2⟩ 5) C15.exSrvOps) (.recv [0xC0, 0x00] C15.exParseSrv)).ev
      = [.timerReset .pingreqRecv 30000, .recv (mkPingreq 5)] := by
  decide

-- `g > 0` is needed: after `closed` the ghost is 0 while the model keeps the old timeout until the
-- next CONNECT (the relation holds by its second disjunct); the re-arm is with 15000, not with 0
example :
    SrvMs.Inv exServer 0 ∧ exServer.status ≠ .disconnected ∧
    (step ⟨.server, 2⟩ exServer (.recv [0xC0, 0x00] C15.exParsePing)).s.isClient = false ∧
    Mon.hasError (step ⟨.server, 2⟩ exServer (.recv [0xC0, 0x00] C15.exParsePing)).ev = false ∧
    (step ⟨.server, 2⟩ exServer (.recv [0xC0, 0x00] C15.exParsePing)).s.panic = none ∧
    .timerReset .pingreqRecv 0 ∉ (step ⟨.server, 2⟩ exServer (.recv [0xC0, 0x00] C15.exParsePing)).ev := by
  decide

-- `SrvMs.Inv` is needed (ghost 7 s, model 15 s)
example :
    ¬ SrvMs.Inv exServer 7000 ∧
    .timerReset .pingreqRecv 7000 ∉ (step ⟨.server, 2⟩ exServer (.recv [0xC0, 0x00] C15.exParsePing)).ev := by
  decide

-- `is_client = false` is needed: an endpoint of role `any` that sent the CONNECT itself has no
-- receive timeout, whatever ghost is left from an earlier connection it accepted
example :
    SrvMs.Inv { St.init ⟨.any, 2⟩ 4 with status := .connected, isClient := true } 15000 ∧
    Mon.hasError (step ⟨.any, 2⟩ { St.init ⟨.any, 2⟩ 4 with status := .connected, isClient := true }
      (.recv [0xC0, 0x00] C15.exParsePing)).ev = false ∧
    (step ⟨.any, 2⟩ { St.init ⟨.any, 2⟩ 4 with status := .connected, isClient := true }
      (.recv [0xC0, 0x00] C15.exParsePing)).ev = [.recv (mkPingreq 4)] := by
  decide

-- `status ≠ disconnected` is needed (fix of finding #18: no refresh while disconnected)
example :
    SrvMs.Inv { exServer with status := .disconnected } 15000 ∧
    Mon.hasError (step ⟨.server, 2⟩ { exServer with status := .disconnected } (.recv [0xC0, 0x00] C15.exParsePing)).ev
      = false ∧
    (step ⟨.server, 2⟩ { exServer with status := .disconnected } (.recv [0xC0, 0x00] C15.exParsePing)).ev
      = [.recv (mkPingreq 4)] := by
  decide

-- "no error event" is needed: a PUBACK that matches nothing in flight is refused, not re-armed
example :
    (step ⟨.server, 2⟩ exServer (.recv [0x40, 2, 0, 1] (fun v _ _ => .ok (mkAck ⟨.server, 2⟩ v .puback 1)))).ev
      = [.close, .error eProtocol] ∧
    (step ⟨.server, 2⟩ exServer (.recv [0x40, 2, 0, 1] (fun v _ _ => .ok (mkAck ⟨.server, 2⟩ v .puback 1)))).s.panic
      = none := by
  decide

-- "no panic" is needed: a parser result without packet identifier for a QoS 1 PUBLISH is a panic
-- site (C05): no event at all, in particular no error event and no re-arm
example :
    (step ⟨.server, 2⟩ exServer (.recv [0x32, 5, 0, 1, 97, 0, 1]
      (fun v _ _ => .ok { ver := v, kind := .publish, qos := 1 }))).ev = [] ∧
    (step ⟨.server, 2⟩ exServer (.recv [0x32, 5, 0, 1, 97, 0, 1]
      (fun v _ _ => .ok { ver := v, kind := .publish, qos := 1 }))).s.panic ≠ none := by
  decide

-- the excluded packet types are needed: PINGRESP and DISCONNECT are delivered without re-arm …
example :
    (step ⟨.any, 2⟩ { exServer with status := .connected } (.recv [0xD0, 0x00] (fun v _ _ => .ok (mkPingresp v)))).ev
      = [.recv (mkPingresp 4)] ∧
    (step ⟨.server, 2⟩ exServer (.recv [0xE0, 0x00] (fun v _ _ => .ok { ver := v, kind := .disconnect }))).ev
      = [.recv { ver := 4, kind := .disconnect }] := by
  decide

-- … and so is a CONNACK on a connection of role `any` that is `connecting` (with the monitor's
-- `connected` it is a protocol error, already excluded by "no error event")
example :
    (step ⟨.any, 2⟩ { exServer with status := .connecting } (.recv [0x20, 2, 0, 0]
      (fun v _ _ => .ok { ver := v, kind := .connack, rc := some 0 }))).ev
      = [.recv { ver := 4, kind := .connack, rc := some 0 }] := by
  decide

-- `C15.ParseNibble` is needed: a parser that calls the two bytes of a PINGRESP a PINGREQ passes the
-- monitor's packet-type guard, but the handler is PINGRESP's
example :
    (step ⟨.any, 2⟩ exServer (.recv [0xD0, 0x00] (fun v _ _ => .ok (mkPingreq v)))).ev = [.recv (mkPingreq 4)] ∧
    Mon.hasError (step ⟨.any, 2⟩ exServer (.recv [0xD0, 0x00] (fun v _ _ => .ok (mkPingreq v)))).ev = false := by
  decide

-- a CONNECT the parser rejects is answered with a refusing CONNACK: neither the model's timeout (no
-- `initialize`) nor the ghost (no delivery) moves
example :
    (step ⟨.server, 2⟩ { St.init ⟨.server, 2⟩ 4 with recvTimeoutMs := 15000 }
      (.recv exConnectBytes (fun _ _ _ => .error eClientId))).ev
      = [.send (mkV3Connack 2) none, .close, .error eClientId] ∧
    (step ⟨.server, 2⟩ { St.init ⟨.server, 2⟩ 4 with recvTimeoutMs := 15000 }
      (.recv exConnectBytes (fun _ _ _ => .error eClientId))).s.recvTimeoutMs = 15000 ∧
    C15.srvStep 15000 (step ⟨.server, 2⟩ { St.init ⟨.server, 2⟩ 4 with recvTimeoutMs := 15000 }
      (.recv exConnectBytes (fun _ _ _ => .error eClientId))).ev = 15000 := by
  decide

/-! ### every clause of the contract `SrvMs.Legal` is needed for the relation (8a) -/

/-- a v5.0 server that has received CONNECT with keep-alive 10 -/
def C15.exAccepting (ver : Nat) : St :=
  { St.init ⟨.server, 2⟩ ver with status := .connecting, recvTimeoutMs := 15000 }

-- `SendOk`, v5.0: with two Server Keep Alive properties the connection keeps the last, an observer
-- (`Mon.findProp`) reads the first
example :
    SrvMs.Inv (C15.exAccepting 5) 15000 ∧
    ¬ SrvMs.SendOk { ver := 5, kind := .connack, size := 11, rc := some 0, props := [(pSKA, 10), (pSKA, 20)] } ∧
    (step ⟨.server, 2⟩ (C15.exAccepting 5)
      (.send { ver := 5, kind := .connack, size := 11, rc := some 0, props := [(pSKA, 10), (pSKA, 20)] })).s.recvTimeoutMs
      = 30000 ∧
    C15.srvStep 15000 (step ⟨.server, 2⟩ (C15.exAccepting 5)
      (.send { ver := 5, kind := .connack, size := 11, rc := some 0, props := [(pSKA, 10), (pSKA, 20)] })).ev
      = 15000 ∧
    ¬ SrvMs.Inv (step ⟨.server, 2⟩ (C15.exAccepting 5)
        (.send { ver := 5, kind := .connack, size := 11, rc := some 0, props := [(pSKA, 10), (pSKA, 20)] })).s
      (C15.srvStep 15000 (step ⟨.server, 2⟩ (C15.exAccepting 5)
        (.send { ver := 5, kind := .connack, size := 11, rc := some 0, props := [(pSKA, 10), (pSKA, 20)] })).ev) := by
  decide

-- `SendOk`, v3.1.1: the model ignores the properties of a v3.1.1 CONNACK, the ghost does not
example :
    ¬ SrvMs.SendOk { ver := 4, kind := .connack, size := 4, rc := some 0, props := [(pSKA, 20)] } ∧
    (step ⟨.server, 2⟩ (C15.exAccepting 4)
      (.send { ver := 4, kind := .connack, size := 4, rc := some 0, props := [(pSKA, 20)] })).s.recvTimeoutMs = 15000 ∧
    C15.srvStep 15000 (step ⟨.server, 2⟩ (C15.exAccepting 4)
      (.send { ver := 4, kind := .connack, size := 4, rc := some 0, props := [(pSKA, 20)] })).ev = 30000 := by
  decide

-- `ParseKind`, one direction: a PINGREQ frame whose parser result claims to be a CONNECT moves the ghost only
example :
    (step ⟨.server, 2⟩ exServer (.recv [0xC0, 0x00]
      (fun v _ _ => .ok { ver := v, kind := .connect, keepAlive := 20 }))).s.recvTimeoutMs = 15000 ∧
    C15.srvStep 15000 (step ⟨.server, 2⟩ exServer (.recv [0xC0, 0x00]
      (fun v _ _ => .ok { ver := v, kind := .connect, keepAlive := 20 }))).ev = 30000 := by
  decide

-- `ParseKind`, the other direction: a CONNECT frame whose parser result does not say CONNECT moves the model only
example :
    SrvMs.Inv { St.init ⟨.server, 2⟩ 4 with recvTimeoutMs := 15000 } 15000 ∧
    (step ⟨.server, 2⟩ { St.init ⟨.server, 2⟩ 4 with recvTimeoutMs := 15000 } (.recv exConnectBytes
      (fun v _ _ => .ok { ver := v, kind := .pingreq, keepAlive := 20 }))).s.recvTimeoutMs = 30000 ∧
    C15.srvStep 15000 (step ⟨.server, 2⟩ { St.init ⟨.server, 2⟩ 4 with recvTimeoutMs := 15000 } (.recv exConnectBytes
      (fun v _ _ => .ok { ver := v, kind := .pingreq, keepAlive := 20 }))).ev = 15000 := by
  decide

-- the store clause: a successful CONNACK with Server Keep Alive handed to `restore_packets` is resent
-- by the next CONNACK(session present) and moves the ghost; the model's timeout stays
def C15.exLoudOps : List Op :=
  [.restorePackets [{ ver := 4, kind := .connack, pid := some 1, rc := some 0, props := [(pSKA, 20)] }],
   .send { ver := 4, kind := .connack, size := 4, rc := some 0, sp := true }]
example :
    SrvMs.Inv (C15.exAccepting 4) 15000 ∧
    SrvMs.loud { ver := 4, kind := .connack, pid := some 1, rc := some 0, props := [(pSKA, 20)] } = true ∧
    SrvMs.SendOk { ver := 4, kind := .connack, size := 4, rc := some 0, sp := true } ∧
    (run ⟨.server, 2⟩ (C15.exAccepting 4) C15.exLoudOps).recvTimeoutMs = 15000 ∧
    C15.srvRun ⟨.server, 2⟩ (C15.exAccepting 4) 15000 C15.exLoudOps = 30000 ∧
    (run ⟨.server, 2⟩ (C15.exAccepting 4) C15.exLoudOps).status = .connected ∧
    (run ⟨.server, 2⟩ (C15.exAccepting 4) C15.exLoudOps).isClient = false := by
  decide

/-! ### what the relation does *not* say (reported)

After `closed` the ghost is 0 while the model keeps `pingreq_recv_timeout_ms` of the connection that
ended (`notify_closed` does not reset it; the next CONNECT, received or sent, does).  An endpoint of
role `any` accepts a CONNACK while `disconnected` (`process_recv_*_connack` refuses only when
`connected`): it becomes `connected` with `is_client = false` and the stale timeout, and re-arms the
receive timer with it on the next packet, although no CONNECT was received on this connection.
The monitor is silent there (`srv0 = 0`). -/
def C15.exStaleOps : List Op :=
  [.recv exConnectBytes C15.exParseSrv, .closed,
   .recv [0x20, 2, 0, 0] (fun v _ _ => .ok { ver := v, kind := .connack, rc := some 0 })]

theorem C15_stale_recv_timeout_witness :
    (run ⟨.any, 2⟩ (St.init ⟨.any, 2⟩ 4) C15.exStaleOps).status = .connected ∧
    (run ⟨.any, 2⟩ (St.init ⟨.any, 2⟩ 4) C15.exStaleOps).isClient = false ∧
    (run ⟨.any, 2⟩ (St.init ⟨.any, 2⟩ 4) C15.exStaleOps).recvTimeoutMs = 15000 ∧
    C15.srvRun ⟨.any, 2⟩ (St.init ⟨.any, 2⟩ 4) 0 C15.exStaleOps = 0 ∧
    (step ⟨.any, 2⟩ (run ⟨.any, 2⟩ (St.init ⟨.any, 2⟩ 4) C15.exStaleOps) (.recv [0xC0, 0x00] C15.exParseSrv)).ev
      = [.timerReset .pingreqRecv 15000, .recv (mkPingreq 4)] := by
  decide

end MqttVerif.Conn
