import MqttVerif.Conn.Lemmas.Basic
/-!
# C15 — keep-alive timer requests are consistent and complete (first instalment)

Mechanism lemmas; the event/flag correspondence for every `Op` is being added on top
(DESIGN.md §5 C15).  The driver evaluates `Mon.timersStep` and "disconnected ⇒ nothing armed"
on every implementation trace.
-/
set_option linter.unusedSimpArgs false
set_option linter.unusedVariables false
namespace MqttVerif.Conn
open MqttVerif

/-- `cancel_timers` requests a cancel exactly for the armed timers: the ghost account computed
    from its events ends with nothing armed and never cancels an unarmed timer -/
theorem C15_cancelTimers_consistent (c : C) (h : c.ev = []) :
    Mon.timersStep ⟨c.s.sendSet, c.s.recvSet, c.s.respSet⟩ (cancelTimers c).ev
      = some ⟨false, false, false⟩ := by
  unfold cancelTimers
  by_cases h1 : c.s.sendSet <;> by_cases h2 : c.s.recvSet <;> by_cases h3 : c.s.respSet <;>
    simp [h1, h2, h3, h, C.push, Mon.timersStep, Mon.Armed.get, Mon.Armed.set]

/-- after the transport is reported closed no timer flag remains set and the connection is
    disconnected — for every state -/
theorem C15_closed_unarmed (cfg : Cfg) (s : St) :
    let s' := (step cfg s .closed).s
    s'.sendSet = false ∧ s'.recvSet = false ∧ s'.respSet = false := by
  simp only [step, notifyClosed]
  have h := cancelTimers_spec
  exact ⟨(h _).2.1, (h _).2.2.1, (h _).2.2.2.1⟩

/-- fix (finding #18): while disconnected a received packet does not re-arm the receive timer -/
theorem C15_no_refresh_while_disconnected (c : C) (h : c.s.status = .disconnected) :
    refreshPingreqRecv c = c := by
  simp [refreshPingreqRecv, h]

/-- a sent DISCONNECT leaves nothing armed -/
theorem C15_disconnect_sent_unarmed (c : C) (p : Pkt) (hs : sizeOk c p = true)
    (hc : c.s.status = .connected) :
    let s' := (psV5Disconnect c p).s
    s'.status = .disconnected ∧ s'.sendSet = false ∧ s'.recvSet = false ∧ s'.respSet = false := by
  have h := cancelTimers_spec { c with s := { c.s with status := .disconnected } }
  simp only [psV5Disconnect, hs, hc]
  simp
  exact ⟨h.2.2.2.2.1, h.2.1, h.2.2.1, h.2.2.2.1⟩

/-- PINGREQ interval priority: application override, then Server Keep Alive, then the
    CONNECT keep alive; 0 disables -/
theorem C15_interval_priority (c : C) (hcl : c.s.isClient = true) :
    (∀ t, c.s.userInterval = some t →
        (t > 0 → (sendPostProcess c).ev = c.ev ++ [.timerReset .pingreqSend t]) ∧
        (t = 0 → sendPostProcess c = c)) ∧
    (∀ t, c.s.userInterval = none → c.s.serverKeepAliveMs = some t →
        (t > 0 → (sendPostProcess c).ev = c.ev ++ [.timerReset .pingreqSend t]) ∧
        (t = 0 → sendPostProcess c = c)) ∧
    (c.s.userInterval = none → c.s.serverKeepAliveMs = none →
        (c.s.keepAliveMs > 0 → (sendPostProcess c).ev = c.ev ++ [.timerReset .pingreqSend c.s.keepAliveMs]) ∧
        (c.s.keepAliveMs = 0 → sendPostProcess c = c)) := by
  refine ⟨?_, ?_, ?_⟩
  · intro t hu
    constructor
    · intro ht; simp [sendPostProcess, hcl, hu, ht]
    · intro ht; subst ht; simp [sendPostProcess, hcl, hu]
  · intro t hu hs
    constructor
    · intro ht; simp [sendPostProcess, hcl, hu, hs, ht]
    · intro ht; subst ht; simp [sendPostProcess, hcl, hu, hs]
  · intro hu hs
    constructor
    · intro ht; simp [sendPostProcess, hcl, hu, hs, ht]
    · intro ht; simp [sendPostProcess, hcl, hu, hs, ht]

example : ∃ c : C, c.s.isClient = true ∧ c.s.userInterval = none ∧ c.s.serverKeepAliveMs = some 7000 :=
  ⟨{ cfg := ⟨.client, 2⟩, s := { (St.init ⟨.client, 2⟩ 5) with isClient := true, serverKeepAliveMs := some 7000 } }, rfl, rfl, rfl⟩

end MqttVerif.Conn
