import MqttVerif.Conn.Step
/-!
# C05 (round 5) — a disconnected server delivers a well-formed CONNECT

Driver monitor `VIOL sig=C05 connect_not_delivered_while_disconnected@<site>`: role server or any,
`status = disconnected` before the call, the ghost assembler (empty at the start of the transport)
completes a frame with fixed header `0x10`, the version is acceptable (undetermined and protocol
level 4 / 5 in the frame, or determined and equal to it), the codec parses the frame: then the
events must contain the delivery `recv{k=1,…}`.

Props/C05 already has `C05_connect_delivered_when_disconnected` (membership of `.recv p` for
`step`).  This file proves the statement again for an arbitrary context in a sharper form, with
every side condition of `processRecvPacket` explicit, and adds the form with an **empty packet
builder** the task asks for.  Self-contained (imports the model only); the names differ from the
ones in Props/C05 so both files can be imported together.

Side conditions (all necessary in the model, see the examples at the end):
* `hr`  : the role may receive a CONNECT (`cfg.role ≠ .client`, i.e. server or any);
* `hs`  : `status = .disconnected` (otherwise: protocol error);
* `hsz` : the frame respects OUR Maximum Packet Size currently stored,
          `totalSize data.length ≤ mpsRecv` — `mpsRecv = noLimit` after `notify_closed`
          (`C14_closed_resets_both_limits`, Props/C14R5) and on a fresh object, but NOT in every
          disconnected state: the field survives a DISCONNECT we sent until `notify_closed`;
* `hv`  : version — determined (`ver ≠ 0`): the parser for that version returns `.ok p`;
          undetermined (`ver = 0`): the frame has at least 7 bytes, its 7th byte (protocol
          level) is 4 or 5 and the parser for that level returns `.ok p`.
  Nothing else about `p` is used (not even `p.kind = .connect`: the handler is chosen by the fixed
  header).

* `C05_connect_delivered_when_disconnected_handler` — `processRecvPacket c 0x10 data parse`:
  the events are `c.ev`, then at most one `RequestTimerReset(PingreqRecv, _)`, then `.recv p` as the
  **last** event — no error, no close request, nothing sent; afterwards `status = .connecting`,
  the version is the CONNECT's, `is_client = false`.
* `C05_connect_delivered_when_disconnected_recv` — the same for `recv c inp parse` when the one
  `Framing.feed` call completes a frame with fixed header `0x10` (any builder state).
* `C05_connect_delivered_when_disconnected_fresh_builder` — **empty packet builder** (`pb = {}`), the
  receive buffer is one whole CONNECT frame with a one-byte Remaining Length
  (`0x10 :: n :: data`, `data.length = n`, `0 < n < 128`; a CONNECT without will / credentials): the
  frame completes, nothing is left unread, `.recv p` is delivered.
-/
set_option linter.unusedVariables false
namespace MqttVerif.Conn
open MqttVerif

/-- the shape of the events of an accepted CONNECT -/
def r5_Delivered (c : C) (p : Pkt) (c' : C) : Prop :=
  (∃ mid, c'.ev = c.ev ++ mid ++ [.recv p] ∧ (mid = [] ∨ ∃ ms, mid = [.timerReset .pingreqRecv ms])) ∧
  c'.s.status = .connecting ∧ c'.s.isClient = false ∧ c'.cfg = c.cfg

theorem r5_refresh_ev (c : C) :
    ∃ mid, (refreshPingreqRecv c).ev = c.ev ++ mid ∧ (mid = [] ∨ ∃ ms, mid = [.timerReset .pingreqRecv ms]) := by
  unfold refreshPingreqRecv
  split
  · exact ⟨[_], rfl, .inr ⟨_, rfl⟩⟩
  · exact ⟨[], by simp, .inl rfl⟩

theorem r5_refresh_s (c : C) :
    (refreshPingreqRecv c).s.status = c.s.status ∧ (refreshPingreqRecv c).s.isClient = c.s.isClient ∧
    (refreshPingreqRecv c).s.ver = c.s.ver ∧ (refreshPingreqRecv c).cfg = c.cfg := by
  unfold refreshPingreqRecv; split <;> exact ⟨rfl, rfl, rfl, rfl⟩

theorem r5_propsFold_frame (l : List (Nat × Nat)) : ∀ c : C,
    (propsFold connectRecvProp c l).ev = c.ev ∧ (propsFold connectRecvProp c l).s.status = c.s.status ∧
    (propsFold connectRecvProp c l).s.isClient = c.s.isClient ∧ (propsFold connectRecvProp c l).s.ver = c.s.ver ∧
    (propsFold connectRecvProp c l).cfg = c.cfg := by
  induction l with
  | nil => intro c; exact ⟨rfl, rfl, rfl, rfl, rfl⟩
  | cons x rest ih =>
    intro c; obtain ⟨i, v⟩ := x
    rw [propsFold]
    obtain ⟨h1, h2, h3, h4, h5⟩ := ih (connectRecvProp c i v)
    have : (connectRecvProp c i v).ev = c.ev ∧ (connectRecvProp c i v).s.status = c.s.status ∧
        (connectRecvProp c i v).s.isClient = c.s.isClient ∧ (connectRecvProp c i v).s.ver = c.s.ver ∧
        (connectRecvProp c i v).cfg = c.cfg := by
      unfold connectRecvProp; (repeat' split) <;> exact ⟨rfl, rfl, rfl, rfl, rfl⟩
    exact ⟨h1.trans this.1, h2.trans this.2.1, h3.trans this.2.2.1, h4.trans this.2.2.2.1, h5.trans this.2.2.2.2⟩

/-- the tail shared by both CONNECT handlers -/
theorem r5_tail (c0 c : C) (p : Pkt) (hev : c.ev = c0.ev) (hst : c.s.status = .connecting)
    (hcl : c.s.isClient = false) (hcfg : c.cfg = c0.cfg) :
    r5_Delivered c0 p ((refreshPingreqRecv c).push (.recv p)) ∧
    ((refreshPingreqRecv c).push (.recv p)).s.ver = c.s.ver := by
  obtain ⟨mid, h1, h2⟩ := r5_refresh_ev c
  obtain ⟨g1, g2, g3, g4⟩ := r5_refresh_s c
  refine ⟨⟨⟨mid, ?_, h2⟩, g1.trans hst, g2.trans hcl, g4.trans hcfg⟩, g3⟩
  show (refreshPingreqRecv c).ev ++ [Ev.recv p] = _
  rw [h1, hev]

theorem r5_prV3Connect (c : C) (p : Pkt) (hs : c.s.status = .disconnected) :
    r5_Delivered c p (prV3Connect c (.ok p)) ∧ (prV3Connect c (.ok p)).s.ver = c.s.ver := by
  unfold prV3Connect
  rw [if_neg (by simp [hs])]
  simp only []
  refine r5_tail c _ p ?_ ?_ ?_ ?_ |>.imp id (fun h => h.trans ?_)
  · split <;> (split <;> rfl)
  · split <;> (split <;> rfl)
  · split <;> (split <;> rfl)
  · split <;> (split <;> rfl)
  · split <;> (split <;> rfl)

theorem r5_prV5Connect (c : C) (p : Pkt) (hs : c.s.status = .disconnected) :
    r5_Delivered c p (prV5Connect c (.ok p)) ∧ (prV5Connect c (.ok p)).s.ver = c.s.ver := by
  unfold prV5Connect
  rw [if_neg (by simp [hs])]
  simp only []
  have key : ∀ X : C, X.ev = c.ev → X.s.status = .connecting → X.s.isClient = false → X.cfg = c.cfg →
      X.s.ver = c.s.ver →
      r5_Delivered c p ((refreshPingreqRecv (propsFold connectRecvProp X p.props)).push (.recv p)) ∧
      ((refreshPingreqRecv (propsFold connectRecvProp X p.props)).push (.recv p)).s.ver = c.s.ver := by
    intro X h1 h2 h3 h4 h5
    obtain ⟨f1, f2, f3, f4, f5⟩ := r5_propsFold_frame p.props X
    exact (r5_tail c _ p (f1.trans h1) (f2.trans h2) (f3.trans h3) (f5.trans h4)).imp id
      (fun h => h.trans (f4.trans h5))
  apply key
  · split <;> (split <;> rfl)
  · split <;> (split <;> rfl)
  · split <;> (split <;> rfl)
  · split <;> (split <;> rfl)
  · split <;> (split <;> rfl)

/-- the version side condition of `process_recv_packet` for a CONNECT frame, and the version the
    connection has afterwards -/
def r5_VerOk (ver : Nat) (data : List Nat) (parse : Nat → Except Nat Pkt) (p : Pkt) : Prop :=
  (ver ≠ 0 ∧ parse ver = .ok p) ∨
  (ver = 0 ∧ 7 ≤ data.length ∧ (data.getD 6 0 = 4 ∨ data.getD 6 0 = 5) ∧ parse (data.getD 6 0) = .ok p)

def r5_verAfter (ver : Nat) (data : List Nat) : Nat := if ver = 0 then data.getD 6 0 else ver

/-- **C05 connect_not_delivered_while_disconnected**, packet handler -/
theorem C05_connect_delivered_when_disconnected_handler (c : C) (data : List Nat)
    (parse : Nat → Except Nat Pkt) (p : Pkt)
    (hr : c.cfg.role ≠ .client) (hs : c.s.status = .disconnected)
    (hsz : totalSize data.length ≤ c.s.mpsRecv)
    (hv : r5_VerOk c.s.ver data parse p) :
    r5_Delivered c p (processRecvPacket c 0x10 data parse) ∧
    (processRecvPacket c 0x10 data parse).s.ver = r5_verAfter c.s.ver data := by
  have hcr : canReceive c.cfg c.s 1 = true := by
    cases hc : c.cfg.role <;> simp_all [canReceive]
  unfold processRecvPacket
  rw [if_neg (by omega)]
  simp only [show (0x10 : Nat) / 16 = 1 from rfl, hcr, Bool.not_true, Bool.false_eq_true, if_false, if_true]
  rcases hv with ⟨h0, hp⟩ | ⟨h0, hl, hlv, hp⟩
  · rw [if_neg h0]
    unfold dispatchRecv
    simp only [hp, r5_verAfter, if_neg h0]
    split
    · exact r5_prV3Connect c p hs
    · exact r5_prV5Connect c p hs
  · rw [if_pos h0, if_neg (by omega)]
    simp only [r5_verAfter, if_pos h0]
    rcases hlv with e | e
    · rw [e] at hp
      simp only [e, if_true, hp]
      exact r5_prV3Connect ({ c with s := { c.s with ver := 4 } } : C) p hs
    · rw [e] at hp
      simp only [e, show ¬ ((5 : Nat) = 4) by decide, if_false, if_true, hp]
      exact r5_prV5Connect ({ c with s := { c.s with ver := 5 } } : C) p hs

/-- **C05 connect_not_delivered_while_disconnected**, `recv`: the one `feed` call of `recv`
    completes a frame with fixed header `0x10` -/
theorem C05_connect_delivered_when_disconnected_recv (c : C) (inp : List Nat)
    (parse : Nat → Nat → List Nat → Except Nat Pkt)
    (pb' : Framing.PB) (data rest : List Nat) (p : Pkt)
    (hf : Framing.feed c.s.pb inp = (pb', some (.complete 0x10 data), rest))
    (hr : c.cfg.role ≠ .client) (hs : c.s.status = .disconnected)
    (hsz : totalSize data.length ≤ c.s.mpsRecv)
    (hv : r5_VerOk c.s.ver data (fun v => parse v 0x10 data) p) :
    r5_Delivered c p (recv c inp parse).1 ∧ Ev.recv p ∈ (recv c inp parse).1.ev ∧
    (recv c inp parse).1.s.ver = r5_verAfter c.s.ver data ∧ (recv c inp parse).2 = rest := by
  have e : recv c inp parse =
      (processRecvPacket ({ c with s := { c.s with pb := pb' } } : C) 0x10 data (fun v => parse v 0x10 data), rest) := by
    unfold recv; rw [hf]
  rw [e]
  obtain ⟨h1, h2⟩ := C05_connect_delivered_when_disconnected_handler
    ({ c with s := { c.s with pb := pb' } } : C) data (fun v => parse v 0x10 data) p hr hs hsz hv
  refine ⟨h1, ?_, h2, rfl⟩
  obtain ⟨⟨mid, hm, _⟩, _⟩ := h1
  rw [hm]; simp

/-- a whole frame with a one-byte Remaining Length through an empty builder -/
theorem r5_feed_small_frame (fh n : Nat) (data : List Nat) (hn : 0 < n) (hn' : n < 128)
    (hl : data.length = n) :
    Framing.feed {} (fh :: n :: data) = (Framing.PB.reset, some (.complete fh data), []) := by
  have h1 : n % 128 = n := Nat.mod_eq_of_lt hn'
  have h2 : min n data.length = n := by omega
  simp only [Framing.feed, List.cons_ne_nil, if_false, List.length_cons]
  unfold Framing.feedLoop
  simp only []
  unfold Framing.feedLoop
  simp only [List.nil_append, List.headD_cons, Nat.mul_one, Nat.zero_add, h1]
  rw [if_neg (by omega), if_pos hn', if_neg (by omega)]
  unfold Framing.feedLoop
  simp only [h2]
  rw [if_neg (by omega), if_pos (by omega)]
  subst hl
  simp

/-- **C05 connect_not_delivered_while_disconnected**, empty packet builder, the buffer is exactly
    one CONNECT frame (one-byte Remaining Length) -/
theorem C05_connect_delivered_when_disconnected_fresh_builder (c : C) (n : Nat) (data : List Nat)
    (parse : Nat → Nat → List Nat → Except Nat Pkt) (p : Pkt)
    (hpb : c.s.pb = {}) (hn : 0 < n) (hn' : n < 128) (hl : data.length = n)
    (hr : c.cfg.role ≠ .client) (hs : c.s.status = .disconnected)
    (hsz : totalSize data.length ≤ c.s.mpsRecv)
    (hv : r5_VerOk c.s.ver data (fun v => parse v 0x10 data) p) :
    r5_Delivered c p (recv c (0x10 :: n :: data) parse).1 ∧
    Ev.recv p ∈ (recv c (0x10 :: n :: data) parse).1.ev ∧
    (recv c (0x10 :: n :: data) parse).2 = [] := by
  have hf := r5_feed_small_frame 0x10 n data hn hn' hl
  rw [← hpb] at hf
  obtain ⟨h1, h2, _, h4⟩ := C05_connect_delivered_when_disconnected_recv c _ parse _ data [] p hf hr hs hsz hv
  exact ⟨h1, h2, h4⟩

/-! ## non-vacuity and necessity of the side conditions: states reached from `St.init` -/
namespace C05R5Ex
def cfgS : Cfg := { role := .server, pw := 2 }
def connect (v : Nat) : Pkt := { ver := v, kind := .connect, size := 14, keepAlive := 10, clean := true }
def frame4 : List Nat := [0x10, 12, 0, 4, 77, 81, 84, 84, 4, 2, 0, 10, 0, 0]
def body4 : List Nat := [0, 4, 77, 81, 84, 84, 4, 2, 0, 10, 0, 0]
def parse : Nat → Nat → List Nat → Except Nat Pkt := fun v fh _ =>
  if fh = 0x10 then .ok (connect v) else .error eMalformed

-- a fresh server object (version undetermined): all side conditions hold, the CONNECT is delivered
example : (St.init cfgS 0).pb = {} ∧ (St.init cfgS 0).status = .disconnected ∧
    totalSize body4.length ≤ (St.init cfgS 0).mpsRecv ∧ body4.getD 6 0 = 4 := by decide
example : (step cfgS (St.init cfgS 0) (.recv frame4 parse)).ev
    = [.timerReset .pingreqRecv 15000, .recv (connect 4)] := by decide
example : Ev.recv (connect 4) ∈ (recv { cfg := cfgS, s := St.init cfgS 0 } frame4 parse).1.ev :=
  (C05_connect_delivered_when_disconnected_fresh_builder { cfg := cfgS, s := St.init cfgS 0 } 12 body4
    parse (connect 4) rfl (by decide) (by decide) rfl (by decide) rfl (by decide)
    (.inr ⟨rfl, by decide, .inl (by decide), rfl⟩)).2.1

/-- a server that had announced Maximum Packet Size 10 in its CONNACK and then sent DISCONNECT:
    `status = disconnected`, but `mpsRecv` still holds the old limit until `notify_closed` -/
def connack5 : Pkt := { ver := 5, kind := .connack, size := 8, rc := some 0, props := [(pMPS, 10)] }
def frame5 : List Nat := [0x10, 13, 0, 4, 77, 81, 84, 84, 5, 2, 0, 10, 0, 0, 0]
def sStale : St := run cfgS (St.init cfgS 0)
  [.recv frame5 parse, .send connack5, .send { ver := 5, kind := .disconnect, size := 2 }]
example : Reachable cfgS 0 sStale := ⟨_, rfl⟩
example : sStale.status = .disconnected ∧ sStale.mpsRecv = 10 ∧ sStale.pb = {} ∧ sStale.ver = 5 := by decide
-- `hsz` is necessary: the next CONNECT (15 bytes > 10) is refused on the stale limit …
example : (step cfgS sStale (.recv frame5 parse)).ev = [.error eNotAllowed, .error eTooLarge] := by decide
-- … and delivered once `notify_closed` has been called
example : (step cfgS (step cfgS sStale .closed).s (.recv frame5 parse)).ev
    = [.timerReset .pingreqRecv 15000, .recv (connect 5)] := by decide
-- `hs` is necessary: a second CONNECT on the established connection is a protocol error
example : (step cfgS (run cfgS (St.init cfgS 0) [.recv frame5 parse, .send { connack5 with props := [] }])
      (.recv frame5 parse)).ev
    = [.timerCancel .pingreqRecv, .send (mkV5Disconnect eProtocol) none, .close, .error eProtocol] := by decide
-- `hr` is necessary: a client does not accept a CONNECT
example : (step ⟨.client, 2⟩ (St.init ⟨.client, 2⟩ 0) (.recv frame4 parse)).ev = [.error eProtocol] := by decide
end C05R5Ex

end MqttVerif.Conn
