import MqttVerif.Conn.Lemmas.Basic
/-!
# C06 — outbound QoS 1/2: stored until acknowledged (first instalment)
-/
set_option linter.unusedSimpArgs false
set_option linter.unusedVariables false
namespace MqttVerif.Conn
open MqttVerif

/-- fix (finding #13): a QoS>0 PUBLISH passes the gate only if it will be sent now or stored —
    the gate admits no state in which it would be silently dropped -/
theorem C06_gate_sent_or_stored (s : St) (h : pubNotAllowed s = false) :
    s.status = .connected ∨ willStore s = true := by
  unfold pubNotAllowed at h
  unfold willStore
  by_cases hc : s.status = .connected
  · exact Or.inl hc
  · right
    simp only [hc, not_false_eq_true, true_and, Bool.not_eq_true', decide_eq_false_iff_not,
      Decidable.not_not] at h
    have h' := by simpa using h
    have h2 := h' hc
    simp only [Bool.and_eq_true, decide_eq_true_eq, Bool.or_eq_true]
    refine ⟨h2.1, ?_⟩
    by_cases hd : s.status = .disconnected
    · exact Or.inr (h2.2 hd)
    · exact Or.inl (by simpa using hd)

/-- an acknowledgement erases a stored packet only when kind *and* version of the expected
    response match; otherwise the store is unchanged -/
theorem C06_storeErase_only_matching (ver : Nat) (resp : Kind) (id : Nat) (st : List (Nat × Pkt)) :
    (∀ p, lookup id st = some p → ¬ (respOf p = resp ∧ p.ver = ver) → storeErase ver resp id st = st) ∧
    (lookup id st = none → storeErase ver resp id st = st) := by
  constructor
  · intro p hl hne; simp [storeErase, hl, hne]
  · intro hl; simp [storeErase, hl]

/-- a new session empties the store and the in-flight sets and frees every identifier -/
theorem C06_new_session_clears (c : C) :
    (clearStoreRelated c).s.store = [] ∧ (clearStoreRelated c).s.puback = [] ∧
    (clearStoreRelated c).s.pubrec = [] ∧ (clearStoreRelated c).s.pubcomp = [] ∧
    (clearStoreRelated c).s.pidMan.pool = [⟨c.s.pidMan.lowest, c.s.pidMan.highest⟩] := by
  simp [clearStoreRelated, Alloc.clear]

example : pubNotAllowed { (St.init ⟨.client, 2⟩ 4) with needStore := true } = true := by decide

end MqttVerif.Conn
