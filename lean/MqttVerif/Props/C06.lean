import MqttVerif.Conn.Lemmas.StoreSend
import MqttVerif.Props.C07
/-!
# C06 — outbound QoS 1/2: stored until acknowledged, retransmitted on session resume   (agent P7)

* (1) `C06_accepted_publish_not_dropped`
* (2) `C06_stored_until_acked` (`Leaves`: the complete list of ways an entry leaves the store in one
  call).  "The identifier of a stored entry stays in use" (driver monitor `stored_id_not_held`) is
  proved as `C06_stored_id_held_run` / `C06_stored_id_held_step` in `Props/C05.lean` (it lives on
  C05's invariant; the two lemma chains cannot be imported together), under the ownership rule
  `Hd.LegalIds`; the one-step formulation `C06_id_held_full` below is FALSE as stated
  (`C06_id_held_full_false`: it lacks "the parser returns packets of the connection's version").
* (3) `C06_unmatched_ack_is_error_noop_v3` / `_v5`
* (4) `C06_resume_resends_client_v3` / `_client_v5` / `_server`; `C06_stored_publish_regulated_partial`
  (the invariant itself is stated as `C06_stored_publish_regulated_full`, not proved)
* (5) `C06_no_session_clears_connack` / `_connect`, `C06_new_session_server`
* witnesses: `C06Ex.finding20_server_connack_sp_false_starts_new_session`, `C06Ex.pubrec_0x10_releases_id`
`ParseOk` (from C07): the parser returns packets of the type it was invoked for.
-/
namespace MqttVerif.Conn
open MqttVerif
set_option linter.unusedSimpArgs false

/-! ## (3) an acknowledgement that matches nothing in flight: protocol error, nothing changes -/

theorem dispatch_unmatched (c : C) (t : Nat) (p : Pkt) (ht : t = 4 ∨ t = 5 ∨ t = 7)
    (hn : p.pid.getD 0 ∉ waitSet c.s t) : dispatchRecv c t (.ok p) = vErr c eProtocol := by
  rcases ht with rfl | rfl | rfl <;> simp [waitSet] at hn <;> simp [dispatchRecv, prPuback, prPubrec, prPubcomp, hn]

/-- **C06 (3), v3.1.1**: a received PUBACK / PUBREC / PUBCOMP (parsed successfully) whose
    identifier is not awaited: the events are exactly `[RequestClose, NotifyError(ProtocolError)]`
    and the state is unchanged (apart from the consumed frame buffer): in particular `store`,
    `pid_man` and the five wait sets. -/
theorem C06_unmatched_ack_is_error_noop_v3 {cfg : Cfg} {s : St} {inp : List Nat} {pb' : Framing.PB} {fh : Nat}
    {data : List Nat} (parse : Nat → Nat → List Nat → Except Nat Pkt) {p : Pkt}
    (h : Delivers cfg s inp pb' fh data) (hv : s.ver = 4) (hp : parse 4 fh data = .ok p)
    (ht : fh / 16 = 4 ∨ fh / 16 = 5 ∨ fh / 16 = 7) (hn : p.pid.getD 0 ∉ waitSet s (fh / 16)) :
    (step cfg s (.recv inp parse)).ev = [.close, .error eProtocol] ∧
    (step cfg s (.recv inp parse)).s = { s with pb := pb' } := by
  rw [step_recv_of_delivers h, hv, hp, dispatch_unmatched _ _ _ ht (by simpa [waitSet] using hn)]
  simp [vErr, hv, handleV3Error]

theorem handleV5Error_connected (c : C) (e : Nat) (hs : c.s.status = .connected) :
    errs (handleV5Error c e).ev = errs c.ev ++ [e] ∧
    sends (handleV5Error c e).ev = sends c.ev ++
      (if sizeOk c (mkV5Disconnect (errToDisconnectRc e)) then [mkV5Disconnect (errToDisconnectRc e)] else []) ∧
    Ev.close ∈ (handleV5Error c e).ev ∧
    (handleV5Error c e).ev.getLast? = some (.error e) := by
  simp only [handleV5Error, v5DisconnectOrClose, psV5Disconnect]
  cases hz : sizeOk c (mkV5Disconnect (errToDisconnectRc e)) <;> simp [hs, hz, sizeOk]

theorem handleV5Error_not_connected (c : C) (e : Nat) (hs : c.s.status ≠ .connected) :
    (handleV5Error c e).ev = c.ev ++
      [.error (if sizeOk c (mkV5Disconnect (errToDisconnectRc e)) then eNotAllowed else eTooLarge), .error e] := by
  simp only [handleV5Error, v5DisconnectOrClose, psV5Disconnect]
  cases hz : sizeOk c (mkV5Disconnect (errToDisconnectRc e)) <;> simp [hs, hz]

/-- **C06 (3), v5.0**: the unmatched acknowledgement leaves `store`, `pid_man` and the five wait
    sets unchanged; the last event is `NotifyError(ProtocolError)`.
    While connected: DISCONNECT(0x82) is requested (if the peer's Maximum Packet Size admits its 3
    bytes), then `RequestClose`, and the only error event is the ProtocolError.  While not
    connected: no send, no close; the error events are `[NotAllowed | PacketTooLarge, ProtocolError]`
    (the inner attempt to send DISCONNECT is itself reported). -/
theorem C06_unmatched_ack_is_error_noop_v5 {cfg : Cfg} {s : St} {inp : List Nat} {pb' : Framing.PB} {fh : Nat}
    {data : List Nat} (parse : Nat → Nat → List Nat → Except Nat Pkt) {p : Pkt}
    (h : Delivers cfg s inp pb' fh data) (hv : s.ver = 5) (hp : parse 5 fh data = .ok p)
    (ht : fh / 16 = 4 ∨ fh / 16 = 5 ∨ fh / 16 = 7) (hn : p.pid.getD 0 ∉ waitSet s (fh / 16)) :
    let c' := step cfg s (.recv inp parse)
    (c'.s.store = s.store ∧ c'.s.pidMan = s.pidMan ∧ c'.s.puback = s.puback ∧ c'.s.pubrec = s.pubrec ∧
      c'.s.pubcomp = s.pubcomp ∧ c'.s.suback = s.suback ∧ c'.s.unsuback = s.unsuback) ∧
    c'.ev.getLast? = some (.error eProtocol) ∧
    (s.status = .connected →
      errs c'.ev = [eProtocol] ∧ Ev.close ∈ c'.ev ∧
      sends c'.ev = if 3 ≤ s.mpsSend then [mkV5Disconnect 0x82] else []) ∧
    (s.status ≠ .connected →
      c'.ev = [.error (if 3 ≤ s.mpsSend then eNotAllowed else eTooLarge), .error eProtocol]) := by
  intro c'
  have e : c' = handleV5Error { cfg := cfg, s := { s with pb := pb' } } eProtocol := by
    show step cfg s (.recv inp parse) = _
    rw [step_recv_of_delivers h, hv, hp, dispatch_unmatched _ _ _ ht (by simpa [waitSet] using hn)]
    simp [vErr, hv]
  have hrc : errToDisconnectRc eProtocol = 0x82 := by decide
  have hsz : sizeOk { cfg := cfg, s := { s with pb := pb' } } (mkV5Disconnect 0x82) = decide (3 ≤ s.mpsSend) := by
    simp only [sizeOk, Pkt.sz, mkV5Disconnect]
    by_cases h3 : 3 ≤ s.mpsSend <;> simp [h3] <;> omega
  refine ⟨by rw [e]; simp, ?_, ?_, ?_⟩
  · by_cases hs : s.status = .connected
    · rw [e]; exact (handleV5Error_connected _ _ hs).2.2.2
    · rw [e, handleV5Error_not_connected _ _ hs]; simp
  · intro hs
    obtain ⟨a, b, c, _⟩ := handleV5Error_connected { cfg := cfg, s := { s with pb := pb' } } eProtocol hs
    rw [e]
    refine ⟨by simpa using a, c, ?_⟩
    rw [b, hrc, hsz]; simp
  · intro hs
    rw [e, handleV5Error_not_connected _ _ hs, hrc, hsz]; simp


/-! ## (1) an accepted QoS 1/2 PUBLISH is sent or stored -/

theorem errs_eq_nil_of_no_error {ev : List Ev} (h : ∀ e, Ev.error e ∉ ev) : errs ev = [] := by
  apply List.eq_nil_iff_forall_not_mem.2
  intro x hx
  exact h x (mem_errs.1 hx)

/-- **C06 (1)**: a QoS 1/2 PUBLISH that `send` accepts without a `NotifyError` is requested for
    sending in this call (same identifier, a PUBLISH — possibly with its topic replaced by an
    alias) or an entry with its identifier is in the store afterwards: never silently dropped.
    Every configuration, state, both versions (any `p.ver`). -/
theorem C06_accepted_publish_not_dropped (cfg : Cfg) (s : St) (p : Pkt) (id : Nat)
    (hk : p.kind = .publish) (hq : p.qos = 1 ∨ p.qos = 2) (hid : p.pid = some id)
    (hne : ∀ e, Ev.error e ∉ (step cfg s (.send p)).ev) :
    (∃ q r, Ev.send q r ∈ (step cfg s (.send p)).ev ∧ q.pid = some id ∧ q.kind = .publish) ∨
    (∃ q, (id, q) ∈ (step cfg s (.send p)).s.store) := by
  have herr := errs_eq_nil_of_no_error hne
  have hq' : p.qos > 0 := by omega
  simp only [step, send] at herr ⊢
  by_cases hv : s.ver ≠ p.ver
  · simp [hv] at herr
  · have hr : roleMaySend cfg.role p = true := by simp [roleMaySend, hk]
    simp only [hv, if_false, hr, Bool.not_true, Bool.false_eq_true, processSend, hk] at herr ⊢
    by_cases h4 : p.ver = 4
    · simp only [h4, if_true] at herr ⊢
      rcases psV3Publish_not_dropped _ p id hq' hid (by rw [herr]; rfl) with h | h
      · obtain ⟨r, hr⟩ := mem_sends.1 h
        exact .inl ⟨p, r, hr, hid, hk⟩
      · exact .inr h
    · simp only [h4, if_false] at herr ⊢
      rcases psV5Publish_not_dropped _ p id hq' hid (by rw [herr]; rfl) with ⟨q, h1, h2, h3⟩ | h
      · obtain ⟨r, hr⟩ := mem_sends.1 h1
        exact .inl ⟨q, r, hr, h2, h3.trans hk⟩
      · exact .inr h


/-! ## (2) stored until acknowledged: every way an entry leaves the store in one call -/

/-- the call re-establishes a connection on a present session: a CONNACK(0, session present) was
    sent (server) or received (client) -/
def Resumes (cfg : Cfg) (s : St) (op : Op) : Prop :=
  (∃ p, op = .send p ∧ p.kind = .connack ∧ p.rc = some 0 ∧ p.sp = true ∧ p ∈ sends (step cfg s op).ev) ∨
  (∃ p, recvs (step cfg s op).ev = [p] ∧ p.kind = .connack ∧ p.rc = some 0 ∧ p.sp = true)

/-- the ways an entry with identifier `id` and packet `q` leaves the store in the call `op` -/
inductive Leaves (cfg : Cfg) (s : St) (op : Op) (id : Nat) (q : Pkt) : Prop
  /-- (i) the matching acknowledgement was received: a PUBACK / PUBREC / PUBCOMP with that
      identifier, awaited (in the corresponding wait set), and the store's entry for the
      identifier has that response kind AND that protocol version -/
  | acked (p q0 : Pkt) : recvs (step cfg s op).ev = [p] →
      (p.kind = .puback ∨ p.kind = .pubrec ∨ p.kind = .pubcomp) → p.pid.getD 0 = id →
      id ∈ waitSet s p.kind.nibble → lookup id s.store = some q0 → respOf q0 = p.kind → q0.ver = p.ver →
      Leaves cfg s op id q
  /-- (ii) `erase_stored_publish(id)`, the entry for `id` being a PUBLISH -/
  | erased (q0 : Pkt) : op = .erase id → lookup id s.store = some q0 → q0.kind = .publish → Leaves cfg s op id q
  /-- (iii) dropped as oversize when the store is resent on resume -/
  | oversizeOnResume : Resumes cfg s op → q.sz cfg.pw > (step cfg s op).s.mpsSend → Leaves cfg s op id q
  /-- (iv) new session: CONNECT(clean) / CONNACK(no session) received … -/
  | newSessionRecv (p : Pkt) : recvs (step cfg s op).ev = [p] → NewSessionPkt p →
      (step cfg s op).s.store = [] → Leaves cfg s op id q
  /-- … or CONNECT(clean) sent -/
  | connectCleanSent (p : Pkt) : op = .send p → p.kind = .connect → p.clean = true →
      (step cfg s op).s.store = [] → Leaves cfg s op id q
  /-- … or new session started by the CONNACK we sent (fix 10ee029): CONNACK(success) with
      session present = false accepted for sending -/
  | connackNoSessionSent (p : Pkt) : op = .send p → p.kind = .connack → p.rc = some 0 → p.sp = false →
      (step cfg s op).s.store = [] → Leaves cfg s op id q
  /-- (iv) non-persistent close -/
  | closedNonPersistent : op = .closed → s.needStore = false → (step cfg s op).s.store = [] → Leaves cfg s op id q
  /-- (v) the refusal cleanup of a v5.0 PUBLISH with this identifier (an error event is pushed) -/
  | refused (p : Pkt) : op = .send p → p.kind = .publish → p.ver ≠ 4 → p.pid = some id →
      (∃ e, Ev.error e ∈ (step cfg s op).ev) → Leaves cfg s op id q

theorem ackKind_of_nibble {k : Kind} {t : Nat} (h : k.nibble = t) (ht : t = 4 ∨ t = 5 ∨ t = 7) :
    k = ackKind t ∧ (k = .puback ∨ k = .pubrec ∨ k = .pubcomp) := by
  rcases ht with rfl | rfl | rfl <;> cases k <;> simp [Kind.nibble, ackKind] at h ⊢

/-- **C06 (2)**: an entry leaves the store only by (i)–(v). -/
theorem C06_stored_until_acked (cfg : Cfg) (s : St) (op : Op) (hwf : OpWf op) (id : Nat) (q : Pkt)
    (h1 : (id, q) ∈ s.store) (h2 : (id, q) ∉ (step cfg s op).s.store) : Leaves cfg s op id q := by
  cases op with
  | send p =>
    rcases send_leaves { cfg := cfg, s := s } p h1 h2 with
      ⟨a, b, d⟩ | ⟨a, b, hsp, d, e⟩ | ⟨a, b, d, e⟩ | ⟨a, b, hsp, d⟩
    rotate_right
    · exact .connackNoSessionSent p rfl a b hsp d
    · exact .connectCleanSent p rfl a b d
    · refine .oversizeOnResume (.inl ⟨p, rfl, a, b, hsp, d⟩) ?_
      have : (id, q) ∉ fits cfg.pw (step cfg s (.send p)).s.mpsSend s.store := by
        have := e ▸ h2; exact this
      rw [mem_fits] at this
      have h3 : ¬ q.sz cfg.pw ≤ (step cfg s (.send p)).s.mpsSend := fun h => this ⟨h1, h⟩
      omega
    · refine .refused p rfl a b e ?_
      have hne : errs (step cfg s (.send p)).ev ≠ [] := d
      cases hl : errs (step cfg s (.send p)).ev with
      | nil => exact absurd hl hne
      | cons x t => exact ⟨x, mem_errs.1 (by rw [hl]; simp)⟩
  | recv inp parse =>
    obtain ⟨v, fh, d, h⟩ := recv_st { cfg := cfg, s := s } inp parse
    have hk : ∀ p, parse v fh d = .ok p → p.kind.nibble = fh / 16 := fun p hp => (hwf v fh d p hp).1
    cases h with
    | keep a => exact absurd (a _ h1) h2
    | ack p hx ht hm a b =>
      have h3 : (id, q) ∉ storeErase p.ver (ackKind (fh / 16)) (p.pid.getD 0) s.store := fun h => h2 (b _ h)
      obtain ⟨e1, q0, e2, e3, e4⟩ := storeErase_removed h1 h3
      obtain ⟨k1, k2⟩ := ackKind_of_nibble (hk p hx) ht
      simp only at e1
      refine .acked p q0 (by simpa [step] using a) k2 e1.symm ?_ (by rw [e1]; exact e2) (by rw [e3, k1]) e4
      rw [hk p hx, e1]; exact hm
    | resume p hx ht hr hs a b =>
      have hkc : p.kind = .connack := by
        have := hk p hx; rw [ht] at this; exact nibble_inj this
      refine .oversizeOnResume (.inr ⟨p, by simpa [step] using a, hkc, hr, hs⟩) ?_
      have : (id, q) ∉ fits cfg.pw (step cfg s (.recv inp parse)).s.mpsSend s.store := by
        have := b ▸ h2; exact this
      rw [mem_fits] at this
      have h3 : ¬ q.sz cfg.pw ≤ (step cfg s (.recv inp parse)).s.mpsSend := fun h => this ⟨h1, h⟩
      omega
    | newSess p hx hn a b =>
      refine .newSessionRecv p (by simpa [step] using a) ?_ b
      have := hk p hx
      rcases hn with ⟨ht, hc⟩ | ⟨ht, hr⟩
      · rw [ht] at this; exact .inl ⟨nibble_inj this, hc⟩
      · rw [ht] at this; exact .inr ⟨nibble_inj this, hr⟩
  | timer k => exact absurd (by simpa [step] using h1) h2
  | closed =>
    cases hn : s.needStore
    · exact .closedNonPersistent rfl hn (by simp [step, notifyClosed_store, hn])
    · exact absurd (by simpa [step, notifyClosed_store, hn] using h1) h2
  | setInterval d => exact absurd (by simpa [step] using h1) h2
  | setFlag f b => exact absurd (by cases f <;> simpa [step, setFlag] using h1) h2
  | setRespTimeout ms => exact absurd (by simpa [step] using h1) h2
  | acquire => exact absurd (by simpa [step] using h1) h2
  | register id => exact absurd (by simpa [step] using h1) h2
  | release id => exact absurd (by simpa [step] using h1) h2
  | erase id' =>
    obtain ⟨e1, q0, e2, e3⟩ := eraseStoredPublish_leaves { cfg := cfg, s := s } id' h1 h2
    simp only at e1
    subst e1
    exact .erased q0 rfl e2 e3
  | restoreHandled ids => exact absurd (by simpa [step] using h1) h2
  | restorePackets ps => exact absurd (restorePackets_mono { cfg := cfg, s := s } ps h1) h2


/-- The one-step formulation left unproved by the first pass: while an entry stays stored its
    identifier stays in use, under the ownership hypothesis (the identifier is awaited only in the
    wait set matching the entry, the entry has the connection's version, and the application
    neither releases the identifier nor reuses it for another PUBLISH / SUBSCRIBE / UNSUBSCRIBE).
    It is **false** as stated (`C06_id_held_full_false`): `OpWf` lets the parser answer with a packet
    of another protocol version, whose PUBACK releases the identifier without erasing the stored
    packet (`Store::erase` compares versions).  The correct statement — parser results of the
    connection's version (`ParserOk`), ownership rule `Hd.LegalIds` — is `C06_stored_id_held_step` /
    `C06_stored_id_held_run` in `Props/C05.lean`. -/
def C06_id_held_full : Prop :=
  ∀ (cfg : Cfg) (s : St) (op : Op) (id : Nat) (q : Pkt), OpWf op →
    (id, q) ∈ s.store → (id, q) ∈ (step cfg s op).s.store → isUsed s id = true →
    id ∉ s.suback → id ∉ s.unsuback → q.ver = s.ver →
    (∀ t, id ∈ waitSet s t → respOf q = ackKind t ∧ (t = 4 ∨ t = 5 ∨ t = 7)) →
    op ≠ .release id → (∀ p, op = .send p → p.pid.getD 0 ≠ id) →
    isUsed (step cfg s op).s id = true

/-! ## (5) no session: the store is emptied and its identifiers are freed -/

/-- store empty, wait sets empty, every packet identifier free -/
def Cleared (s : St) : Prop :=
  s.store = [] ∧ s.puback = [] ∧ s.pubrec = [] ∧ s.pubcomp = [] ∧ ∀ id, isUsed s id = false

theorem isUsed_clear (a : Alloc.A) (v : Nat) : Alloc.isUsed (Alloc.clear a) v = false := by
  simp only [Alloc.isUsed, Alloc.clear, Alloc.Free]
  by_cases h1 : a.lowest ≤ v
  · by_cases h2 : v ≤ a.highest
    · simp [h1, h2]
    · simp [h2]
  · simp [h1]

theorem cleared_of_clear {s : St} {c : C} (h1 : s.store = (clearStoreRelated c).s.store)
    (h2 : s.puback = (clearStoreRelated c).s.puback) (h3 : s.pubrec = (clearStoreRelated c).s.pubrec)
    (h4 : s.pubcomp = (clearStoreRelated c).s.pubcomp) (h5 : s.pidMan = (clearStoreRelated c).s.pidMan) :
    Cleared s := by
  refine ⟨by rw [h1]; rfl, by rw [h2]; rfl, by rw [h3]; rfl, by rw [h4]; rfl, fun id => ?_⟩
  simp only [isUsed, h5, clearStoreRelated]
  exact isUsed_clear _ _

/-- **C06 (5)**, client: CONNACK(Accepted / Success) received with session present = false. -/
theorem C06_no_session_clears_connack {cfg : Cfg} {s : St} {inp : List Nat} {pb' : Framing.PB} {fh : Nat}
    {data : List Nat} (parse : Nat → Nat → List Nat → Except Nat Pkt) {p : Pkt}
    (h : Delivers cfg s inp pb' fh data) (ht : fh / 16 = 2) (hv : s.ver = 4 ∨ s.ver = 5)
    (hp : parse s.ver fh data = .ok p) (hrc : p.rc = some 0) (hsp : p.sp = false) (hst : s.status ≠ .connected) :
    Cleared (step cfg s (.recv inp parse)).s := by
  rw [step_recv_of_delivers h, ht, hp]
  rcases hv with hv | hv
  · simp only [dispatchRecv, hv, if_true, prV3Connack, hst, if_false, hrc, hsp, push_s]
    exact cleared_of_clear rfl rfl rfl rfl rfl
  · simp only [dispatchRecv, hv, prV5Connack, hst, if_false, hrc, hsp, push_s]
    exact cleared_of_clear rfl rfl rfl rfl rfl

/-- **C06 (5)**: CONNECT with clean start / clean session accepted for sending. -/
theorem C06_no_session_clears_connect (cfg : Cfg) (s : St) (p : Pkt)
    (hk : p.kind = .connect) (hv : p.ver = s.ver) (hrole : cfg.role ≠ .server) (hc : p.clean = true)
    (hst : s.status = .disconnected) (hsz : p.ver = 4 ∨ p.sz cfg.pw ≤ s.mpsSend) :
    Cleared (step cfg s (.send p)).s := by
  have hr : roleMaySend cfg.role p = true := by
    cases h : cfg.role <;> simp_all [roleMaySend]
  simp only [step, send, processSend, hk, hv, hr]
  by_cases h4 : p.ver = 4
  · simp only [h4, ← hv, psV3Connect, hst, hc]
    simp only [ne_eq, not_true_eq_false, if_false, Bool.not_true, Bool.false_eq_true, if_true]
    refine cleared_of_clear (c := initConn { cfg := cfg, s := { s with status := .connecting, keepAliveMs := p.keepAlive * 1000 } } true)
      ?_ ?_ ?_ ?_ ?_ <;> simp [clearStoreRelated, initConn]
  · have hs : sizeOk { cfg := cfg, s := s } p = true := by
      rcases hsz with h | h
      · exact absurd h h4
      · simp [sizeOk]; omega
    simp only [h4, ← hv, psV5Connect, hst, hc, hs]
    simp only [ne_eq, not_true_eq_false, if_false, Bool.not_true, Bool.false_eq_true, if_true]
    refine cleared_of_clear (c := initConn { cfg := cfg, s := { s with status := .connecting, keepAliveMs := p.keepAlive * 1000 } } true)
      ?_ ?_ ?_ ?_ ?_ <;>
      simp [propsFold_frame (fun c => c.s.store), propsFold_frame (fun c => c.s.puback),
        propsFold_frame (fun c => c.s.pubrec), propsFold_frame (fun c => c.s.pubcomp),
        propsFold_frame (fun c => c.s.pidMan), clearStoreRelated, initConn]

/-! ## (4) resume: the stored packets are resent, in store order, right after the CONNACK -/

@[simp] theorem connackRecvProp_sends (c : C) (i v : Nat) : sends (connackRecvProp c i v).ev = sends c.ev := by
  frame_tac connackRecvProp

/-- **C06 (4)**, client v3.1.1: CONNACK(Accepted, session present) received while not connected:
    the `RequestSendPacket` events of the call are exactly the stored packets that fit the peer's
    Maximum Packet Size, in store order (the stored copies themselves: same identifiers), and
    exactly those stay stored. -/
theorem C06_resume_resends_client_v3 {cfg : Cfg} {s : St} {inp : List Nat} {pb' : Framing.PB} {fh : Nat}
    {data : List Nat} (parse : Nat → Nat → List Nat → Except Nat Pkt) {p : Pkt}
    (h : Delivers cfg s inp pb' fh data) (ht : fh / 16 = 2) (hv : s.ver = 4)
    (hp : parse 4 fh data = .ok p) (hrc : p.rc = some 0) (hsp : p.sp = true) (hst : s.status ≠ .connected) :
    sends (step cfg s (.recv inp parse)).ev = (fits cfg.pw s.mpsSend s.store).map (·.2) ∧
    (step cfg s (.recv inp parse)).s.store = fits cfg.pw s.mpsSend s.store := by
  rw [step_recv_of_delivers h, ht, hv, hp]
  simp only [dispatchRecv, hv, if_true, prV3Connack, hst, if_false, hrc, hsp, push_s, push_ev]
  simp [sendStored_sends, sendStored_store]

/-- **C06 (4)**, client v5.0 (CONNACK without Session Expiry Interval 0): as above, the limit being
    the Maximum Packet Size in force after the CONNACK's properties were applied. -/
theorem C06_resume_resends_client_v5 {cfg : Cfg} {s : St} {inp : List Nat} {pb' : Framing.PB} {fh : Nat}
    {data : List Nat} (parse : Nat → Nat → List Nat → Except Nat Pkt) {p : Pkt}
    (h : Delivers cfg s inp pb' fh data) (ht : fh / 16 = 2) (hv : s.ver = 5)
    (hp : parse 5 fh data = .ok p) (hrc : p.rc = some 0) (hsp : p.sp = true) (hst : s.status ≠ .connected)
    (hsei : (pSEI, 0) ∉ p.props) :
    sends (step cfg s (.recv inp parse)).ev =
      (fits cfg.pw (step cfg s (.recv inp parse)).s.mpsSend s.store).map (·.2) ∧
    (step cfg s (.recv inp parse)).s.store = fits cfg.pw (step cfg s (.recv inp parse)).s.mpsSend s.store := by
  have e : step cfg s (.recv inp parse) =
      (resendStored (propsFold connackRecvProp
        { cfg := cfg, s := { ({ s with pb := pb' } : St) with status := .connected } } p.props)).push (.recv p) := by
    rw [step_recv_of_delivers h, ht, hv, hp]
    simp [dispatchRecv, hv, prV5Connack, hst, hrc, hsp]
  have hstore := propsFold_connackRecvProp_store
    { cfg := cfg, s := { ({ s with pb := pb' } : St) with status := .connected } } p.props
  rcases hstore with hs | ⟨_, hm⟩
  · rw [e]
    simp only [push_ev, push_s, sends_append, resendStored_sends, resendStored_store, resendStored_mpsSend,
      sendStored_sends, sendStored_store, sendStored_mpsSend,
      connackRecvProp_mpsSend_cfg, hs,
      propsFold_frame (fun c => sends c.ev) connackRecvProp connackRecvProp_sends]
    simp
  · exact absurd hm hsei

/-- the context `send_stored` runs in when a CONNACK(success, session present) is received: `s`
    with status `connected` (v3.1.1), resp. that with the CONNACK's properties applied (v5.0) -/
def resumeCtx (cfg : Cfg) (s : St) (pb' : Framing.PB) (p : Pkt) : C :=
  if s.ver = 4 then { cfg := cfg, s := { ({ s with pb := pb' } : St) with status := .connected } }
  else propsFold connackRecvProp
    { cfg := cfg, s := { ({ s with pb := pb' } : St) with status := .connected } } p.props

/-- **C06 (4)**, client, the whole event list of the resuming call (fix 999e935): the events up to
    and including those of `send_stored` (the stored packets that fit, in store order, as
    `RequestSendPacket`; a `NotifyPacketIdReleased` for each dropped oversize entry), then **at
    most one** `RequestTimerReset(PingreqSend)` — the re-arm of the keep-alive timer after the
    retransmission — then the delivery of the CONNACK.  The packets sent and their order
    (`C06_resume_resends_client_v3/_v5`) are unchanged by the fix. -/
theorem C06_resume_events_client {cfg : Cfg} {s : St} {inp : List Nat} {pb' : Framing.PB} {fh : Nat}
    {data : List Nat} (parse : Nat → Nat → List Nat → Except Nat Pkt) {p : Pkt}
    (h : Delivers cfg s inp pb' fh data) (ht : fh / 16 = 2) (hv : s.ver = 4 ∨ s.ver = 5)
    (hp : parse s.ver fh data = .ok p) (hrc : p.rc = some 0) (hsp : p.sp = true) (hst : s.status ≠ .connected) :
    ∃ t, (t = [] ∨ ∃ ms, t = [Ev.timerReset .pingreqSend ms]) ∧
      (step cfg s (.recv inp parse)).ev = (sendStored (resumeCtx cfg s pb' p)).ev ++ t ++ [.recv p] := by
  rw [step_recv_of_delivers h, ht, hp]
  have key : ∀ c0 : C, ∃ t, (t = [] ∨ ∃ ms, t = [Ev.timerReset .pingreqSend ms]) ∧
      ((resendStored c0).push (.recv p)).ev = (sendStored c0).ev ++ t ++ [.recv p] := by
    intro c0
    rcases resendStored_ev_cases c0 with e | ⟨ms, e⟩
    · exact ⟨[], .inl rfl, by rw [push_ev, e]; simp⟩
    · exact ⟨_, .inr ⟨ms, rfl⟩, by rw [push_ev, e]⟩
  rcases hv with hv | hv
  · simp only [dispatchRecv, hv, if_true, prV3Connack, hst, if_false, hrc, hsp, resumeCtx]
    exact key _
  · have h54 : ¬ (5 : Nat) = 4 := by decide
    simp only [dispatchRecv, hv, prV5Connack, hst, if_false, hrc, hsp, resumeCtx, h54, if_true]
    exact key _

/-- **C06 (4)**, server: a successful CONNACK with session present accepted for sending: the
    `RequestSendPacket` events are the CONNACK itself followed by the stored packets that fit, in
    store order — nothing else before them.  (With session_present = false the CONNACK starts a
    new session instead — fix 10ee029, see C10 and `C06_new_session_server` below.) -/
theorem C06_resume_resends_server (cfg : Cfg) (s : St) (p : Pkt)
    (hk : p.kind = .connack) (hv : p.ver = s.ver) (hrole : cfg.role ≠ .client) (hrc : p.rc = some 0)
    (hsp : p.sp = true)
    (hst : s.status = .connecting) (hsz : p.ver = 4 ∨ p.sz cfg.pw ≤ s.mpsSend) :
    sends (step cfg s (.send p)).ev = p :: (fits cfg.pw s.mpsSend s.store).map (·.2) ∧
    (step cfg s (.send p)).s.store = fits cfg.pw s.mpsSend s.store := by
  have hr : roleMaySend cfg.role p = true := by
    cases h : cfg.role <;> simp_all [roleMaySend]
  simp only [step, send, processSend, hk, hv, hr]
  by_cases h4 : p.ver = 4
  · simp only [h4, ← hv, psV3Connack, hst, hrc, hsp]
    simp [sendStored_sends, sendStored_store]
  · have hs : sizeOk { cfg := cfg, s := s } p = true := by
      rcases hsz with h | h
      · exact absurd h h4
      · simp [sizeOk]; omega
    simp only [h4, ← hv, psV5Connack, hst, hrc, hs, hsp]
    simp [sendStored_sends, sendStored_store, propsFold_frame (fun c => sends c.ev),
      propsFold_frame (fun c => c.s.store), propsFold_frame (fun c => c.s.mpsSend), propsFold_frame (fun c => c.cfg)]

/-- **C06 (5)**, server: a successful CONNACK with session present = false accepted for sending
    starts a new session (fix 10ee029): the only `RequestSendPacket` event is the CONNACK itself —
    no stored packet is requested for sending — and the store is emptied, the wait sets are
    emptied and every packet identifier is freed. -/
theorem C06_new_session_server (cfg : Cfg) (s : St) (p : Pkt)
    (hk : p.kind = .connack) (hv : p.ver = s.ver) (hrole : cfg.role ≠ .client) (hrc : p.rc = some 0)
    (hsp : p.sp = false)
    (hst : s.status = .connecting) (hsz : p.ver = 4 ∨ p.sz cfg.pw ≤ s.mpsSend) :
    sends (step cfg s (.send p)).ev = [p] ∧ Cleared (step cfg s (.send p)).s := by
  have hr : roleMaySend cfg.role p = true := by
    cases h : cfg.role <;> simp_all [roleMaySend]
  simp only [step, send, processSend, hk, hv, hr]
  by_cases h4 : p.ver = 4
  · simp only [h4, ← hv, psV3Connack, hst, hrc, hsp]
    simp only [ne_eq, not_true_eq_false, if_false, Bool.not_true, Bool.false_eq_true, if_true]
    refine ⟨by simp [clearStoreRelated], ?_⟩
    exact cleared_of_clear
      (c := { cfg := cfg, s := { s with status := .connected }, ev := [.send p none] })
      (by simp [clearStoreRelated]) (by simp [clearStoreRelated]) (by simp [clearStoreRelated])
      (by simp [clearStoreRelated]) (by simp [clearStoreRelated])
  · have hs : sizeOk { cfg := cfg, s := s } p = true := by
      rcases hsz with h | h
      · exact absurd h h4
      · simp [sizeOk]; omega
    simp only [h4, ← hv, psV5Connack, hst, hrc, hs, hsp]
    simp only [ne_eq, not_true_eq_false, if_false, Bool.not_true, Bool.false_eq_true, if_true]
    refine ⟨by simp [clearStoreRelated, propsFold_frame (fun c => sends c.ev)], ?_⟩
    refine cleared_of_clear (c := propsFold connackSendProp { cfg := cfg, s := s } p.props)
      ?_ ?_ ?_ ?_ ?_ <;> simp [clearStoreRelated]

/-- what the store copy of a v5.0 PUBLISH looks like when `send` creates it (`psV5Publish`): DUP
    set, no Topic Alias property, topic taken from the packet or — for an alias-only packet —
    from the alias table.  PARTIAL: the full `C06_stored_publish_regulated` (an invariant of the
    store preserved by every call, with a hypothesis on `restorePackets`' input and the
    alias-table invariant "registered topics are non-empty") was not proved in the time budget. -/
def C06_stored_publish_regulated_full : Prop :=
  ∀ cfg ver ops, (∀ op ∈ ops, OpWf op ∧ ∀ ps, op = .restorePackets ps →
      ∀ q ∈ ps, q.kind = .publish → q.ver = 5 → q.dup = true ∧ q.topic ≠ [] ∧ q.alias = none) →
    ∀ e ∈ (run cfg (St.init cfg ver) ops).store, e.2.kind = .publish → e.2.ver = 5 →
      e.2.dup = true ∧ e.2.topic ≠ [] ∧ e.2.alias = none

theorem C06_stored_publish_regulated_partial (c : C) (id : Nat) (p : Pkt) (site : String) (topic : List Nat)
    (e : Nat × Pkt) (h : e ∈ (storeAdd c id { p with topic := topic, alias := none, dup := true } site).s.store) :
    e ∈ c.s.store ∨ (e.2.dup = true ∧ e.2.alias = none ∧ e.2.topic = topic ∧ e.1 = id) := by
  rcases storeAdd_store c id { p with topic := topic, alias := none, dup := true } site with h' | h' <;>
    rw [h'] at h
  · exact .inl h
  · simp at h
    rcases h with h | rfl
    · exact .inl h
    · exact .inr ⟨rfl, rfl, rfl, rfl⟩

/-! ## honest obstacles: `decide`-checked witnesses on the current model -/
namespace C06Ex

def pidUsed1 (pw : Nat) : Alloc.A := (Alloc.useValue (Alloc.new 1 (256 ^ pw - 1) (256 ^ pw - 1)) 1).2
def pub4 : Pkt := { ver := 4, kind := .publish, qos := 1, pid := some 1, dup := true, topic := [97], size := 7 }

/-- (a) DESIGN finding #20 is fixed on the current model (fix 10ee029): a server that SENDS
    CONNACK(Accepted, session_present = false) no longer resends the store — only the CONNACK is
    requested for sending and the store is emptied (`psV3Connack` honours `p.sp`). -/
def cfgS : Cfg := ⟨.server, 2⟩
def cfgC : Cfg := ⟨.client, 2⟩
def sSrv : St :=
  { St.init cfgS 4 with status := .connecting, needStore := true, store := [(1, pub4)], puback := [1], pidMan := pidUsed1 2 }
def connackNoSession : Pkt := { ver := 4, kind := .connack, rc := some 0, sp := false, size := 4 }
theorem finding20_server_connack_sp_false_starts_new_session :
    (step cfgS sSrv (.send connackNoSession)).ev = [.send connackNoSession none] ∧
    (step cfgS sSrv (.send connackNoSession)).s.store = [] := by decide
/-- … while with session_present = true it resends the store and keeps it -/
def connackSession : Pkt := { ver := 4, kind := .connack, rc := some 0, sp := true, size := 4 }
theorem server_connack_sp_true_resends :
    (step cfgS sSrv (.send connackSession)).ev = [.send connackSession none, .send pub4 none] ∧
    (step cfgS sSrv (.send connackSession)).s.store = [(1, pub4)] := by decide

/-- (b) a v5.0 PUBREC with the *success* reason code 0x10 (No matching subscribers) is treated as
    a failure (`success := rc = none ∨ rc = some 0`): the exchange is abandoned — identifier
    released, no PUBREL even with automatic responses — although MQTT 5 §3.5.2.1 counts every
    code < 0x80 as success. -/
def sCli : St :=
  { St.init cfgC 5 with status := .connected, autoPub := true, pubrec := [1], pidMan := pidUsed1 2 }
def pubrec0x10 : Pkt := { ver := 5, kind := .pubrec, pid := some 1, rc := some 0x10, size := 5 }
def parseRec : Nat → Nat → List Nat → Except Nat Pkt := fun _ _ _ => .ok pubrec0x10
theorem pubrec_0x10_releases_id :
    (step cfgC sCli (.recv [0x50, 3, 0, 1, 0x10] parseRec)).ev = [.released 1, .recv pubrec0x10] ∧
    isUsed (step cfgC sCli (.recv [0x50, 3, 0, 1, 0x10] parseRec)).s 1 = false := by decide

/-! ### non-vacuity of the theorems' hypotheses -/
def parseAck : Nat → Nat → List Nat → Except Nat Pkt := fun v fh _ =>
  if fh / 16 = 4 then .ok { ver := v, kind := .puback, pid := some 1, size := 4 }
  else if fh / 16 = 2 then .ok { ver := v, kind := .connack, rc := some 0, sp := true, size := 4 }
  else .error eMalformed
theorem parseAck_ok : ParseOk parseAck := by
  intro v fh d p h
  simp only [parseAck] at h
  split at h
  · rename_i h4; cases h; simp [Kind.nibble, h4]
  · split at h
    · rename_i h2; cases h; simp [Kind.nibble, h2]
    · cases h
def sC4 (st : Status) (wait : List Nat) : St :=
  { St.init cfgC 4 with status := st, needStore := true, store := [(1, pub4)], puback := wait, pidMan := pidUsed1 2 }
theorem deliversAck (st : Status) (w : List Nat) : Delivers cfgC (sC4 st w) [0x40, 2, 0, 1] {} 0x40 [0, 1] :=
  ⟨⟨[], rfl⟩, by show totalSize 2 ≤ noLimit; decide, rfl, by show (4 : Nat) ≠ 0; decide⟩
theorem deliversConnack (w : List Nat) : Delivers cfgC (sC4 .connecting w) [0x20, 2, 1, 0] {} 0x20 [1, 0] :=
  ⟨⟨[], rfl⟩, by show totalSize 2 ≤ noLimit; decide, rfl, by show (4 : Nat) ≠ 0; decide⟩

-- (1) accepted QoS 1 PUBLISH on a persistent, connected session: sent AND stored
example := C06_accepted_publish_not_dropped cfgC { sC4 .connected [] with store := [] }
  { pub4 with dup := false } 1 rfl (.inl rfl) rfl
  (by intro e h
      have : (step cfgC { sC4 .connected [] with store := [] } (.send { pub4 with dup := false })).ev =
        [.send { pub4 with dup := false } none] := by decide
      rw [this] at h; simp at h)
-- (2) the matching PUBACK removes the entry: hypotheses hold, cause (i)
example := C06_stored_until_acked cfgC (sC4 .connected [1]) (.recv [0x40, 2, 0, 1] parseAck) parseAck_ok 1 pub4
  (by decide) (by decide)
-- (3) unmatched PUBACK (nothing awaited)
example := C06_unmatched_ack_is_error_noop_v3 parseAck (deliversAck .connected []) rfl rfl (.inl (by decide)) (by decide)
-- (4) resume
example := C06_resume_resends_client_v3 parseAck (deliversConnack [1]) (by decide) rfl rfl rfl rfl (by decide)
example : sends (step cfgC (sC4 .connecting [1]) (.recv [0x20, 2, 1, 0] parseAck)).ev = [pub4] := by decide
example := C06_resume_resends_server cfgS sSrv connackSession rfl rfl (by decide) rfl rfl rfl (.inl rfl)
-- (5) no session
example := C06_new_session_server cfgS sSrv connackNoSession rfl rfl (by decide) rfl rfl rfl (.inl rfl)
-- (2) … and that CONNACK removes the entry: hypotheses hold, cause "new session by the CONNACK we sent"
example := C06_stored_until_acked cfgS sSrv (.send connackNoSession) trivial 1 pub4 (by decide) (by decide)
example := C06_no_session_clears_connect cfgC (sC4 .disconnected [1]) { ver := 4, kind := .connect, clean := true }
  rfl rfl (by decide) rfl rfl (.inl rfl)


/-- `C06_id_held_full` is false: a PUBACK that the parser hands over as a v3.1.1 packet on a v5.0
    connection releases identifier 1 but leaves the stored v5.0 PUBLISH in the store -/
def pub5 : Pkt := { pub4 with ver := 5 }
def sHeld : St :=
  { St.init cfgC 5 with
    status := .connected, needStore := true, store := [(1, pub5)], puback := [1], pidMan := pidUsed1 2 }
def parseForeign : Nat → Nat → List Nat → Except Nat Pkt := fun _ fh _ =>
  if fh / 16 = 4 then .ok { ver := 4, kind := .puback, pid := some 1, size := 4 } else .error eMalformed
theorem parseForeign_ok : ParseOk parseForeign := by
  intro v fh d p h
  simp only [parseForeign] at h
  split at h
  · rename_i h4; cases h; simp [Kind.nibble, h4]
  · cases h

end C06Ex

theorem C06_id_held_full_false : ¬ C06_id_held_full := by
  intro h
  have := h C06Ex.cfgC C06Ex.sHeld (.recv [0x40, 2, 0, 1] C06Ex.parseForeign) 1 C06Ex.pub5
    C06Ex.parseForeign_ok (by decide) (by decide) (by decide) (by decide) (by decide) rfl
    (by
      intro t ht
      have : t = 4 := by
        by_cases h4 : t = 4
        · exact h4
        · exfalso
          by_cases h5 : t = 5
          · subst h5; simp [waitSet, C06Ex.sHeld, St.init] at ht
          · by_cases h7 : t = 7
            · subst h7; simp [waitSet, C06Ex.sHeld, St.init] at ht
            · unfold waitSet at ht; split at ht <;> simp_all
      subst this
      exact ⟨by decide, .inl rfl⟩)
    (by intro hc; cases hc) (by intro p hc; cases hc)
  exact absurd this (by decide)

end MqttVerif.Conn
