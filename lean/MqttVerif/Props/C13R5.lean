import MqttVerif.Conn.Lemmas.AliasStep
/-!
# C13 (round 5) — what `regulate_for_store` returns carries the full topic and no alias

Driver monitor `VIOL sig=C13 regulated_keeps_alias@<site>`: the packet `regulate_for_store`
returns must have no Topic Alias and a non-empty topic name.

* `C13_regulated_no_alias` — for **every** state `s` and packet `p`: if
  `regulateForStore s p = .ok q` then `q.alias = none` (unconditional).
* `C13_regulated_topic` — for every `s`, `p`: `q` is `p` with the alias removed and the topic
  either `p`'s own (when that is non-empty) or the topic the send table binds `p`'s alias to.
* `C13_r5_counterexample_regulated_empty_topic` — **`q.topic ≠ []` is FALSE for arbitrary
  states**: on a state whose send table binds alias 1 to the empty topic, an alias-only PUBLISH is
  regulated to a packet with an empty topic.  Such a table violates the table invariant `TasOk`
  (`rng`: no empty topic) and is not reachable: `tasInsert` refuses (panic site) to bind an empty topic.
* `C13_regulated_has_topic_no_alias_partial` — with the hypothesis that the send table binds no
  alias to the empty topic: `q.alias = none ∧ q.topic ≠ []`.
* `C13_regulated_has_topic_no_alias_of_inv` — the hypothesis discharged by the C13 invariant `AliasInv s peer`
  (its component `TasOkS`), which every call preserves on a v5.0 connection (`step_alias`,
  Props/C13 `C13_alias_inv_step`);
  `C13_regulated_has_topic_no_alias_of_run`: hence on every state reached from a fresh v5.0 object by
  a call sequence that is `RestoreLegal` (packets handed to `restore_packets` are alias-free).
  Not covered: objects created with an undetermined version (`St.init cfg 0`) — there the table is
  created only after the version became 5; the invariant `AliasInv` is stated for `ver = 5`.
-/
set_option linter.unusedVariables false
namespace MqttVerif.Conn
open MqttVerif

/-- what `regulate_for_store` returns, in all cases -/
theorem C13_regulated_topic (s : St) (p q : Pkt) (h : regulateForStore s p = .ok q) :
    (p.topic ≠ [] ∧ q = { p with alias := none }) ∨
    (p.topic = [] ∧ ∃ a t topic, p.alias = some a ∧ s.tas = some t ∧ t.peek a = some topic ∧
      hasWildcard topic = false ∧ q = { p with topic := topic, alias := none }) := by
  unfold regulateForStore at h
  split at h
  · rename_i he
    have he' : p.topic = [] := by simpa using he
    split at h
    · rename_i a t ha ht
      split at h
      · rename_i topic hpk
        split at h
        · cases h
        · rename_i hw
          cases h
          exact .inr ⟨he', a, t, topic, ha, ht, hpk, by simpa using hw, rfl⟩
      · cases h
    · cases h
  · rename_i he
    cases h
    exact .inl ⟨by simpa using he, rfl⟩

/-- **C13 regulated_keeps_alias (alias half)** — unconditional -/
theorem C13_regulated_no_alias (s : St) (p q : Pkt) (h : regulateForStore s p = .ok q) :
    q.alias = none := by
  rcases C13_regulated_topic s p q h with ⟨_, rfl⟩ | ⟨_, a, t, topic, _, _, _, _, rfl⟩ <;> rfl

/-- **C13 regulated_keeps_alias** — *partial*: needs that the send table binds no alias to the
    empty topic (false without it: `C13_r5_counterexample_regulated_empty_topic`) -/
theorem C13_regulated_has_topic_no_alias_partial (s : St) (p q : Pkt)
    (hne : ∀ t, s.tas = some t → ∀ a tp, lookup a t.a2t = some tp → tp ≠ [])
    (h : regulateForStore s p = .ok q) : q.alias = none ∧ q.topic ≠ [] := by
  refine ⟨C13_regulated_no_alias s p q h, ?_⟩
  rcases C13_regulated_topic s p q h with ⟨hp, rfl⟩ | ⟨_, a, t, topic, _, ht, hpk, _, rfl⟩
  · exact hp
  · show topic ≠ []
    unfold TAS.peek at hpk
    split at hpk
    · exact hne t ht a topic hpk
    · cases hpk

/-- **C13 regulated_keeps_alias** on states satisfying the C13 invariant -/
theorem C13_regulated_has_topic_no_alias_of_inv (s : St) (peer : Mon.PeerTable) (hinv : AliasInv s peer)
    (p q : Pkt) (h : regulateForStore s p = .ok q) : q.alias = none ∧ q.topic ≠ [] := by
  refine C13_regulated_has_topic_no_alias_partial s p q (fun t ht a tp hl => ?_) h
  exact ((hinv.tasOk t ht).rng a tp (lookup_some_mem hl)).2.2

/-- the invariant along call sequences from a fresh v5.0 object -/
theorem r5_aliasInv_run (cfg : Cfg) (ops : List Op) : ∀ (s : St) (peer : Mon.PeerTable), s.ver = 5 →
    AliasInv s peer → (∀ op ∈ ops, RestoreLegal op) → ∃ peer', AliasInv (run cfg s ops) peer' := by
  induction ops with
  | nil => intro s peer _ h _; exact ⟨peer, h⟩
  | cons op ops ih =>
    intro s peer hv hinv hl
    obtain ⟨peer', _, h2⟩ := step_alias cfg s op peer hv hinv (hl op (by simp))
    have hv' : (step cfg s op).s.ver = 5 := by rw [step_ver cfg s op (by omega)]; exact hv
    exact ih _ peer' hv' h2 (fun o ho => hl o (by simp [ho]))

theorem r5_aliasInv_init (cfg : Cfg) : AliasInv (St.init cfg 5) [] :=
  ⟨by intro t ht; simp [St.init] at ht, by intro e he; simp [St.init] at he,
   by intro a tp h; simp [slookup, St.init] at h⟩

/-- **C13 regulated_keeps_alias** on every state reached from a fresh v5.0 object -/
theorem C13_regulated_has_topic_no_alias_of_run (cfg : Cfg) (ops : List Op)
    (hl : ∀ op ∈ ops, RestoreLegal op) (p q : Pkt)
    (h : regulateForStore (run cfg (St.init cfg 5) ops) p = .ok q) : q.alias = none ∧ q.topic ≠ [] := by
  obtain ⟨peer, hinv⟩ := r5_aliasInv_run cfg ops _ [] rfl (r5_aliasInv_init cfg) hl
  exact C13_regulated_has_topic_no_alias_of_inv _ peer hinv p q h

/-! ## the counter-example and non-vacuity -/
namespace C13R5Ex
def cfg : Cfg := { role := .client, pw := 2 }
def connect : Pkt := { ver := 5, kind := .connect, size := 15, props := [(pSEI, 60)] }
def connack : Pkt := { ver := 5, kind := .connack, size := 8, rc := some 0, props := [(pTAM, 2)] }
def pubBind : Pkt := { ver := 5, kind := .publish, topic := [97], alias := some 1 }
def pubUse : Pkt := { ver := 5, kind := .publish, topic := [], alias := some 1, qos := 1, pid := some 1 }

/-- a state whose send table binds alias 1 to the empty topic (not reachable: violates `TasOk.rng`) -/
def tBad : TAS := { max := 2, a2t := [(1, [])], t2a := [([], [1])], alloc := ⟨1, 2, 65535, [⟨2, 2⟩]⟩ }
def sBad : St := { St.init cfg 5 with status := .connected, tas := some tBad }

/-- **counter-example to `q.topic ≠ []` for arbitrary states** -/
theorem C13_r5_counterexample_regulated_empty_topic :
    regulateForStore sBad pubUse = .ok { pubUse with topic := [], alias := none } ∧
    ({ pubUse with topic := [], alias := none } : Pkt).topic = [] := ⟨rfl, rfl⟩

/-- non-vacuity: CONNECT, CONNACK (Topic Alias Maximum 2), a PUBLISH that binds alias 1 to "a" -/
def ops : List Op := [.send connect, .recv [0x20, 0] (fun _ _ _ => .ok connack), .send pubBind]
def s1 : St := run cfg (St.init cfg 5) ops
example : Reachable cfg 5 s1 := ⟨ops, rfl⟩
example : ∀ op ∈ ops, RestoreLegal op := by
  intro op hop; simp [ops] at hop; rcases hop with rfl | rfl | rfl <;> trivial
-- the alias-only packet gets the bound topic, the alias is dropped
example : regulateForStore s1 pubUse = .ok { pubUse with topic := [97], alias := none } := rfl
-- a packet with topic and alias keeps the topic, the alias is dropped
example : regulateForStore s1 { pubBind with alias := some 2 } = .ok { pubBind with alias := none } := rfl
-- an unbound alias is refused
example : regulateForStore s1 { pubUse with alias := some 2 } = .error eNotRegulated := rfl
example : ({ pubUse with topic := [97], alias := none } : Pkt).alias = none ∧
    ({ pubUse with topic := [97], alias := none } : Pkt).topic ≠ [] :=
  C13_regulated_has_topic_no_alias_of_run cfg ops
    (by intro op hop; simp [ops] at hop; rcases hop with rfl | rfl | rfl <;> trivial) pubUse _ rfl
end C13R5Ex

end MqttVerif.Conn
