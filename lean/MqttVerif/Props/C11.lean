import MqttVerif.Conn.Lemmas.GatePass
import MqttVerif.Conn.Lemmas.PersistFlag2
import MqttVerif.Conn.Lemmas.StoreKinds
/-!
# C11 — Send gating: role × version × connection-state matrix matches the MQTT rules

Statement (properties.jsonl): a packet handed to `send` is passed to the transport only if MQTT
allows that role to send that packet kind in that protocol version in the current connection
state; otherwise the result is only an error event (plus release of the packet's identifier)
and the connection behaves afterwards as if the call had not been made.  The
compile-time-checked send accepts exactly the packet types the run-time check accepts.

Specification: `Spec.mayTransmit` (`Spec/Gates.lean`, written from the MQTT rules).
Model: `step cfg s (.send p)` (`Conn/Step.lean`).  All theorems are for **every**
configuration, **every** state `s : St` (reachable or not) and **every** packet `p`.

Packets are constrained only by `Spec.PktWf`: one of the 29 packet types that exist (version
4 or 5, no v3.1.1 AUTH) and a QoS>0 PUBLISH has an identifier (the Rust builders enforce it;
`send` would `unwrap()` a `None`).
-/
set_option linter.unusedSimpArgs false
set_option linter.unusedVariables false
namespace MqttVerif.Conn
open MqttVerif

/-! ## what a gate refusal reports and releases -/

/-- v5.0 only: the peer's Maximum Packet Size test, which precedes the state test in every
    `process_send_v5_0_*` -/
def C11.tooLarge (cfg : Cfg) (s : St) (p : Pkt) : Bool :=
  decide (p.ver = 5) && decide (p.sz cfg.pw > s.mpsSend)

/-- the error of a refused call: `VersionMismatch` (0x189) if the versions differ, else
    `PacketNotAllowedToSend` (0x184) if the role may never send the kind, else — the call is
    refused because of the connection state — `PacketTooLarge` (0x95) when the packet is a v5.0
    packet exceeding the peer's Maximum Packet Size (that test comes first), else 0x184 -/
def C11.refusalError (cfg : Cfg) (s : St) (p : Pkt) : Nat :=
  if s.ver ≠ p.ver then eVersionMismatch
  else if Spec.roleMaySend cfg.role p.kind p.ver = false then eNotAllowed
  else if C11.tooLarge cfg s p then eTooLarge
  else eNotAllowed

/-- the identifier a refused call gives back.  For a version or role refusal (fix 1d0ef05; before
    it: none): the identifier the packet was given to start an exchange — `initiatingId p`, that
    of a PUBLISH / SUBSCRIBE / UNSUBSCRIBE carrying one.  For a state refusal: the identifier
    of a QoS>0 PUBLISH (of any v5.0 PUBLISH carrying one when it is too large), of a SUBSCRIBE,
    of an UNSUBSCRIBE.  Every refusal now has the same shape. -/
def C11.refusalRelease (cfg : Cfg) (s : St) (p : Pkt) : Option Nat :=
  if s.ver ≠ p.ver ∨ Spec.roleMaySend cfg.role p.kind p.ver = false then initiatingId p
  else match p.kind with
    | .publish => if C11.tooLarge cfg s p ∨ p.qos > 0 then p.pid else none
    | .subscribe | .unsubscribe => some (p.pid.getD 0)
    | _ => none

theorem C11.tooLarge_eq (cfg : Cfg) (s : St) (p : Pkt) :
    Conn.tooLarge ⟨cfg, s, []⟩ p = C11.tooLarge cfg s p := by
  simp [C11.tooLarge, Conn.tooLarge, sizeOk]

theorem C11.refusalError_eq (cfg : Cfg) (s : St) (p : Pkt) :
    C11.refusalError cfg s p = gateError ⟨cfg, s, []⟩ p := by
  simp only [C11.refusalError, gateError, C11.tooLarge_eq]

theorem C11.refusalRelease_eq (cfg : Cfg) (s : St) (p : Pkt) :
    C11.refusalRelease cfg s p = gateRelease ⟨cfg, s, []⟩ p := by
  simp only [C11.refusalRelease, gateRelease, C11.tooLarge_eq]
  by_cases h : s.ver ≠ p.ver ∨ Spec.roleMaySend cfg.role p.kind p.ver = false
  · simp only [if_pos h]
  · simp only [if_neg h]; cases p.kind <;> rfl

/-! ## C11 (3): a refused call is a no-op -/

/-- **C11, refusal is a no-op.**  If the specification forbids the transmission, the events of
    `send` are exactly one error event (`C11.refusalError`: 0x189, 0x184 or 0x95), followed by
    `NotifyPacketIdReleased id` iff the packet carries a releasable identifier
    (`C11.refusalRelease`) that is in use; and the state afterwards is `s` itself, resp.
    `releasedState s id` = `s` with only that identifier returned to the allocator
    (`releasedState_fields`: the other 33 fields are those of `s`; `C11_released_is_free`). -/
theorem C11_gate_refusal_is_noop (cfg : Cfg) (s : St) (p : Pkt) (wf : Spec.PktWf p)
    (h : Spec.mayTransmit cfg.role s.ver s.status p s.needStore s.offline = false) :
    (step cfg s (.send p)).ev =
      .error (C11.refusalError cfg s p) ::
        (match C11.refusalRelease cfg s p with | none => [] | some id => releasedEv s id) ∧
    (step cfg s (.send p)).s =
      (match C11.refusalRelease cfg s p with | none => s | some id => releasedState s id) ∧
    (C11.refusalError cfg s p = eVersionMismatch ∨ C11.refusalError cfg s p = eNotAllowed ∨
      C11.refusalError cfg s p = eTooLarge) := by
  have hs := send_refused ⟨cfg, s, []⟩ p wf h
  rw [C11.refusalError_eq, C11.refusalRelease_eq]
  refine ⟨?_, ?_, ?_⟩
  · show (send ⟨cfg, s, []⟩ p).ev = _
    rw [hs]; unfold refusedOutcome
    cases gateRelease ⟨cfg, s, []⟩ p <;> simp [releaseIfUsed_eq]
  · show (send ⟨cfg, s, []⟩ p).s = _
    rw [hs]; unfold refusedOutcome
    cases gateRelease ⟨cfg, s, []⟩ p <;> simp [releaseIfUsed_eq]
  · unfold gateError; (repeat' split) <;> simp

/-- the refused call, field by field: every field of the state except the allocator (and the
    sticky panic marker) is untouched, whatever the kind and version -/
theorem C11_gate_refusal_fields (cfg : Cfg) (s : St) (p : Pkt) (wf : Spec.PktWf p)
    (h : Spec.mayTransmit cfg.role s.ver s.status p s.needStore s.offline = false) :
    ∃ a pn, (step cfg s (.send p)).s = { s with pidMan := a, panic := pn } := by
  rw [(C11_gate_refusal_is_noop cfg s p wf h).2.1]
  cases C11.refusalRelease cfg s p with
  | none => exact ⟨s.pidMan, s.panic, rfl⟩
  | some id => exact releasedState_eta s id

/-- … and with the allocator in a state refining a set `S` of used identifiers (as every state
    produced by allocator operations is, C20), the state after the refused call is `s` with the
    allocator refining `S` minus the released identifier: nothing else, no panic, and the
    identifier is free. -/
theorem C11_released_is_free (cfg : Cfg) (s : St) (p : Pkt) (wf : Spec.PktWf p) (S : Alloc.S)
    (r : Alloc.R s.pidMan S)
    (h : Spec.mayTransmit cfg.role s.ver s.status p s.needStore s.offline = false) :
    (step cfg s (.send p)).s = s ∨
    ∃ id, C11.refusalRelease cfg s p = some id ∧ isUsed s id = true ∧
      (step cfg s (.send p)).s = { s with pidMan := (Alloc.deallocate s.pidMan id).2 } ∧
      Alloc.R (Alloc.deallocate s.pidMan id).2 { S with used := S.used.filter (· ≠ id) } ∧
      isUsed (step cfg s (.send p)).s id = false ∧
      (step cfg s (.send p)).ev = [.error (C11.refusalError cfg s p), .released id] := by
  obtain ⟨hev, hst, _⟩ := C11_gate_refusal_is_noop cfg s p wf h
  cases hrel : C11.refusalRelease cfg s p with
  | none => left; simpa [hrel] using hst
  | some id =>
    simp only [hrel] at hev hst
    by_cases hu : isUsed s id = true
    · right
      obtain ⟨h1, h2, h3⟩ := releasedState_of_R r id hu
      refine ⟨id, rfl, hu, hst.trans h1, h2, ?_, ?_⟩
      · rw [hst]; exact h3
      · rw [hev]; simp [releasedEv, hu]
    · left; rw [hst]; simp [releasedState, hu]

/-- an identifier awaited by no SUBACK / UNSUBACK / PUBACK / PUBREC: `release_packet_id` has no
    exchange to abandon (fix ba1a812) -/
def C11.NotAwaited (s : St) (id : Nat) : Prop :=
  id ∉ s.suback ∧ id ∉ s.unsuback ∧ id ∉ s.puback ∧ id ∉ s.pubrec

instance (s : St) (id : Nat) : Decidable (C11.NotAwaited s id) := by unfold C11.NotAwaited; infer_instance

theorem del_of_not_mem {id : Nat} {l : List Nat} (h : id ∉ l) : del id l = l := by
  unfold del
  rw [List.filter_eq_self]
  intro x hx
  simp only [ne_eq, decide_not, Bool.not_eq_eq_eq_not, Bool.not_true, decide_eq_false_iff_not]
  rintro rfl; exact h hx

/-- for such an identifier `release_packet_id` is the internal release of a refusal: the allocator
    and the announcement, nothing else -/
theorem releasedStateP_of_notAwaited {s : St} {id : Nat} (h : C11.NotAwaited s id) :
    releasedStateP s id = releasedState s id := by
  obtain ⟨h1, h2, h3, h4⟩ := h
  unfold releasedStateP
  split
  · obtain ⟨_, e1, e2, e3, e4, _⟩ := releasedState_fields s id
    unfold abandonExchange
    simp only []
    rw [if_neg (by rw [e3, e4]; exact fun x => x.1.elim h3 h4)]
    rw [del_of_not_mem (l := (releasedState s id).suback) (by rw [e1]; exact h1),
      del_of_not_mem (l := (releasedState s id).unsuback) (by rw [e2]; exact h2),
      del_of_not_mem (l := (releasedState s id).puback) (by rw [e3]; exact h3),
      del_of_not_mem (l := (releasedState s id).pubrec) (by rw [e4]; exact h4)]
  · unfold releasedState; rw [if_neg (by assumption)]

/-- **C11, "as if the call had not been made".**  A refused `send` leaves the connection in the
    state — and, apart from the error event, with the events — of *not calling `send`* (nothing
    to release) resp. of calling `release_packet_id(id)` instead; hence every continuation
    (any sequence of further API calls) behaves identically.
    Since fix ba1a812 `release_packet_id` also abandons the exchange that awaits `id`, which the
    refusal does not (it releases the identifier the packet was given, `releaseIfUsed`): the
    comparison with `release_packet_id` holds for an identifier no exchange awaits (`hown`: the
    application acquired it for this very packet) — `C11_refused_call_equiv_needs_notAwaited`.  Without
    `hown` the state is still that of the internal release: `C11_gate_refusal_is_noop`. -/
theorem C11_refused_call_equiv (cfg : Cfg) (s : St) (p : Pkt) (wf : Spec.PktWf p)
    (h : Spec.mayTransmit cfg.role s.ver s.status p s.needStore s.offline = false) (ops : List Op)
    (hown : ∀ id, C11.refusalRelease cfg s p = some id → C11.NotAwaited s id) :
    match C11.refusalRelease cfg s p with
    | none =>
        (step cfg s (.send p)).ev = [.error (C11.refusalError cfg s p)] ∧
        run cfg s (.send p :: ops) = run cfg s ops ∧
        runEvents cfg s (.send p :: ops) = [.error (C11.refusalError cfg s p)] :: runEvents cfg s ops
    | some id =>
        (step cfg s (.send p)).ev = .error (C11.refusalError cfg s p) :: (step cfg s (.release id)).ev ∧
        run cfg s (.send p :: ops) = run cfg s (.release id :: ops) ∧
        (runEvents cfg s (.send p :: ops)).tail = (runEvents cfg s (.release id :: ops)).tail := by
  obtain ⟨hev, hst, _⟩ := C11_gate_refusal_is_noop cfg s p wf h
  cases hrel : C11.refusalRelease cfg s p with
  | none =>
    simp only [hrel] at hev hst ⊢
    simp only [run, runEvents, hst, hev, and_self]
  | some id =>
    simp only [hrel] at hev hst ⊢
    have hr : step cfg s (.release id) =
        { cfg := cfg, s := releasedState s id, ev := releasedEv s id } := by
      simp only [step, releasePacketId_eqP, releasedStateP_of_notAwaited (hown id hrel), List.nil_append]
    simp only [run, runEvents, hst, hev, hr, List.tail_cons, and_self]

/-! ## C11 (2): soundness of the gate -/

/-- **C11, the gate is sound.**  If `send` passes anything to the transport (some
    `RequestSendPacket` among the events) or touches the store of packets kept for
    retransmission, the specification allowed the transmission.  (Refusals for other reasons —
    too large, Receive Maximum, alias, unknown identifier — only remove transmissions.) -/
theorem C11_send_gate_sound (cfg : Cfg) (s : St) (p : Pkt) (hver : p.ver = 4 ∨ p.ver = 5)
    (h : (∃ q r, Ev.send q r ∈ (step cfg s (.send p)).ev) ∨
         (step cfg s (.send p)).s.store ≠ s.store) :
    Spec.mayTransmit cfg.role s.ver s.status p s.needStore s.offline = true := by
  cases hm : Spec.mayTransmit cfg.role s.ver s.status p s.needStore s.offline
  case true => rfl
  exfalso
  by_cases wf : Spec.PktWf p
  · obtain ⟨hev, hst, _⟩ := C11_gate_refusal_is_noop cfg s p wf hm
    rcases h with ⟨q, r, hq⟩ | hstore
    · rw [hev] at hq
      cases hrel : C11.refusalRelease cfg s p with
      | none => simp [hrel] at hq
      | some id => simp [hrel, releasedEv] at hq
    · apply hstore; rw [hst]
      cases hrel : C11.refusalRelease cfg s p with
      | none => rfl
      | some id => exact (releasedState_fields s id).2.2.2.2.2.2.2.1
  · obtain ⟨h1, h2⟩ := send_nonwf ⟨cfg, s, []⟩ p hver wf
    rcases h with ⟨q, r, hq⟩ | hstore
    · change Ev.send q r ∈ (send ⟨cfg, s, []⟩ p).ev at hq
      rcases h2 with h2 | ⟨e, h2⟩ <;> simp [h2] at hq
    · exact hstore h1

/-- the same with "the store grew" -/
theorem C11_send_gate_sound_grew (cfg : Cfg) (s : St) (p : Pkt) (hver : p.ver = 4 ∨ p.ver = 5)
    (h : (step cfg s (.send p)).s.store.length > s.store.length) :
    Spec.mayTransmit cfg.role s.ver s.status p s.needStore s.offline = true :=
  C11_send_gate_sound cfg s p hver (Or.inr (fun e => by rw [e] at h; omega))

/-! ## C11 (2, converse): the gate decision is a function of eight flags, and it is the specification -/

/-- the model's gate decision, *extracted by running the model*: `send` on a canonical,
    otherwise permissive state (identifier 1 acquired, no size / Receive-Maximum limits, no
    alias table) with a canonical packet of the given kind/version/QoS (identifier 1, topic
    "a"); `true` = the call is answered with `VersionMismatch` or `PacketNotAllowedToSend`. -/
def C11.canonState (ver : Nat) (status : Status) (needStore offline : Bool) : St :=
  { ver := ver, pidMan := (Alloc.useValue (Alloc.new 1 65535 65535) 1).2, status := status,
    needStore := needStore, offline := offline }
def C11.canonPkt (kind : Kind) (pver qos : Nat) : Pkt :=
  { ver := pver, kind := kind, qos := qos, pid := some 1, topic := [97] }
def C11.sendGate (role : Role) (ver : Nat) (status : Status) (kind : Kind) (pver qos : Nat)
    (needStore offline : Bool) : Bool :=
  gateRefusedEv (step ⟨role, 2⟩ (C11.canonState ver status needStore offline)
    (.send (C11.canonPkt kind pver qos))).ev

/-- **C11, completeness of the gate.**  If the specification allows the transmission, `send`
    reports neither `VersionMismatch` nor `PacketNotAllowedToSend` — for every state and every
    packet that is not too large for the peer and whose Topic Alias use is valid (`AliasFine`:
    a topic name with an alias in range, or no topic name and an alias that resolves; alias
    refusals are the subject of C13 and reuse the code 0x184). -/
theorem C11_gate_pass (cfg : Cfg) (s : St) (p : Pkt) (wf : Spec.PktWf p)
    (hs : C11.tooLarge cfg s p = false) (ha : AliasFine s p)
    (h : Spec.mayTransmit cfg.role s.ver s.status p s.needStore s.offline = true) :
    gateFree (step cfg s (.send p)).ev = true := by
  obtain ⟨t, ht, hf⟩ := send_pass ⟨cfg, s, []⟩ p wf (by rw [C11.tooLarge_eq]; exact hs) h ha
  show gateFree (send ⟨cfg, s, []⟩ p).ev = true
  rw [ht]; simpa using hf

/-- **C11, the gate decision** ("is the first event a gate error?") **is `¬ Spec.mayTransmit`**,
    in every state. -/
theorem C11_gate_decision (cfg : Cfg) (s : St) (p : Pkt) (wf : Spec.PktWf p)
    (hs : C11.tooLarge cfg s p = false) (ha : AliasFine s p) :
    gateRefusedEv (step cfg s (.send p)).ev =
      !Spec.mayTransmit cfg.role s.ver s.status p s.needStore s.offline := by
  cases hm : Spec.mayTransmit cfg.role s.ver s.status p s.needStore s.offline
  · obtain ⟨hev, _, _⟩ := C11_gate_refusal_is_noop cfg s p wf hm
    rw [hev]
    simp only [gateRefusedEv, gateErr, Bool.not_false, Bool.or_eq_true, beq_iff_eq]
    unfold C11.refusalError
    rw [hs]
    (repeat' split) <;> simp_all
  · simpa using gateRefusedEv_of_free (C11_gate_pass cfg s p wf hs ha hm)

theorem C11.canon_wf (kind : Kind) (pver qos : Nat) (hex : Spec.pktExists pver kind = true) :
    Spec.PktWf (C11.canonPkt kind pver qos) := by
  simp only [Spec.pktExists, Bool.and_eq_true, Bool.or_eq_true, beq_iff_eq, Bool.not_eq_true',
    Bool.and_eq_false_imp] at hex
  refine ⟨hex.1, fun hk => ?_, fun _ _ => rfl⟩
  have hk' : kind = .auth := hk
  rcases hex.1 with h | h
  · have := hex.2 h; simp [hk'] at this
  · exact h

theorem C11.canon_small (role : Role) (kind : Kind) (ver pver qos : Nat) (status : Status)
    (ns off : Bool) :
    C11.tooLarge ⟨role, 2⟩ (C11.canonState ver status ns off) (C11.canonPkt kind pver qos) = false := by
  have hsz : (C11.canonPkt kind pver qos).sz 2 ≤ 20 := by
    by_cases hp : pver = 5 ∧ kind = .publish <;> by_cases hq : qos > 0 <;>
      simp [Pkt.sz, C11.canonPkt, Pkt.pubSize, totalSize, Pkt.pubRemLen, Pkt.pubPropLen, vbiLen, hp, hq]
  have hl : (20 : Nat) ≤ noLimit := by unfold noLimit; omega
  dsimp only [C11.tooLarge, C11.canonState]
  simp only [Bool.and_eq_false_imp, decide_eq_true_eq, decide_eq_false_iff_not]
  intro _; omega

/-- **C11, `Gen.sendGate = ¬ Spec.mayTransmit`**: the extracted gate table equals the
    specification on all 3 × ℕ × 3 × 29 × ℕ × 2 × 2 cells (not only the ≈ 3 300 enumerated). -/
theorem C11_sendGate_eq_spec (role : Role) (ver : Nat) (status : Status) (kind : Kind) (pver qos : Nat)
    (needStore offline : Bool) (hex : Spec.pktExists pver kind = true) :
    C11.sendGate role ver status kind pver qos needStore offline =
      !Spec.mayTransmit role ver status (C11.canonPkt kind pver qos) needStore offline :=
  C11_gate_decision ⟨role, 2⟩ (C11.canonState ver status needStore offline) (C11.canonPkt kind pver qos)
    (C11.canon_wf kind pver qos hex) (C11.canon_small role kind ver pver qos status needStore offline)
    (fun _ _ => by simp [C11.canonPkt])

/-- **C11, the gate refusal depends on nothing but the eight flags**: in *every* state `s` and
    for *every* packet `p` the gate decision of `send` is the entry of the extracted table at
    (role, version, status, kind, packet version, QoS, need_store, offline). -/
theorem C11_gate_depends_only_on_flags (cfg : Cfg) (s : St) (p : Pkt) (wf : Spec.PktWf p)
    (hs : C11.tooLarge cfg s p = false) (ha : AliasFine s p) :
    gateRefusedEv (step cfg s (.send p)).ev =
      C11.sendGate cfg.role s.ver s.status p.kind p.ver p.qos s.needStore s.offline := by
  have hex : Spec.pktExists p.ver p.kind = true := by
    simp only [Spec.pktExists, Bool.and_eq_true, Bool.or_eq_true, beq_iff_eq, Bool.not_eq_true',
      Bool.and_eq_false_imp]
    refine ⟨wf.ver, fun h4 => ?_⟩
    cases hk : p.kind <;> simp
    have := wf.auth hk; omega
  rw [C11_gate_decision cfg s p wf hs ha, C11_sendGate_eq_spec _ _ _ _ _ _ _ _ hex]
  rfl

/-- the finite matrix of the property text (3 roles × {undetermined, v3.1.1, v5.0} × 3 statuses
    × 29 packet types × QoS 0/1/2 × persistent × offline = 9 396 cells) with the extracted gate
    decision; to be compared with the matrix the harness measures on the implementation -/
def C11.sendGateCells : List (Role × Nat × Status × Kind × Nat × Nat × Bool × Bool) :=
  Spec.allRoles.flatMap fun r => [0, 4, 5].flatMap fun v => Spec.allStatuses.flatMap fun st =>
  Spec.allPktTypes.flatMap fun kv => [0, 1, 2].flatMap fun q => [false, true].flatMap fun ns =>
  [false, true].map fun off => (r, v, st, kv.1, kv.2, q, ns, off)

def C11.sendGateTable : List ((Role × Nat × Status × Kind × Nat × Nat × Bool × Bool) × Bool) :=
  C11.sendGateCells.map fun c =>
    (c, C11.sendGate c.1 c.2.1 c.2.2.1 c.2.2.2.1 c.2.2.2.2.1 c.2.2.2.2.2.1 c.2.2.2.2.2.2.1 c.2.2.2.2.2.2.2)

theorem C11.allPktTypes_exist : ∀ kv ∈ Spec.allPktTypes, Spec.pktExists kv.2 kv.1 = true := by decide

/-- every row of the extracted matrix is the specification's verdict -/
theorem C11_sendGateTable_eq_spec :
    ∀ row ∈ C11.sendGateTable,
      row.2 = !Spec.mayTransmit row.1.1 row.1.2.1 row.1.2.2.1
        (C11.canonPkt row.1.2.2.2.1 row.1.2.2.2.2.1 row.1.2.2.2.2.2.1)
        row.1.2.2.2.2.2.2.1 row.1.2.2.2.2.2.2.2 := by
  intro row hrow
  simp only [C11.sendGateTable, List.mem_map] at hrow
  obtain ⟨c, hc, rfl⟩ := hrow
  apply C11_sendGate_eq_spec
  simp only [C11.sendGateCells, List.mem_flatMap, List.mem_map] at hc
  obtain ⟨r, _, v, _, st, _, kv, hkv, q, _, ns, _, off, _, rfl⟩ := hc
  exact C11.allPktTypes_exist kv hkv

/-! ## C11 (4): the compile-time table -/

/-- **C11, `checked_send` ≡ run-time role check.**  The table the design gives for the trait
    bound `T: Sendable<Role, _>` is the run-time role test of `send`, for every packet. -/
theorem C11_checked_eq_runtime (r : Role) (p : Pkt) :
    Spec.compileTimeOk r p.kind p.ver = roleMaySend r p := by
  rw [roleMaySend_eq_spec]
  cases r <;> cases p.kind <;>
    simp [Spec.compileTimeOk, Spec.roleMaySend, Spec.actsAsClient, Spec.actsAsServer] <;>
    (by_cases hv : p.ver = 4 <;> simp [hv])

theorem C11_checked_eq_spec (r : Role) (k : Kind) (v : Nat) :
    Spec.compileTimeOk r k v = Spec.roleMaySend r k v := by
  have := C11_checked_eq_runtime r { ver := v, kind := k }
  rwa [roleMaySend_eq_spec] at this

/-- the enumeration the main session compares with the table regenerated from rustc:
    3 roles × 29 packet types -/
theorem C11_compileTimeTable_length : Spec.compileTimeTable.length = 87 := by decide

theorem C11_compileTimeTable_runtime :
    ∀ row ∈ Spec.compileTimeTable,
      row.2.2.2 = roleMaySend row.1 { ver := row.2.2.1, kind := row.2.1 } := by decide

/-! ## non-vacuity: concrete instances of the hypotheses -/

def C11.exCfg : Cfg := ⟨.client, 2⟩
/-- a v5.0 client in state `connecting`, identifier 7 acquired, peer limit 100 bytes -/
def C11.exState : St :=
  { St.init C11.exCfg 5 with
    pidMan := (Alloc.useValue (Alloc.new 1 65535 65535) 7).2, status := .connecting, mpsSend := 100 }
def C11.exSub : Pkt := { ver := 5, kind := .subscribe, size := 20, pid := some 7 }
def C11.exBigPub : Pkt := { ver := 5, kind := .publish, qos := 1, pid := some 7, topic := [97], payloadLen := 200 }
def C11.exConnack : Pkt := { ver := 5, kind := .connack, size := 5, rc := some 0 }
def C11.exV3Sub : Pkt := { ver := 4, kind := .subscribe, size := 20, pid := some 7 }
def C11.exSet : Alloc.S := ⟨1, 65535, [7]⟩

/-- SUBSCRIBE while connecting: state refusal, 0x184, identifier 7 released -/
example : Spec.PktWf C11.exSub ∧
    Spec.mayTransmit C11.exCfg.role C11.exState.ver C11.exState.status C11.exSub
      C11.exState.needStore C11.exState.offline = false ∧
    (step C11.exCfg C11.exState (.send C11.exSub)).ev = [.error 0x184, .released 7] ∧
    isUsed C11.exState 7 = true ∧ isUsed (step C11.exCfg C11.exState (.send C11.exSub)).s 7 = false := by
  decide
/-- oversize QoS 1 PUBLISH while connecting (not persistent): 0x95 reported, identifier released -/
example : Spec.PktWf C11.exBigPub ∧
    Spec.mayTransmit C11.exCfg.role C11.exState.ver C11.exState.status C11.exBigPub
      C11.exState.needStore C11.exState.offline = false ∧
    (step C11.exCfg C11.exState (.send C11.exBigPub)).ev = [.error 0x95, .released 7] := by
  decide
/-- CONNACK from a client: role refusal of a packet without identifier — the state is literally
    unchanged; v3.1.1 SUBSCRIBE on a v5.0 connection: version refusal — identifier 7 is released
    like in every other refusal (fix 1d0ef05; before it the identifier stayed in use) -/
example : (step C11.exCfg C11.exState (.send C11.exConnack)).ev = [.error 0x184] ∧
    (step C11.exCfg C11.exState (.send C11.exConnack)).s = C11.exState ∧
    C11.refusalRelease C11.exCfg C11.exState C11.exV3Sub = some 7 ∧
    (step C11.exCfg C11.exState (.send C11.exV3Sub)).ev = [.error 0x189, .released 7] ∧
    isUsed (step C11.exCfg C11.exState (.send C11.exV3Sub)).s 7 = false := by
  decide
/-- `hown` of `C11_refused_call_equiv` holds in the example: identifier 7 is awaited by nothing -/
example : ∀ id, C11.refusalRelease C11.exCfg C11.exState C11.exV3Sub = some id → C11.NotAwaited C11.exState id := by
  decide
/-- **`hown` is needed** (since fix ba1a812): identifier 7 is awaited by a SUBACK and the application
    gives it to another, refused, packet.  The refusal frees the identifier and leaves `pid_suback`
    alone; `release_packet_id(7)` would also have abandoned the SUBSCRIBE: the two states differ
    (only) in `pid_suback`. -/
theorem C11_refused_call_equiv_needs_notAwaited :
    let s : St := { C11.exState with suback := [7] }
    Spec.PktWf C11.exV3Sub ∧
    Spec.mayTransmit C11.exCfg.role s.ver s.status C11.exV3Sub s.needStore s.offline = false ∧
    C11.refusalRelease C11.exCfg s C11.exV3Sub = some 7 ∧ ¬ C11.NotAwaited s 7 ∧
    (step C11.exCfg s (.send C11.exV3Sub)).ev = [.error 0x189, .released 7] ∧
    (step C11.exCfg s (.release 7)).ev = [.released 7] ∧
    (step C11.exCfg s (.send C11.exV3Sub)).s.suback = [7] ∧ (step C11.exCfg s (.release 7)).s.suback = [] ∧
    (step C11.exCfg s (.send C11.exV3Sub)).s = { (step C11.exCfg s (.release 7)).s with suback := [7] } := by
  decide
/-- SUBSCRIBE sent by a server-role object: role refusal, identifier released -/
example : (step ⟨.server, 2⟩ C11.exState (.send C11.exSub)).ev = [.error 0x184, .released 7] ∧
    isUsed (step ⟨.server, 2⟩ C11.exState (.send C11.exSub)).s 7 = false := by
  decide
/-- the allocator of the example refines the set {7} -/
example : Alloc.R C11.exState.pidMan C11.exSet where
  lo := rfl
  hi := rfl
  rng := by decide
  tm := by decide
  ok := by decide
  free := by
    intro v
    simp only [C11.exState, C11.exSet, Alloc.useValue, Alloc.new, Alloc.useValueP, Alloc.S.free]
    simp [Alloc.Free]; omega
/-- soundness hypothesis: a persistent QoS 1 PUBLISH while connecting is stored -/
example :
    let s := { C11.exState with needStore := true }
    let p : Pkt := { ver := 5, kind := .publish, qos := 1, pid := some 7, topic := [97] }
    (step C11.exCfg s (.send p)).s.store ≠ s.store ∧
    Spec.mayTransmit C11.exCfg.role s.ver s.status p s.needStore s.offline = true := by
  decide
/-- … and a CONNECT while disconnected is passed to the transport -/
example :
    let s := St.init C11.exCfg 5
    let p : Pkt := { ver := 5, kind := .connect, size := 15, keepAlive := 10 }
    (step C11.exCfg s (.send p)).ev = [.send p none, .timerReset .pingreqSend 10000] := by
  decide

/-- hypotheses of `C11_gate_pass` / `C11_gate_decision`: a connected v5.0 client, QoS 1 PUBLISH
    with topic "a" and alias 3 within the peer's Topic Alias Maximum 10 -/
def C11.exConnected : St := { C11.exState with status := .connected, tas := some (TAS.new 10) }
def C11.exAliasPub : Pkt :=
  { ver := 5, kind := .publish, qos := 1, pid := some 7, topic := [97], alias := some 3 }
example : Spec.PktWf C11.exAliasPub ∧ C11.tooLarge C11.exCfg C11.exConnected C11.exAliasPub = false ∧
    Spec.mayTransmit C11.exCfg.role C11.exConnected.ver C11.exConnected.status C11.exAliasPub
      C11.exConnected.needStore C11.exConnected.offline = true ∧
    (step C11.exCfg C11.exConnected (.send C11.exAliasPub)).ev = [.send C11.exAliasPub (some 7)] := by
  decide
example : AliasFine C11.exConnected C11.exAliasPub :=
  fun _ _ => by
    show ∀ a, C11.exAliasPub.alias = some a → _
    intro a h; cases h; decide
/-- … and a PUBLISH without topic name whose alias 3 is registered -/
def C11.exAliased : St :=
  { C11.exState with status := .connected, tas := some ((TAS.new 10).insertOrUpdate [97] 3) }
def C11.exAliasOnlyPub : Pkt := { ver := 5, kind := .publish, qos := 0, alias := some 3 }
example : AliasFine C11.exAliased C11.exAliasOnlyPub :=
  fun _ _ => by
    show (aliasLookup C11.exAliased.tas C11.exAliasOnlyPub.alias).isSome = true
    decide
example : (step C11.exCfg C11.exAliased (.send C11.exAliasOnlyPub)).ev = [.send C11.exAliasOnlyPub none] := by
  decide
/-- a few cells of the extracted matrix -/
example : C11.sendGate .server 5 .connected .subscribe 5 0 false false = true ∧
    C11.sendGate .client 5 .connected .subscribe 5 0 false false = false ∧
    C11.sendGate .any 0 .connected .publish 5 0 false false = true ∧
    C11.sendGate .client 4 .disconnected .publish 4 1 true true = false ∧
    C11.sendGate .client 4 .disconnected .publish 4 1 true false = true := by decide
example : C11.sendGateCells.length = 9396 := by decide +kernel


/-! ## `C11 persistence_flag`: the flag the send gate reads is the persistence of the session

Driver monitor `VIOL sig=C11 persistence_flag@<site>`.  The driver keeps a ghost Boolean `ns`
(initially `false`): the call `set off 1` (offline publishing switched on) sets it; then the events
of the call update it in order (`PF.nsEv`): a CONNECT sent or delivered sets it to `!clean`
(v3.1.1) resp. `Session Expiry Interval > 0` (v5.0, the FIRST such property); a delivered v5.0
CONNACK with reason code 0 that carries a Session Expiry Interval property sets it to `value > 0`;
every other event leaves it.  After every call the digest field `need_store` must equal the ghost.

`C11_persistence_flag_step`: `needStore = ghost` is an invariant of `step` — together with
"the version is 0, 4 or 5" and "no stored packet is a CONNECT" — for every call that respects
`C11.PFLegal` (weakest contract found; each clause is shown to be needed by a `decide`-checked
example below):
* a sent CONNECT carries at most one Session Expiry Interval property (`PF.SeiOnce`);
* a received packet comes from a parser whose result has the kind of the frame's type nibble, and,
  for CONNECT / CONNACK, the version it was parsed for and at most one Session Expiry Interval
  (`PF.ParsePF`);
* `restore_packets` is not given a CONNECT (its Rust argument type admits PUBLISH / PUBREL only).
The model sets `needStore` in exactly the places the ghost does: `set_offline_publish(true)`,
`initConn` + CONNECT handling (send and receive side), `connackRecvProp`.  No other operation
touches it (frame lemmas `PF.K_*`). -/

/-- the driver's `ns0` -/
def C11.nsReset : Op → Bool → Bool
  | .setFlag .offline true, _ => true
  | _, ns => ns

/-- the driver's fold over the events of the call (`PF.nsEv` is its step function) -/
def C11.nsStep (ns : Bool) (evs : List Ev) : Bool := PF.nsStep ns evs

/-- the ghost along a sequence of calls -/
def C11.nsRun (cfg : Cfg) : St → Bool → List Op → Bool
  | _, ns, [] => ns
  | s, ns, op :: ops => C11.nsRun cfg (step cfg s op).s (C11.nsStep (C11.nsReset op ns) (step cfg s op).ev) ops

/-- the invariant: flag = ghost; version 0 / 4 / 5; no CONNECT in the store -/
structure C11.PFInv (s : St) (ns : Bool) : Prop where
  flag : s.needStore = ns
  ver : PF.VerOk s.ver
  store : ∀ x ∈ s.store, x.2.kind ≠ .connect

/-- the contract of one call -/
def C11.PFLegal : Op → Prop
  | .send p => p.kind = .connect → PF.SeiOnce p.props
  | .recv _ parse => PF.ParsePF parse
  | .restorePackets ps => ∀ p ∈ ps, p.kind ≠ .connect
  | _ => True

theorem C11.PFInv.init (cfg : Cfg) (ver : Nat) (hv : ver = 0 ∨ ver = 4 ∨ ver = 5) :
    C11.PFInv (St.init cfg ver) false :=
  ⟨rfl, hv, by simp [St.init]⟩

/-- **C11 persistence_flag** (`VIOL sig=C11 persistence_flag@<site>`): after every call the model's
    `needStore` equals the driver's ghost, computed from the operation and the events of the call;
    the side invariants are kept as well.  Every configuration, every state of the invariant,
    every operation within `C11.PFLegal` (arbitrary peer bytes). -/
theorem C11_persistence_flag_step (cfg : Cfg) (s : St) (op : Op) (ns : Bool)
    (h : C11.PFInv s ns) (hl : C11.PFLegal op) :
    C11.PFInv (step cfg s op).s (C11.nsStep (C11.nsReset op ns) (step cfg s op).ev) := by
  obtain ⟨hf, hv, hs⟩ := h
  have hstore : ∀ x ∈ (step cfg s op).s.store, x.2.kind ≠ .connect :=
    SKn.sk_step (okk := fun k => k ≠ .connect) cfg s op (by decide) (by decide) hs
      (fun ps e => by subst e; exact hl)
  have g : PF.GK ns (PF.K ({ cfg := cfg, s := s } : C)) := hf
  have same : ∀ c' : C, PF.K c' = PF.K ({ cfg := cfg, s := s } : C) →
      c'.s.needStore = PF.nsStep ns c'.ev ∧ PF.VerOk c'.s.ver := fun c' e =>
    ⟨(PF.GK_iff ns c').1 (PF.gk_congr e g), by rw [PF.ver_of_K e]; exact hv⟩
  have fin : ∀ {c' : C} {b : Bool}, c'.s.needStore = PF.nsStep b c'.ev ∧ PF.VerOk c'.s.ver →
      (∀ x ∈ c'.s.store, x.2.kind ≠ .connect) → C11.PFInv c'.s (C11.nsStep b c'.ev) :=
    fun h1 h2 => ⟨h1.1, h1.2, h2⟩
  cases op with
  | send p =>
    have o := PF.g_send (b0 := ns) (c := { cfg := cfg, s := s }) g p hl hs
    exact fin ⟨(PF.GK_iff ns _).1 o.1, by show PF.VerOk (send _ p).s.ver; rw [o.2]; exact hv⟩ hstore
  | recv inp parse =>
    have o := PF.g_recv (b0 := ns) (c := { cfg := cfg, s := s }) g inp parse hl hv hs
    exact fin ⟨(PF.GK_iff ns _).1 o.1, o.2⟩ hstore
  | timer k => exact fin (same _ (PF.K_notifyTimerFired _ k)) hstore
  | closed => exact fin (same _ (PF.K_notifyClosed _)) hstore
  | setInterval d => exact fin (same _ (PF.K_setPingreqSendInterval _ d)) hstore
  | setFlag f b =>
    cases f
    · cases b
      · exact ⟨hf, hv, hs⟩
      · exact ⟨rfl, hv, hs⟩
    all_goals exact ⟨hf, hv, hs⟩
  | setRespTimeout ms => exact ⟨hf, hv, hs⟩
  | acquire => exact ⟨hf, hv, hs⟩
  | register id => exact ⟨hf, hv, hs⟩
  | release id => exact fin (same _ (PF.K_releasePacketId _ id)) hstore
  | erase id => exact fin (same _ (PF.K_eraseStoredPublish _ id)) hstore
  | restoreHandled ids => exact ⟨hf, hv, hs⟩
  | restorePackets ps => exact fin (same _ (PF.K_restorePackets ps _)) hstore

/-- run level: from any state of the invariant, along every sequence of legal calls -/
theorem C11_persistence_flag_run (cfg : Cfg) (ops : List Op) (s : St) (ns : Bool)
    (h : C11.PFInv s ns) (hl : ∀ op ∈ ops, C11.PFLegal op) :
    C11.PFInv (run cfg s ops) (C11.nsRun cfg s ns ops) := by
  induction ops generalizing s ns with
  | nil => exact h
  | cons op ops ih =>
    simp only [run, C11.nsRun]
    exact ih _ _ (C11_persistence_flag_step cfg s op ns h (hl op (by simp))) (fun o ho => hl o (by simp [ho]))

/-- **from a fresh connection object** (ghost initially `false`): the flag the send gate reads is
    the ghost after every sequence of legal calls -/
theorem C11_persistence_flag_reachable (cfg : Cfg) (ver : Nat) (hv : ver = 0 ∨ ver = 4 ∨ ver = 5)
    (ops : List Op) (hl : ∀ op ∈ ops, C11.PFLegal op) :
    (run cfg (St.init cfg ver) ops).needStore = C11.nsRun cfg (St.init cfg ver) false ops :=
  (C11_persistence_flag_run cfg ops _ _ (C11.PFInv.init cfg ver hv) hl).flag

/-! ### non-vacuity, and every clause of the contract is needed -/
namespace C11pf
def cfgC : Cfg := { role := .client, pw := 2 }
def cfgS : Cfg := { role := .server, pw := 2 }
def connect5 (props : List (Nat × Nat)) : Pkt := { ver := 5, kind := .connect, size := 20, keepAlive := 10, props := props }
def connack5 (sp : Bool) (props : List (Nat × Nat)) : Pkt := { ver := 5, kind := .connack, size := 8, rc := some 0, sp := sp, props := props }
def connect4 (clean : Bool) : Pkt := { ver := 4, kind := .connect, size := 14, keepAlive := 10, clean := clean }
/-- a parser that answers CONNACK frames with `q` (of the version asked for) and nothing else -/
def parseConnack (q : Pkt) : Nat → Nat → List Nat → Except Nat Pkt :=
  fun v fh _ => if fh / 16 = 2 then .ok { q with ver := v } else .error eMalformed
def connackBytes : List Nat := [0x20, 3, 0, 0, 0]

theorem parseConnack_ok (props : List (Nat × Nat)) (sp : Bool) (h : PF.SeiOnce props) :
    PF.ParsePF (parseConnack (connack5 sp props)) := by
  intro v fh d p hp
  unfold parseConnack at hp
  split at hp
  · rename_i h2
    cases hp
    exact ⟨by simp [connack5, Kind.nibble, h2], fun _ => ⟨rfl, h⟩⟩
  · cases hp

/-- a v5.0 client: CONNECT with Session Expiry Interval 60 (persistent), CONNACK overriding it with
    0 (not persistent), offline publishing switched on (persistent), a new CONNECT without the
    property (not persistent — although the offline option is still on: model and ghost agree) -/
def ops1 : List Op :=
  [.send (connect5 [(pSEI, 60)]), .recv connackBytes (parseConnack (connack5 false [(pSEI, 0)])),
   .setFlag .offline true, .closed, .send (connect5 [])]
theorem ops1_legal : ∀ op ∈ ops1, C11.PFLegal op := by
  intro op h
  simp only [ops1, List.mem_cons, List.mem_nil_iff, or_false] at h
  rcases h with rfl | rfl | rfl | rfl | rfl
  · intro _; decide
  · exact parseConnack_ok _ _ (by decide)
  · trivial
  · trivial
  · intro _; decide
example : (runEvents cfgC (St.init cfgC 5) ops1).length = 5 ∧
    [1, 2, 3, 4, 5].map (fun n => (run cfgC (St.init cfgC 5) (ops1.take n)).needStore) = [true, false, true, true, false] ∧
    [1, 2, 3, 4, 5].map (fun n => C11.nsRun cfgC (St.init cfgC 5) false (ops1.take n)) = [true, false, true, true, false] := by
  decide
example : (run cfgC (St.init cfgC 5) ops1).needStore = C11.nsRun cfgC (St.init cfgC 5) false ops1 :=
  C11_persistence_flag_reachable cfgC 5 (.inr (.inr rfl)) ops1 ops1_legal

/-- (a) `SeiOnce` of a sent CONNECT is needed: with two Session Expiry Interval properties the model
    (any non-zero one) and the ghost (`findProp`: the first) disagree -/
example : ¬ C11.PFLegal (.send (connect5 [(pSEI, 0), (pSEI, 5)])) ∧
    (step cfgC (St.init cfgC 5) (.send (connect5 [(pSEI, 0), (pSEI, 5)]))).s.needStore = true ∧
    C11.nsStep false (step cfgC (St.init cfgC 5) (.send (connect5 [(pSEI, 0), (pSEI, 5)]))).ev = false := by
  refine ⟨fun h => absurd (h rfl) (by decide), by decide, by decide⟩

/-- (b) the parser's kind must be that of the frame: a PUBLISH frame "parsed" as a CONNECT is
    delivered by the PUBLISH handler — the ghost sees a delivered CONNECT, the model does not -/
def parseBad : Nat → Nat → List Nat → Except Nat Pkt := fun _ _ _ => .ok (connect4 false)
example : ¬ PF.ParsePF parseBad ∧
    (step cfgS { St.init cfgS 4 with status := .connected } (.recv [0x30, 3, 0, 1, 97] parseBad)).s.needStore = false ∧
    C11.nsStep false (step cfgS { St.init cfgS 4 with status := .connected } (.recv [0x30, 3, 0, 1, 97] parseBad)).ev = true := by
  refine ⟨fun h => absurd (h 4 0x30 [] _ rfl).1 (by decide), by decide, by decide⟩

/-- (c) the parser's CONNECT must have the version it was parsed for: a v3.1.1 connection handles a
    CONNECT by the v3.1.1 rule (`!clean`), the ghost reads the packet's own version -/
def parseV5 : Nat → Nat → List Nat → Except Nat Pkt :=
  fun _ fh _ => if fh / 16 = 1 then .ok { connect5 [] with clean := false } else .error eMalformed
def connectBytes : List Nat := [0x10, 10, 0, 4, 77, 81, 84, 84, 4, 0, 0, 0]
example : ¬ PF.ParsePF parseV5 ∧
    (step cfgS (St.init cfgS 4) (.recv connectBytes parseV5)).s.needStore = true ∧
    C11.nsStep false (step cfgS (St.init cfgS 4) (.recv connectBytes parseV5)).ev = false := by
  refine ⟨fun h => absurd ((h 4 0x10 [] _ rfl).2 (.inl rfl)).1 (by decide), by decide, by decide⟩

/-- (d) the version must be 0, 4 or 5: a connection object created with version 7 runs the v5.0
    handlers on version-7 packets; the ghost's CONNACK rule asks for version 5 -/
def s7 : St := { St.init cfgC 7 with status := .connecting }
example : ¬ PF.VerOk s7.ver ∧
    (step cfgC s7 (.recv connackBytes (parseConnack (connack5 false [(pSEI, 9)])))).s.needStore = true ∧
    C11.nsStep false (step cfgC s7 (.recv connackBytes (parseConnack (connack5 false [(pSEI, 9)])))).ev = false := by
  refine ⟨by unfold PF.VerOk; decide, by decide, by decide⟩

/-- (e) no CONNECT in the store: `restore_packets` given a CONNECT (impossible in Rust) makes the
    session resumption re-send it, which the ghost takes for a new CONNECT -/
def storedConnect : Pkt := { ver := 5, kind := .connect, pid := some 1, size := 12 }
def ops2 : List Op :=
  [.restorePackets [storedConnect], .send (connect5 [(pSEI, 60)]),
   .recv connackBytes (parseConnack (connack5 true []))]
example : ¬ C11.PFLegal (.restorePackets [storedConnect]) ∧
    (run cfgC (St.init cfgC 5) ops2).needStore = true ∧ C11.nsRun cfgC (St.init cfgC 5) false ops2 = false := by
  refine ⟨fun h => absurd rfl (h storedConnect (by simp)), by decide, by decide⟩

/-- (f) at most one Session Expiry Interval in a received CONNACK: the model takes the last, the
    ghost the first -/
example : ¬ PF.SeiOnce [(pSEI, 0), (pSEI, 7)] ∧
    (run cfgC (St.init cfgC 5) [.send (connect5 []), .recv connackBytes (parseConnack (connack5 false [(pSEI, 0), (pSEI, 7)]))]).needStore = true ∧
    C11.nsRun cfgC (St.init cfgC 5) false [.send (connect5 []), .recv connackBytes (parseConnack (connack5 false [(pSEI, 0), (pSEI, 7)]))] = false := by
  refine ⟨by decide, by decide, by decide⟩
end C11pf

end MqttVerif.Conn
