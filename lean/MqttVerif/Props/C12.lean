import MqttVerif.Conn.Lemmas.Basic
/-!
# C12 — Receive Maximum flow control (first instalment)
-/
set_option linter.unusedSimpArgs false
set_option linter.unusedVariables false
namespace MqttVerif.Conn
open MqttVerif

/-- the three decrements of `publish_send_count` never wrap (fix, finding #10) -/
theorem C12_decrement_never_wraps (c : C) :
    (decSendCount c).s.sendCount ≤ c.s.sendCount ∧ (decSendCount c).s.panic = c.s.panic ∧
    (c.s.sendMax.isSome = true → c.s.sendCount > 0 → (decSendCount c).s.sendCount + 1 = c.s.sendCount) := by
  unfold decSendCount
  by_cases h : c.s.sendMax.isSome = true ∧ c.s.sendCount > 0
  · simp [h]; omega
  · simp only [h, if_false, Nat.le_refl, true_and]
    intro a b; exact absurd ⟨a, b⟩ h

/-- reported vacancy = M − count, saturating at zero, for every M and every count -/
theorem C12_vacancy_formula (s : St) (m : Nat) (h : s.sendMax = some m) :
    vacancy s = some (m - s.sendCount) ∧ (s.sendCount ≥ m → vacancy s = some 0) := by
  simp [vacancy, h]; omega

/-- the send gate: with Receive Maximum M a QoS>0 PUBLISH reaching the flow-control stage is
    refused with ReceiveMaximumExceeded exactly when `count ≥ M`, before the alias table is
    touched (fix, finding #11), and then nothing is sent -/
theorem C12_gate_blocks_iff (c : C) (p : Pkt) (rel : Option Nat) (v : Bool) (m : Nat)
    (hq : p.qos > 0) (hm : c.s.sendMax = some m) (hfull : c.s.sendCount ≥ m) :
    psV5PublishAlias c p rel v = pubRefuseCleanup (c.err eRMExceeded) p.pid := by
  simp [psV5PublishAlias, hq, hm, hfull]

example : ∃ c : C, c.s.sendMax = some 1 ∧ c.s.sendCount ≥ 1 :=
  ⟨{ cfg := ⟨.client, 2⟩, s := { (St.init ⟨.client, 2⟩ 5) with sendMax := some 1, sendCount := 1 } }, rfl, by decide⟩

end MqttVerif.Conn
