import MqttVerif.Conn.Lemmas.Credit
import MqttVerif.Conn.Lemmas.Pigeon
/-!
# C12 — Receive Maximum flow control is exact in both directions

Statement (properties.jsonl): on a v5.0 connection whose peer announced Receive Maximum M, a new
QoS>0 PUBLISH is accepted only while fewer than M outbound QoS>0 exchanges of this connection
are incomplete; the reported vacancy equals M minus that number, never wraps or panics, and returns
to M when all exchanges complete; conversely an excess inbound QoS>0 PUBLISH is answered with
DISCONNECT 'Receive Maximum exceeded' and not delivered.

Model fields: `sendMax` (M), `sendCount` (u32 since fix ab9a1ec), wait sets `puback pubrec pubcomp`, `store`;
`vacancy s = sendMax.map (· - sendCount)`.  Proved here, for **every** M, state, packet, parser
and operation:
* `C12_no_wrap` — neither `+= 1` site panics (given M ≤ 65535 and ≤ 4294967295 stored packets — the latter holds whenever store ids are distinct ids of a ≤ 4-byte id type, `C12_no_wrap_ids`);
  `C12_dec_never_underflows`;
* `C12_send_accepted_iff_credit` — the gate is exactly `sendCount ≥ M`, with the exact frame of a
  refusal and `+1` on acceptance;
* `C12_recv_excess_disconnects`, `C12_publishRecv_*` — receiver side;
* the exact equation: `C12_credit_invariant_partial` (per-transition, on a live connection),
  `C12_resume_recount`, `C12_vacancy_returns`, `C12_new_session_credit` (fix 9ba24a9: a new
  session starts with the counter at 0); the full statement over all histories is **false**:
  `C12_credit_invariant_full_false` with three `decide`d witnesses (findings #28, #29).
-/
set_option linter.unusedSimpArgs false
set_option linter.unusedVariables false
namespace MqttVerif.Conn
open MqttVerif

/-! ## 1. the counter never wraps -/

/-- no call raises a panic at one of the two `publish_send_count += 1` sites, provided the
    peer's Receive Maximum is a `u16` value and at most 4294967295 packets are stored (`WrapPre`);
    for every M ≥ 0, every operation, every peer input.  (`cpOf panic` = "the sticky panic is one
    of the two counter sites".) -/
theorem C12_no_wrap (cfg : Cfg) (s : St) (op : Op) (h : WrapPre s) (hp : s.panic = none) :
    (step cfg s op).s.panic ≠ some siteStored ∧ (step cfg s op).s.panic ≠ some sitePublish := by
  have := step_cp cfg s op h
  simp only [hp, cpOf] at this
  simp only [Option.some.injEq, reduceCtorEq, or_self, decide_false, decide_eq_false_iff_not, not_or] at this
  exact this

/-- `WrapPre` from what the connection's invariants give (C05 `Inv`: `StoreInv` — stored ids pairwise
    distinct, also `C08_store_ids_distinct` — and `StoreRange` — stored ids inside `[1, idMax]`):
    with identifiers of at most 4 bytes the store cannot hold more than `u32::MAX` packets
    (pigeonhole), so the store bound of `C12_no_wrap` needs no assumption on the session size. -/
theorem wrapPre_of_ids (cfg : Cfg) (s : St) (h4 : cfg.pw ≤ 4)
    (hM : ∀ M, s.sendMax = some M → M ≤ 65535)
    (hn : (s.store.map (·.1)).Nodup) (hr : ∀ x ∈ s.store, 1 ≤ x.1 ∧ x.1 ≤ cfg.idMax) : WrapPre s :=
  ⟨hM, Nat.le_trans (Pigeon.keys_length_le hn hr) (Pigeon.idMax_le_u32 h4)⟩

/-- **`C12_no_wrap` without a bound on the session size** (`u32` counter, fix ab9a1ec): neither
    `+= 1` site panics when the peer's Receive Maximum is a `u16`, identifiers are at most 4 bytes
    wide and the stored identifiers are pairwise distinct members of `[1, idMax]` — both
    invariants of every reachable state.  (The `u16` counter needed "at most 65535 stored
    packets", which 4-byte identifiers do not guarantee: finding fixed by ab9a1ec.) -/
theorem C12_no_wrap_ids (cfg : Cfg) (s : St) (op : Op) (h4 : cfg.pw ≤ 4)
    (hM : ∀ M, s.sendMax = some M → M ≤ 65535)
    (hn : (s.store.map (·.1)).Nodup) (hr : ∀ x ∈ s.store, 1 ≤ x.1 ∧ x.1 ≤ cfg.idMax)
    (hp : s.panic = none) :
    (step cfg s op).s.panic ≠ some siteStored ∧ (step cfg s op).s.panic ≠ some sitePublish :=
  C12_no_wrap cfg s op (wrapPre_of_ids cfg s h4 hM hn hr) hp

/-- the three decrements (PUBACK / failing PUBREC / PUBCOMP, and `erase`) go through
    `decSendCount`, which is guarded: never below zero, no panic site -/
theorem C12_dec_never_underflows (c : C) :
    (decSendCount c).s.sendCount = c.s.sendCount - 1 ∨ (decSendCount c).s.sendCount = c.s.sendCount := by
  unfold decSendCount; split <;> simp
theorem C12_dec_panic (c : C) : (decSendCount c).s.panic = c.s.panic := by
  unfold decSendCount; split <;> rfl

/-! ## 2. the send gate -/

/-- with `sendMax = some M`, a v5.0 QoS>0 PUBLISH that passes all other checks (size, allowed,
    identifier in use and fresh, full topic, alias in range if any) is refused with
    ReceiveMaximumExceeded **iff** `sendCount ≥ M`.  On refusal exactly `[error 0x93, released id]`
    is emitted, nothing is sent, the identifier is released and all of store / wait sets / alias
    tables / counters are as before (`core` = the 14 fields C12 and C13 talk about); otherwise
    `sendCount` grows by exactly 1, the identifier enters its wait set and no error is reported. -/
theorem C12_send_accepted_iff_credit (c : C) (p : Pkt) (id M : Nat) (hev : c.ev = [])
    (hsz : sizeOk c p = true) (hq : p.qos > 0)
    (hid : p.pid = some id) (hna : pubNotAllowed c.s = false) (hu : isUsed c.s id = true)
    (hk : p.kind = .publish) (ht : p.topic ≠ [])
    (halias : ∀ a, p.alias = some a → validateTopicAliasRange c.s a = true)
    (hM : c.s.sendMax = some M) (hM65 : M ≤ 65535)
    (h1 : id ∉ c.s.puback) (h2 : id ∉ c.s.pubrec) (h3 : lookup id c.s.store = none) :
    (Ev.error eRMExceeded ∈ (psV5Publish c p).ev ↔ c.s.sendCount ≥ M) ∧
    (c.s.sendCount ≥ M →
      (psV5Publish c p).ev = [.error eRMExceeded, .released id] ∧
      (psV5Publish c p).s.core = c.s.core ∧
      (psV5Publish c p).s.pidMan = (Alloc.deallocate c.s.pidMan id).2) ∧
    (c.s.sendCount < M →
      (psV5Publish c p).s.sendCount = c.s.sendCount + 1 ∧
      (psV5Publish c p).s.puback = (addWait c p.qos id).s.puback ∧
      (psV5Publish c p).s.pubrec = (addWait c p.qos id).s.pubrec) := by
  have hA := fun hge => psV5Publish_refused c p id M hsz hq hid hna hu hk ht hM hge h1 h2 h3
  have hB := fun hlt => psV5Publish_accepted c p id M hsz hq hid hna hu ht halias hM hlt hM65
  have hS := fun hlt => accepted_sets c p id M hsz hq hid hna hu ht halias hM hlt
  refine ⟨⟨?_, ?_⟩, ?_, ?_⟩
  · intro hin
    by_cases hge : c.s.sendCount ≥ M
    · exact hge
    · have := (hB (by omega)).2 _ hin
      simp [hev] at this
  · intro hge; rw [(hA hge).1]; simp
  · intro hge; have := hA hge; simpa [hev] using this
  · intro hlt; exact ⟨(hB hlt).1, hS hlt⟩

/-! ## 5. receiver side -/

/-- with `recvMax = some L` and `L` identifiers unanswered, a received v5.0 QoS>0 PUBLISH that
    passed the alias stage is **not delivered** (no `.recv` event) and reported as
    ReceiveMaximumExceeded; while connected: DISCONNECT 0x93 + close (or only close when the
    DISCONNECT exceeds the peer's Maximum Packet Size), status `disconnected` -/
theorem C12_recv_excess_disconnects (c : C) (p p' : Pkt) (L : Nat) (hL : c.s.recvMax = some L)
    (hge : c.s.publishRecv.length ≥ L) (hq : p.qos > 0) (hpid : p.pid.isSome)
    (hpass : (prV5PublishAlias c p).2 = some p') :
    recvs (prV5Publish c (.ok p)).ev = recvs c.ev ∧
    (prV5Publish c (.ok p)).s.publishRecv = c.s.publishRecv ∧
    (c.s.status = .connected →
      (prV5Publish c (.ok p)).s.status = .disconnected ∧
      ∃ tc, (∀ x ∈ tc, IsTimerCancel x) ∧
        (prV5Publish c (.ok p)).ev = c.ev ++ tc ++
          (if sizeOk c (mkV5Disconnect 0x93) then [.send (mkV5Disconnect 0x93) none, .close] else [.close]) ++
          [.error eRMExceeded]) := by
  obtain ⟨e1, e2, e3⟩ := prvAlias_pass c p p' hpass
  rw [recv_excess_eq c p p' L hL hge hq hpid hpass]
  refine ⟨by simp, by simp, ?_⟩
  intro hc
  obtain ⟨s1, tc, h1, h2⟩ := handleV5Error_connected (prV5PublishAlias c p).1 eRMExceeded (by rw [e2]; exact hc)
  refine ⟨s1, tc, h1, ?_⟩
  have hsz : sizeOk (prV5PublishAlias c p).1 (mkV5Disconnect 0x93) = sizeOk c (mkV5Disconnect 0x93) := by
    unfold sizeOk; simp [e3]
  simpa [errToDisconnectRc, eRMExceeded, e1, hsz] using h2

/-- `publishRecv` is inserted into only by the bookkeeping stage of an accepted QoS>0 PUBLISH … -/
theorem C12_publishRecv_insert (c : C) (qos id : Nat) :
    (prvBook c qos id).s.publishRecv = if qos > 0 then ins id c.s.publishRecv else c.s.publishRecv := by
  unfold prvBook; dsimp only; (repeat' split) <;> simp_all

/-- … and deleted from only by a PUBACK / PUBCOMP / failing PUBREC that is actually sent
    (requested with the same identifier in the same call) -/
theorem C12_publishRecv_delete (c : C) (p : Pkt) :
    ((psV5Puback c p).s.publishRecv = c.s.publishRecv ∨
      ((psV5Puback c p).s.publishRecv = del (p.pid.getD 0) c.s.publishRecv ∧ Ev.send p none ∈ (psV5Puback c p).ev)) ∧
    ((psV5Pubrec c p).s.publishRecv = c.s.publishRecv ∨
      ((psV5Pubrec c p).s.publishRecv = del (p.pid.getD 0) c.s.publishRecv ∧
        (∃ rc, p.rc = some rc ∧ rc ≥ 0x80) ∧ Ev.send p none ∈ (psV5Pubrec c p).ev)) := by
  constructor
  · unfold psV5Puback; dsimp only
    split; left; rfl
    split; left; rfl
    right
    refine ⟨by simp, ?_⟩
    unfold sendPostProcess; dsimp only; (repeat' split) <;> simp
  · unfold psV5Pubrec; dsimp only
    split; left; rfl
    split; left; rfl
    cases hrc : p.rc with
    | none => left; simp
    | some rc =>
      by_cases h : rc ≥ 0x80
      · right
        refine ⟨by simp [h], ⟨rc, rfl, h⟩, ?_⟩
        unfold sendPostProcess; dsimp only; (repeat' split) <;> simp
      · left; simp [h]

/-- every other public call leaves `publishRecv` alone (a CONNECT re-initialises it) -/
theorem C12_publishRecv_frame (cfg : Cfg) (s : St) (op : Op)
    (h : match op with | .send _ => False | .recv _ _ => False | _ => True) :
    (step cfg s op).s.publishRecv = s.publishRecv := by
  cases op <;> simp [step] at h ⊢
  case setFlag f b => cases f <;> rfl
  case restorePackets ps =>
    have : ∀ c : C, (restorePackets c ps).s.publishRecv = c.s.publishRecv := by
      induction ps with
      | nil => intro c; rfl
      | cons p r ih => intro c; simp only [restorePackets]; rw [ih]; simp
    exact this _

/-! ## 3./4. the exact equation -/

def waitCount (s : St) : Nat := s.puback.length + s.pubrec.length + s.pubcomp.length

/-- `sendCount = |puback| + |pubrec| + |pubcomp| + |limbo|` whenever a Receive Maximum is known;
    `limbo` = identifiers whose PUBREC arrived and whose PUBREL was not sent yet (manual mode) -/
def CreditEq (s : St) (limbo : List Nat) : Prop :=
  ∀ M, s.sendMax = some M → s.sendCount = waitCount s + limbo.length

/-- ghost limbo set after a call: still-owned identifiers that left `pubrec` without entering
    `pubcomp` -/
def limboNext (s s' : St) (limbo : List Nat) : List Nat :=
  ((limbo ++ s.pubrec.filter (· ∉ s'.pubrec)).filter
    (fun id => id ∉ s'.pubcomp ∧ id ∉ s'.pubrec ∧ isUsed s' id)).eraseDups

def limboRun (cfg : Cfg) : St → List Nat → List Op → List Nat
  | _, limbo, [] => limbo
  | s, limbo, op :: ops => limboRun cfg (step cfg s op).s (limboNext s (step cfg s op).s limbo) ops

/-- minimal legality of a call relative to the state: a QoS>0 PUBLISH uses an identifier owned
    by no other exchange, a PUBREL continues an exchange in limbo, stored packets are restored or
    erased only consistently -/
def opLegal (s : St) (limbo : List Nat) : Op → Bool
  | .send p =>
    if p.kind = .publish ∧ p.qos > 0 then
      match p.pid with
      | some id => id ∉ s.puback ∧ id ∉ s.pubrec ∧ id ∉ s.pubcomp ∧ id ∉ limbo ∧ (lookup id s.store).isNone
      | none => false
    else if p.kind = .pubrel then decide (p.pid.getD 0 ∈ limbo) else true
  | .restorePackets _ => s.status = .disconnected
  | .erase id => id ∈ s.puback ∨ id ∈ s.pubrec
  | _ => true

def legalRun (cfg : Cfg) : St → List Nat → List Op → Bool
  | _, _, [] => true
  | s, limbo, op :: ops =>
    opLegal s limbo op && legalRun cfg (step cfg s op).s (limboNext s (step cfg s op).s limbo) ops

/-- the full statement: along every legal history of a fresh v5.0 connection object -/
def C12_credit_invariant_full : Prop :=
  ∀ (cfg : Cfg) (ops : List Op), legalRun cfg (St.init cfg 5) [] ops = true →
    CreditEq (run cfg (St.init cfg 5) ops) (limboRun cfg (St.init cfg 5) [] ops)

namespace C12Ex
def cfg : Cfg := { role := .client, pw := 2 }
def connect (props : List (Nat × Nat)) : Pkt := { ver := 5, kind := .connect, size := 15, props := props }
def connack (sp : Bool) (props : List (Nat × Nat)) : Pkt :=
  { ver := 5, kind := .connack, size := 8, rc := some 0, sp := sp, props := props }
def pub (qos id : Nat) : Pkt := { ver := 5, kind := .publish, topic := [97], qos := qos, pid := some id }
def ack (k : Kind) (id : Nat) : Pkt := { ver := 5, kind := k, size := 4, pid := some id }
def rx (fh : Nat) (p : Pkt) : Op := .recv [fh, 0] (fun _ _ _ => .ok p)
def fin (ops : List Op) : St := run cfg (St.init cfg 5) ops

/-- **witness, finding #29**: after the transport of a non-persistent session closed nothing is
    outstanding, but the old counter and limit are still in force (vacancy 1 instead of 2) -/
def w29 : List Op :=
  [.send (connect []), rx 0x20 (connack false [(pRM, 2)]), .acquire, .send (pub 1 1), .closed]
/-- **witness, finding #28**: a QoS 2 exchange in limbo (PUBREC seen, PUBREL not yet sent) carried
    across a reconnect is not recounted: after the manual PUBREL the counter is one too low -/
def w28 : List Op :=
  [.send (connect [(pSEI, 60)]), rx 0x20 (connack false [(pRM, 5)]), .acquire, .send (pub 2 1),
   rx 0x50 (ack .pubrec 1), .closed,
   .send (connect [(pSEI, 60)]), rx 0x20 (connack true [(pRM, 5)]), .send (ack .pubrel 1)]
/-- **witness, finding #29 (second half)**: an offline PUBLISH between two connections is
    counted against, and the next one refused by, the *previous* connection's Receive Maximum -/
def w29b : List Op :=
  [.send (connect [(pSEI, 60)]), rx 0x20 (connack false [(pRM, 1)]), .closed, .setFlag .offline true,
   .acquire, .send (pub 1 1), .acquire]

theorem w29_violates : legalRun cfg (St.init cfg 5) [] w29 = true ∧ (fin w29).sendMax = some 2 ∧
    (fin w29).sendCount = 1 ∧ waitCount (fin w29) = 0 ∧ limboRun cfg (St.init cfg 5) [] w29 = [] ∧
    vacancy (fin w29) = some 1 := by decide
theorem w28_violates : legalRun cfg (St.init cfg 5) [] w28 = true ∧ (fin w28).sendMax = some 5 ∧
    (fin w28).status = .connected ∧ (fin w28).sendCount = 0 ∧ (fin w28).pubcomp = [1] ∧
    waitCount (fin w28) = 1 ∧ limboRun cfg (St.init cfg 5) [] w28 = [] := by decide
theorem w29b_refused_offline : legalRun cfg (St.init cfg 5) [] w29b = true ∧
    (fin w29b).status = .disconnected ∧
    (step cfg (fin w29b) (.send (pub 1 2))).ev = [.error eRMExceeded, .released 2] := by decide
end C12Ex

/-- the full equation does **not** hold for all legal histories (findings #28, #29) -/
theorem C12_credit_invariant_full_false : ¬ C12_credit_invariant_full := by
  intro h
  have h28 := C12Ex.w28_violates
  have := h C12Ex.cfg C12Ex.w28 h28.1 5 h28.2.1
  rw [show run C12Ex.cfg (St.init C12Ex.cfg 5) C12Ex.w28 = C12Ex.fin C12Ex.w28 from rfl,
    h28.2.2.2.1, h28.2.2.2.2.2.1, h28.2.2.2.2.2.2] at this
  simp at this

/-- **partial invariant** — the equation is maintained, with the counter moving by exactly one,
    by each transition of an exchange on a live connection (the class of histories without
    reconnect-in-limbo and without reading the counter between connections):
    an accepted QoS>0 PUBLISH (+1 on both sides), a refused one (nothing changes), PUBACK and
    PUBCOMP for an awaited identifier (−1 on both sides).  Since fix ba1a812 also `release_packet_id`
    (−1 on both sides for an abandoned PUBLISH, nothing otherwise): `C12_credit_invariant_release`. -/
theorem C12_credit_invariant_partial (c : C) (limbo : List Nat) (heq : CreditEq c.s limbo) :
    -- accepted / refused PUBLISH
    (∀ (p : Pkt) (id M : Nat), sizeOk c p = true → p.qos > 0 → p.pid = some id → pubNotAllowed c.s = false →
      isUsed c.s id = true → p.kind = .publish → p.topic ≠ [] →
      (∀ a, p.alias = some a → validateTopicAliasRange c.s a = true) →
      c.s.sendMax = some M → M ≤ 65535 → id ∉ c.s.puback → id ∉ c.s.pubrec → lookup id c.s.store = none →
      CreditEq (psV5Publish c p).s limbo) ∧
    -- PUBACK
    (∀ p : Pkt, p.ver = 5 → p.pid.getD 0 ∈ c.s.puback → c.s.puback.Nodup →
      CreditEq (prPuback c (.ok p)).s limbo) ∧
    -- PUBCOMP
    (∀ p : Pkt, p.ver = 5 → p.pid.getD 0 ∈ c.s.pubcomp → c.s.pubcomp.Nodup →
      CreditEq (prPubcomp c (.ok p)).s limbo) := by
  refine ⟨?_, ?_, ?_⟩
  · intro p id M hsz hq hid hna hu hk ht halias hM hM65 h1 h2 h3 M' hM'
    have hM'' : M' = M := by simp [hM] at hM'; exact hM'.symm
    subst hM''
    have e0 := heq M' hM
    by_cases hge : c.s.sendCount ≥ M'
    · have hcore := (psV5Publish_refused c p id M' hsz hq hid hna hu hk ht hM hge h1 h2 h3).2.1
      have f : ∀ {β : Type} (F : Core → β), F (psV5Publish c p).s.core = F c.s.core := fun F => congrArg F hcore
      have a1 : (psV5Publish c p).s.sendCount = c.s.sendCount := f Core.sendCount
      have a2 : (psV5Publish c p).s.puback = c.s.puback := f Core.puback
      have a3 : (psV5Publish c p).s.pubrec = c.s.pubrec := f Core.pubrec
      have a4 : (psV5Publish c p).s.pubcomp = c.s.pubcomp := f Core.pubcomp
      simp only [waitCount, a1, a2, a3, a4]; exact e0
    · have hlt : c.s.sendCount < M' := by omega
      have b1 := (psV5Publish_accepted c p id M' hsz hq hid hna hu ht halias hM hlt hM65).1
      obtain ⟨b2, b3⟩ := accepted_sets c p id M' hsz hq hid hna hu ht halias hM hlt
      have b4 : (psV5Publish c p).s.pubcomp = c.s.pubcomp := by simp
      simp only [waitCount, b1, b2, b3, b4]
      unfold addWait
      simp only [waitCount] at e0
      split
      · simp only [length_ins h2]; omega
      · simp only [length_ins h1]; omega
  · intro p hv hin hnd M hM
    have hM0 : c.s.sendMax = some M := by rw [← hM]; simp
    have hs : c.s.sendMax.isSome := by simp [hM0]
    obtain ⟨a1, a2, a3, a4⟩ := prPuback_credit c p hv hin hs
    have e0 := heq M hM0
    have := length_del hin hnd
    simp only [waitCount, a1, a2, a3, a4] at e0 ⊢
    omega
  · intro p hv hin hnd M hM
    have hM0 : c.s.sendMax = some M := by rw [← hM]; simp
    have hs : c.s.sendMax.isSome := by simp [hM0]
    obtain ⟨a1, a2, a3, a4⟩ := prPubcomp_credit c p hv hin hs
    have e0 := heq M hM0
    have := length_del hin hnd
    simp only [waitCount, a1, a2, a3, a4] at e0 ⊢
    omega

/-- **the equation is preserved by `release_packet_id`** (fix ba1a812; before the fix `release` of an
    identifier awaited by PUBACK / PUBREC freed the identifier and left both the wait set and the
    counter alone — the application could not get the credit back, `C12Ex.release_returns_credit`):
    for every identifier, in use or not, awaited or not.  An abandoned QoS>0 PUBLISH (identifier in
    `puback` or `pubrec`) leaves its wait set and the counter moves by exactly one; otherwise
    neither changes.  (`hdis`: the identifier is not awaited by PUBACK and PUBREC at once.) -/
theorem C12_credit_invariant_release (c : C) (limbo : List Nat) (heq : CreditEq c.s limbo) (id : Nat)
    (hn1 : c.s.puback.Nodup) (hn2 : c.s.pubrec.Nodup) (hdis : id ∈ c.s.puback → id ∉ c.s.pubrec) :
    CreditEq (releasePacketId c id).s limbo ∧
    (∀ M, c.s.sendMax = some M → isUsed c.s id = true → (id ∈ c.s.puback ∨ id ∈ c.s.pubrec) →
      (releasePacketId c id).s.sendCount + 1 = c.s.sendCount ∧
      waitCount (releasePacketId c id).s + 1 = waitCount c.s) ∧
    (¬ (isUsed c.s id = true ∧ (id ∈ c.s.puback ∨ id ∈ c.s.pubrec)) →
      (releasePacketId c id).s.sendCount = c.s.sendCount ∧ waitCount (releasePacketId c id).s = waitCount c.s) := by
  have e1 := releasePacketId_puback c id
  have e2 := releasePacketId_pubrec c id
  have e3 : (releasePacketId c id).s.pubcomp = c.s.pubcomp := by simp
  have e4 := releasePacketId_sendCount c id
  have e5 : (releasePacketId c id).s.sendMax = c.s.sendMax := by simp
  -- the awaited case, under a Receive Maximum
  have aw : ∀ M, c.s.sendMax = some M → isUsed c.s id = true → (id ∈ c.s.puback ∨ id ∈ c.s.pubrec) →
      (releasePacketId c id).s.sendCount + 1 = c.s.sendCount ∧
      waitCount (releasePacketId c id).s + 1 = waitCount c.s := by
    intro M hM hu ha
    have e0 := heq M hM
    have hs : c.s.sendMax.isSome = true := by simp [hM]
    simp only [waitCount, e1, e2, e3, hu, if_true] at e0 ⊢
    rcases ha with ha | ha
    · have hb := hdis ha
      have l1 := length_del ha hn1
      rw [del_not_mem hb]
      have hpos : c.s.sendCount > 0 := by omega
      rw [e4, if_pos ⟨hu, .inl ha, hs, hpos⟩]
      omega
    · have hb : id ∉ c.s.puback := fun h => hdis h ha
      have l1 := length_del ha hn2
      rw [del_not_mem hb]
      have hpos : c.s.sendCount > 0 := by omega
      rw [e4, if_pos ⟨hu, .inr ha, hs, hpos⟩]
      omega
  have na : ¬ (isUsed c.s id = true ∧ (id ∈ c.s.puback ∨ id ∈ c.s.pubrec)) →
      (releasePacketId c id).s.sendCount = c.s.sendCount ∧ waitCount (releasePacketId c id).s = waitCount c.s := by
    intro hna
    refine ⟨by rw [e4, if_neg (fun h => hna ⟨h.1, h.2.1⟩)], ?_⟩
    simp only [waitCount, e1, e2, e3]
    by_cases hu : isUsed c.s id = true
    · have h1 : id ∉ c.s.puback := fun h => hna ⟨hu, .inl h⟩
      have h2 : id ∉ c.s.pubrec := fun h => hna ⟨hu, .inr h⟩
      simp only [hu, if_true, del_not_mem h1, del_not_mem h2]
    · rw [if_neg hu, if_neg hu]
  refine ⟨?_, aw, na⟩
  intro M hM
  rw [e5] at hM
  have e0 := heq M hM
  by_cases hc : isUsed c.s id = true ∧ (id ∈ c.s.puback ∨ id ∈ c.s.pubrec)
  · obtain ⟨a1, a2⟩ := aw M hM hc.1 hc.2
    omega
  · obtain ⟨a1, a2⟩ := na hc
    omega

/-- on resume (`send_stored`) the counter is recounted: it equals the number of stored packets
    that are resent on the new connection (fix of finding #10 / #10b) -/
theorem C12_resume_recount (c : C) (hs : c.s.sendMax.isSome) (hlen : c.s.store.length ≤ 4294967295) :
    (sendStored c).s.sendCount = (sendStored c).s.store.length :=
  sendStored_recount c hs hlen

/-- where the equation holds: when all of puback / pubrec / pubcomp / limbo are empty the
    vacancy is M again -/
theorem C12_vacancy_returns (s : St) (limbo : List Nat) (M : Nat) (heq : CreditEq s limbo)
    (hM : s.sendMax = some M) (h1 : s.puback = []) (h2 : s.pubrec = []) (h3 : s.pubcomp = [])
    (h4 : limbo = []) : vacancy s = some M := by
  have := heq M hM
  simp [waitCount, h1, h2, h3, h4] at this
  simp [vacancy, hM, this]

/-- fix 9ba24a9: the start of a new session (`clearStoreRelated`: CONNECT sent / received with
    clean start, CONNACK sent / received with session_present = false or Session Expiry 0)
    re-establishes the equation from **any** state — no exchange is left, the counter is 0 and the
    vacancy is the full Receive Maximum (before the fix the stale counter survived) -/
theorem C12_new_session_credit (c : C) :
    (clearStoreRelated c).s.sendCount = 0 ∧ waitCount (clearStoreRelated c).s = 0 ∧
    CreditEq (clearStoreRelated c).s [] ∧
    (∀ M, c.s.sendMax = some M → vacancy (clearStoreRelated c).s = some M) := by
  refine ⟨rfl, rfl, fun _ _ => rfl, ?_⟩
  intro M hM
  simp [vacancy, clearStoreRelated, hM]

/-! ## non-vacuity -/
namespace C12Ex

/-- established v5.0 session, Receive Maximum 1 announced by the peer, persistent (store in use) -/
def sA : St := fin [.send (connect [(pSEI, 60), (pRM, 1)]), rx 0x20 (connack false [(pRM, 1)]), .acquire]
/-- the same with one QoS 1 exchange outstanding (credit exhausted) and a second identifier -/
def sB : St := run cfg sA [.send (pub 1 1), .acquire]
def cA : C := { cfg := cfg, s := sA }
def cB : C := { cfg := cfg, s := sB }

/-- `C12_no_wrap` -/
example : WrapPre sB ∧ sB.panic = none ∧ sB.store.length = 1 ∧ sB.sendMax = some 1 := by
  refine ⟨⟨?_, by decide⟩, by decide, by decide, by decide⟩
  intro M h; have : sB.sendMax = some 1 := by decide
  rw [this] at h; cases h; decide
/-- `C12_no_wrap_ids`: the id hypotheses in the reachable state `sB` (one stored packet, id 1) -/
example : cfg.pw ≤ 4 ∧ (sB.store.map (·.1)).Nodup ∧ (∀ x ∈ sB.store, 1 ≤ x.1 ∧ x.1 ≤ cfg.idMax) ∧
    sB.panic = none := by decide
/-- `C12_send_accepted_iff_credit`: accepted in `sA` (count 0 < 1), refused in `sB` (count 1 ≥ 1) -/
example : cA.ev = [] ∧ sizeOk cA (pub 1 1) = true ∧ (pub 1 1).qos > 0 ∧ pubNotAllowed sA = false ∧
    isUsed sA 1 = true ∧ sA.sendMax = some 1 ∧ sA.sendCount = 0 ∧ 1 ∉ sA.puback ∧ 1 ∉ sA.pubrec ∧
    lookup 1 sA.store = none := by decide
example : isUsed sB 2 = true ∧ sB.sendMax = some 1 ∧ sB.sendCount = 1 ∧ 2 ∉ sB.puback ∧ lookup 2 sB.store = none ∧
    (psV5Publish cB (pub 1 2)).ev = [.error eRMExceeded, .released 2] := by decide
/-- `C12_recv_excess_disconnects`: our Receive Maximum is 1, identifier 7 is unanswered -/
def cR : C := { cfg := cfg, s := { sA with publishRecv := [7] } }
example : cR.s.recvMax = some 1 ∧ cR.s.publishRecv.length ≥ 1 ∧ (prV5PublishAlias cR (pub 1 8)).2 = some (pub 1 8) ∧
    cR.s.status = .connected := by decide
/-- `C12_credit_invariant_partial`, `C12_vacancy_returns`, `C12_resume_recount` -/
example : CreditEq sB [] ∧ sB.puback = [1] ∧ sB.puback.Nodup := by
  refine ⟨?_, by decide, by decide⟩
  intro M h; have : sB.sendMax = some 1 := by decide
  rw [this] at h; cases h; decide
example : CreditEq sA [] ∧ sA.sendMax = some 1 ∧ sA.puback = [] ∧ sA.pubrec = [] ∧ sA.pubcomp = [] := by
  refine ⟨?_, by decide, by decide, by decide, by decide⟩
  intro M h; have : sA.sendMax = some 1 := by decide
  rw [this] at h; cases h; decide
example : cB.s.sendMax.isSome ∧ cB.s.store.length ≤ 4294967295 ∧ (sendStored cB).s.sendCount = 1 := by decide

/-- `C12_credit_invariant_release`, fixed by ba1a812: Receive Maximum 1, the QoS 1 PUBLISH id 1 is
    outstanding (credit exhausted: a second PUBLISH is refused); the application abandons it with
    `release 1` — the identifier leaves `puback`, the counter returns to 0, the equation holds, and
    the next PUBLISH is accepted.  (Before the fix: `puback = [1]`, `sendCount = 1` for ever — no
    PUBACK will come for a packet that was never transmitted — and every later PUBLISH refused.) -/
theorem release_returns_credit :
    CreditEq sB [] ∧ sB.puback = [1] ∧ sB.sendCount = 1 ∧ vacancy sB = some 0 ∧
    (step cfg sB (.release 1)).ev = [.released 1] ∧ (step cfg sB (.release 1)).s.puback = [] ∧
    (step cfg sB (.release 1)).s.sendCount = 0 ∧ vacancy (step cfg sB (.release 1)).s = some 1 ∧
    (step cfg sB (.send (pub 1 2))).ev = [.error eRMExceeded, .released 2] ∧
    (step cfg (step cfg sB (.release 1)).s (.send (pub 1 2))).ev.head? = some (.send { pub 1 2 with dup := false } none) := by
  refine ⟨?_, by decide, by decide, by decide, by decide, by decide, by decide, by decide, by decide, by decide⟩
  intro M h; have : sB.sendMax = some 1 := by decide
  rw [this] at h; cases h; decide
example : sB.puback.Nodup ∧ sB.pubrec.Nodup ∧ (1 ∈ sB.puback → 1 ∉ sB.pubrec) ∧ isUsed sB 1 = true := by decide

end C12Ex

end MqttVerif.Conn
