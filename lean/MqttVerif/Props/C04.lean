import MqttVerif.Codec.LemmasKinds
import MqttVerif.Codec.LemmasRTAll
import MqttVerif.Codec.LemmasSize
import MqttVerif.Codec.LemmasView
/-!
# C04 — decoder totality; accepted input canonical and valid

Statements are about the executable impl-shaped model `MqttVerif.Codec` (tied to the Rust
parsers by the lock-step run `harness codec` ⟷ `mqttdrv`).  In the model every Rust index,
slice and `unwrap` site is explicit (`idx`, `slice`, `sliceFrom`, `vbiOf`, `usub`) and yields
`PRes.panic site` when the Rust would panic, so `≠ .panic _` is a theorem about the guards.

`vbiMax = 268435455`.  Parsers that cache a Remaining Length derived from the input length need
`body.length < vbiMax`: beyond, `VariableByteInteger::from_u32(..).unwrap()` panics in the code
and in the model alike; the framing layer (C09) never delivers such a body.
-/
namespace MqttVerif.Props.C04
open MqttVerif.Codec

/-! ## totality of the primitives — every `List Nat` -/

/-- `VariableByteInteger::decode_stream`: reads at most 4 bytes, never more than the buffer holds;
    the value is in range and exactly its canonical encoding was read (non-minimal encodings are rejected). -/
theorem C04_vbi_total (buf : List Nat) (v c : Nat) (h : vbiDec buf = .ok v c) :
    v ≤ vbiMax ∧ vbiSize v = c ∧ c ≤ buf.length ∧ c ≤ 4 := vbiDec_ok h

/-- `MqttString::decode`: no panic; consumed = 2 + length ≤ input; the content is valid UTF-8
    (what `from_utf8_unchecked` in `as_str` relies on). -/
theorem C04_string_total (data : List Nat) :
    (∀ s, decStr data ≠ .panic s) ∧
    (∀ str c, decStr data = .ok str c → c = 2 + str.length ∧ c ≤ data.length ∧ utf8Ok str = true) :=
  ⟨(decStr_sat data).noPanic, (decStr_sat data).post⟩

theorem C04_binary_total (data : List Nat) :
    (∀ s, decBin data ≠ .panic s) ∧ (∀ b c, decBin data = .ok b c → c = 2 + b.length ∧ c ≤ data.length) :=
  ⟨(decBin_sat data).noPanic, (decBin_sat data).post⟩

theorem C04_subentry_total (data : List Nat) :
    (∀ s, SubEntry.parse data ≠ .panic s) ∧
    (∀ e c, SubEntry.parse data = .ok e c → c = e.size ∧ c ≤ data.length ∧ utf8Ok e.topic = true) :=
  ⟨(SubEntry.parse_sat data).noPanic, (SubEntry.parse_sat data).post⟩

/-- `Property::parse`: no panic; at least one byte and at most the input consumed; the property
    re-encodes to exactly what was consumed. -/
theorem C04_property_total (bytes : List Nat) :
    (∀ s, Property.parse bytes ≠ .panic s) ∧
    (∀ p c, Property.parse bytes = .ok p c → p.size = c ∧ c ≤ bytes.length ∧ 1 ≤ c) :=
  ⟨(Property.parse_sat bytes).noPanic, (Property.parse_sat bytes).post⟩

/-- `Properties::parse`: no panic (in particular the `while cursor < props_end` loop never
    slices with `cursor > props_end` and the model's fuel is never exhausted). -/
theorem C04_properties_total (data : List Nat) :
    (∀ s, Props.parse data ≠ .panic s) ∧
    (∀ ps c, Props.parse data = .ok ps c →
        vbiSize ps.size + ps.size = c ∧ c ≤ data.length ∧ ps.size ≤ vbiMax ∧ 1 ≤ c) :=
  ⟨(Props.parse_sat data).noPanic, (Props.parse_sat data).post⟩

/-! ## totality of the 29 packet parsers -/

/-- No parser panics: both versions, both id widths, every fixed-header byte, every body the
    framing layer can deliver. -/
theorem C04_no_panic (version pw fh : Nat) (body : List Nat) (r : PRes Packet)
    (hpw : pw = 2 ∨ pw = 4) (hl : body.length < vbiMax)
    (h : Packet.parse version pw fh body = some r) : ∀ site, r ≠ .panic site :=
  (Packet.parse_sat version pw fh body r hpw hl h).noPanic

/-- No parser claims to have consumed more than it was given. -/
theorem C04_consumed_le (version pw fh : Nat) (body : List Nat) (p : Packet) (c : Nat)
    (hpw : pw = 2 ∨ pw = 4) (hl : body.length < vbiMax)
    (h : Packet.parse version pw fh body = some (.ok p c)) : c ≤ body.length :=
  (Packet.parse_sat version pw fh body _ hpw hl h).post p c rfl

example : (2 = 2 ∨ 2 = 4) ∧ [0x00, 0x01, 0x10].length < vbiMax ∧
    Packet.parse 5 2 0x40 [0x00, 0x01, 0x10] = some (.ok (.puback5 ⟨3, 1, some 16, 0, none⟩) 3) := by decide

/-- Parsers whose cached lengths do not grow with the input are total on *every* list. -/
theorem C04_no_panic_unbounded (data : List Nat) (k : AckKind) (pw : Nat) (hpw : pw = 2 ∨ pw = 4) :
    (∀ s, Connack3.parse data ≠ .panic s) ∧ (∀ s, Ack3.parse k pw data ≠ .panic s) ∧
    (∀ s, Unsuback3.parse pw data ≠ .panic s) ∧ (∀ s, Empty.parse data ≠ .panic s) := by
  have h1 : pw + 1 ≤ vbiMax := by unfold vbiMax; omega
  have h2 : pw ≤ vbiMax := by omega
  exact ⟨(Connack3.parse_sat data).noPanic, (Ack3.parse_sat k pw data h1).noPanic,
    (Unsuback3.parse_sat pw data h2).noPanic, (Empty.parse_sat data).noPanic⟩

/-! ## accepted input: size, re-parse, builder rules -/

/-- **every accepted packet reports the length of its own serialisation** — all 29 parsers, both
    id widths, every input, no well-formedness assumed.  (False on the tree the design phase
    pinned: six v5.0 parsers took `remaining_length` from the consumed byte count and accepted
    non-minimal variable-byte integers; `decode_stream` rejects those since b1b35e9.) -/
theorem C04_size_eq (version pw fh : Nat) (body : List Nat) (p : Packet) (c : Nat) (hpw : pw = 2 ∨ pw = 4)
    (h : Packet.parse version pw fh body = some (.ok p c)) : p.size = (p.encode pw).length :=
  Packet.size_ok version pw fh body p c hpw h

example : (4 = 2 ∨ 4 = 4) ∧
    Packet.parse 5 4 0x34 [0, 1, 0x74, 0, 1, 0, 0] = some (.ok (.publish5 ⟨0x34, 8, [0x74], some 65536, 0, [], []⟩) 7) := by
  decide

def rejected : Option (PRes Packet) → Bool
  | some (.err _) => true
  | _ => false

/-- the former witnesses of `size() ≠ |bytes|` (non-minimal property length / Subscription
    Identifier in CONNACK, CONNECT, SUBACK, UNSUBACK, SUBSCRIBE, UNSUBSCRIBE v5.0) are rejected -/
theorem C04_nonminimal_vbi_rejected :
    rejected (Packet.parse 5 2 0x20 [0x00, 0x00, 0x80, 0x00]) = true ∧
    rejected (Packet.parse 5 2 0x10 [0, 4, 77, 81, 84, 84, 5, 2, 0, 60, 0x80, 0x00, 0, 1, 0x61]) = true ∧
    rejected (Packet.parse 5 2 0x90 [0x00, 0x01, 0x80, 0x00, 0x00]) = true ∧
    rejected (Packet.parse 5 2 0xb0 [0x00, 0x01, 0x80, 0x00, 0x00]) = true ∧
    rejected (Packet.parse 5 2 0x82 [0x00, 0x01, 0x03, 0x0b, 0x81, 0x00, 0x00, 0x01, 0x61, 0x00]) = true ∧
    rejected (Packet.parse 5 2 0xa2 [0x00, 0x01, 0x80, 0x00, 0x00, 0x01, 0x61]) = true := by decide

/-- the former witnesses of accepted-but-unbuildable packets are rejected: packet id 0
    (SUBSCRIBE, SUBACK, UNSUBSCRIBE, UNSUBACK, PUBLISH), CONNACK reserved flag bits, CONNECT
    reserved bit / Will QoS 3 / Will Retain without Will, wildcard and empty (v3.1.1) topics -/
theorem C04_unbuildable_rejected :
    rejected (Packet.parse 4 2 0x82 [0, 0, 0, 1, 0x61, 0]) = true ∧
    rejected (Packet.parse 5 2 0x90 [0, 0, 0, 0]) = true ∧
    rejected (Packet.parse 4 2 0xa2 [0, 0, 0, 1, 0x61]) = true ∧
    rejected (Packet.parse 4 2 0xb0 [0, 0]) = true ∧
    rejected (Packet.parse 4 2 0x32 [0, 1, 0x74, 0, 0]) = true ∧
    rejected (Packet.parse 5 2 0x20 [0xfe, 0, 0]) = true ∧
    rejected (Packet.parse 4 2 0x10 [0, 4, 77, 81, 84, 84, 4, 1, 0, 60, 0, 0]) = true ∧
    rejected (Packet.parse 4 2 0x10 [0, 4, 77, 81, 84, 84, 4, 0x1e, 0, 60, 0, 0, 0, 1, 0x74, 0, 0]) = true ∧
    rejected (Packet.parse 5 2 0x10 [0, 4, 77, 81, 84, 84, 5, 0x22, 0, 60, 0, 0, 0]) = true ∧
    rejected (Packet.parse 4 2 0x30 [0, 1, 0x23]) = true ∧
    rejected (Packet.parse 5 2 0x30 [0, 1, 0x2b, 0]) = true ∧
    rejected (Packet.parse 4 2 0x30 [0, 0]) = true := by decide

/-- re-parsing the packet's own serialisation (fixed header byte, Remaining Length skipped)
    yields the same packet and consumes the whole body -/
def reparses (version pw : Nat) (p : Packet) : Bool :=
  match frameBody (p.encode pw) with
  | some (fh', _, body') => decide (Packet.parse version pw fh' body' = some (.ok p body'.length))
  | none => false

/-- every accepted packet satisfies the structural rules of its builder -/
def C04_buildable_full : Prop :=
  ∀ version pw fh body p c, (pw = 2 ∨ pw = 4) → Packet.parse version pw fh body = some (.ok p c) →
    p.wf pw = true

/-- the one remaining deviation: a v5.0 PUBLISH with an empty topic name and no Topic Alias
    property is accepted by the parser (the connection layer answers TopicAliasInvalid); the
    builder rejects it.  Reported by the run as `C04 buildable.topic_nonempty@v5.publish`. -/
theorem C04_buildable_counterexample_empty_topic : ¬ C04_buildable_full := by
  intro h
  have := h 5 2 0x30 [0, 0] (.publish5 ⟨0x30, 3, [], none, 0, [], []⟩) 2 (Or.inl rfl) (by decide)
  revert this; decide

theorem version_of_parse (version pw fh : Nat) (body : List Nat) (p : Packet) (c : Nat) (hv : version = 4 ∨ version = 5)
    (h : Packet.parse version pw fh body = some (.ok p c)) : p.version = version := by
  unfold Packet.parse at h
  simp only at h
  rcases hv with hv | hv <;> subst hv
  · simp only [show ¬ (4 = 5) by decide, if_false] at h
    split at h <;> first
      | (injection h with h; obtain ⟨a, rfl⟩ := map_ok_inv h; rfl)
      | (exact absurd h (by simp))
  · simp only [if_true] at h
    split at h <;> first
      | (injection h with h; obtain ⟨a, rfl⟩ := map_ok_inv h; rfl)
      | (exact absurd h (by simp))

/-- an accepted packet that satisfies the builder rules re-parses from its own serialisation
    to itself (C02_all) -/
theorem C04_reparse_partial (version pw fh : Nat) (body : List Nat) (p : Packet) (c : Nat) (hpw : pw = 2 ∨ pw = 4)
    (hv : version = 4 ∨ version = 5)
    (h : Packet.parse version pw fh body = some (.ok p c)) (hwf : p.wf pw = true) :
    reparses version pw p = true := by
  obtain ⟨fh', body', _, hfb, hp, _, _⟩ := Packet.roundTrips pw p hpw hwf
  rw [version_of_parse version pw fh body p c hv h] at hp
  unfold reparses
  rw [hfb]
  simp only [hp, decide_true]

example : (2 = 2 ∨ 2 = 4) ∧ (5 = 4 ∨ 5 = 5) ∧
    Packet.parse 5 2 0x40 [0x00, 0x01, 0x10] = some (.ok (.puback5 ⟨3, 1, some 16, 0, none⟩) 3) ∧
    Packet.wf 2 (.puback5 ⟨3, 1, some 16, 0, none⟩) = true := by decide

/-! ## builder rules enforced by the parsers; what L2 may assume of a parsed packet

`view : Codec.Packet → Conn.Pkt` is the interface through which the connection model (L2) sees
packets; the connection driver checks `view (parse frame)` against the descriptor the harness
prints from the real packet for every received frame and every sent packet
(`codec.view.<kind>.<field>`).  For input that consists of bytes: -/

/-- every accepted frame: PUBLISH has QoS ≤ 2, a packet id iff QoS > 0, and `1 ≤ id ≤ 256^pw − 1`;
    PUBACK … UNSUBACK carry an id in that range (packet identifier 0 is rejected by every
    parser); Receive Maximum / Maximum Packet Size property values are non-zero;
    `topic_name_extracted` is false. -/
theorem C04_accepted_view_wf (version pw fh : Nat) (body : List Nat) (v : MqttVerif.Conn.Pkt)
    (hb : ∀ b ∈ body, b < 256) (h : parseView version pw fh body = .ok v) : WfParsed pw v :=
  parseView_wfParsed version pw fh body v hb h

example : (∀ b ∈ [0x00, 0x01, 0x74, 0x12, 0x34, 0x00], b < 256) ∧
    (parseView 5 2 0x34 [0x00, 0x01, 0x74, 0x12, 0x34, 0x00]).toOption.map (·.pid) = some (some 0x1234) := by decide

/-- CONNACK v5.0: reserved acknowledge-flag bits are zero in every accepted packet -/
theorem C04_accepted_connack5_flags (data : List Nat) (p : Connack5) (c : Nat) (h : Connack5.parse data = .ok p c) :
    p.flags ≤ 1 := Connack5.parse_flags data p c h

/-- CONNECT (both versions): reserved flag clear, Will QoS ≤ 2, no Will QoS / Retain without Will -/
theorem C04_accepted_connect_flags (data : List Nat) :
    (∀ p c, Connect3.parse data = .ok p c → ConnFlagsOk p.flags) ∧
    (∀ p c, Connect5.parse data = .ok p c → ConnFlagsOk p.flags) :=
  ⟨Connect3.parse_flags data, Connect5.parse_flags data⟩

/-- PUBLISH: the topic name of an accepted packet is valid UTF-8 without `#` / `+`; v3.1.1: non-empty -/
theorem C04_accepted_publish_topic (pw flags : Nat) (data : List Nat) :
    (∀ p c, Publish3.parse pw flags data = .ok p c → noWildcard p.topic = true ∧ p.topic ≠ [] ∧ utf8Ok p.topic = true) ∧
    (∀ p c, Publish5.parse pw flags data = .ok p c → noWildcard p.topic = true ∧ utf8Ok p.topic = true) :=
  ⟨Publish3.parse_topic pw flags data, Publish5.parse_topic pw flags data⟩

end MqttVerif.Props.C04
