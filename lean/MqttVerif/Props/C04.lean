import MqttVerif.Codec.LemmasKinds
import MqttVerif.Codec.LemmasRTAll
import MqttVerif.Codec.LemmasSize
/-!
# C04 — decoder totality; accepted input canonical and valid

Statements are about the executable impl-shaped model `MqttVerif.Codec` (tied to the Rust
parsers by the lock-step run `harness codec` ⟷ `mqttdrv`).  In the model every Rust index,
slice and `unwrap` site is explicit (`idx`, `slice`, `sliceFrom`, `vbiOf`, `usub`) and yields
`PRes.panic site` when the Rust would panic, so `≠ .panic _` is a theorem about the guards.

`vbiMax = 268435455`.  Parsers that cache a Remaining Length derived from the input length need
`body.length < vbiMax`: beyond, `VariableByteInteger::from_u32(..).unwrap()` panics in the code
and in the model alike; the framing layer (C09) never delivers such a body.
-/
namespace MqttVerif.Props.C04
open MqttVerif.Codec

/-! ## totality of the primitives — every `List Nat` -/

/-- `VariableByteInteger::decode_stream`: reads at most 4 bytes, never more than the buffer holds;
    the value is in range and its canonical encoding is not longer than what was read. -/
theorem C04_vbi_total (buf : List Nat) (v c : Nat) (h : vbiDec buf = .ok v c) :
    v ≤ vbiMax ∧ vbiSize v ≤ c ∧ c ≤ buf.length ∧ c ≤ 4 := vbiDec_ok h

/-- `MqttString::decode`: no panic; consumed = 2 + length ≤ input; the content is valid UTF-8
    (what `from_utf8_unchecked` in `as_str` relies on). -/
theorem C04_string_total (data : List Nat) :
    (∀ s, decStr data ≠ .panic s) ∧
    (∀ str c, decStr data = .ok str c → c = 2 + str.length ∧ c ≤ data.length ∧ utf8Ok str = true) :=
  ⟨(decStr_sat data).noPanic, (decStr_sat data).post⟩

theorem C04_binary_total (data : List Nat) :
    (∀ s, decBin data ≠ .panic s) ∧ (∀ b c, decBin data = .ok b c → c = 2 + b.length ∧ c ≤ data.length) :=
  ⟨(decBin_sat data).noPanic, (decBin_sat data).post⟩

theorem C04_subentry_total (data : List Nat) :
    (∀ s, SubEntry.parse data ≠ .panic s) ∧
    (∀ e c, SubEntry.parse data = .ok e c → c = e.size ∧ c ≤ data.length ∧ utf8Ok e.topic = true) :=
  ⟨(SubEntry.parse_sat data).noPanic, (SubEntry.parse_sat data).post⟩

/-- `Property::parse`: no panic; at least one byte and at most the input consumed; the property
    re-encodes to at most what was consumed (a non-minimal VBI value is canonicalised). -/
theorem C04_property_total (bytes : List Nat) :
    (∀ s, Property.parse bytes ≠ .panic s) ∧
    (∀ p c, Property.parse bytes = .ok p c → p.size ≤ c ∧ c ≤ bytes.length ∧ 1 ≤ c) :=
  ⟨(Property.parse_sat bytes).noPanic, (Property.parse_sat bytes).post⟩

/-- `Properties::parse`: no panic (in particular the `while cursor < props_end` loop never
    slices with `cursor > props_end` and the model's fuel is never exhausted). -/
theorem C04_properties_total (data : List Nat) :
    (∀ s, Props.parse data ≠ .panic s) ∧
    (∀ ps c, Props.parse data = .ok ps c →
        vbiSize ps.size + ps.size ≤ c ∧ c ≤ data.length ∧ ps.size ≤ vbiMax ∧ 1 ≤ c) :=
  ⟨(Props.parse_sat data).noPanic, (Props.parse_sat data).post⟩

/-! ## totality of the 29 packet parsers -/

/-- No parser panics: both versions, both id widths, every fixed-header byte, every body the
    framing layer can deliver. -/
theorem C04_no_panic (version pw fh : Nat) (body : List Nat) (r : PRes Packet)
    (hpw : pw = 2 ∨ pw = 4) (hl : body.length < vbiMax)
    (h : Packet.parse version pw fh body = some r) : ∀ site, r ≠ .panic site :=
  (Packet.parse_sat version pw fh body r hpw hl h).noPanic

/-- No parser claims to have consumed more than it was given. -/
theorem C04_consumed_le (version pw fh : Nat) (body : List Nat) (p : Packet) (c : Nat)
    (hpw : pw = 2 ∨ pw = 4) (hl : body.length < vbiMax)
    (h : Packet.parse version pw fh body = some (.ok p c)) : c ≤ body.length :=
  (Packet.parse_sat version pw fh body _ hpw hl h).post p c rfl

example : (2 = 2 ∨ 2 = 4) ∧ [0x00, 0x01, 0x10].length < vbiMax ∧
    Packet.parse 5 2 0x40 [0x00, 0x01, 0x10] = some (.ok (.puback5 ⟨3, 1, some 16, 0, none⟩) 3) := by decide

/-- Parsers whose cached lengths do not grow with the input are total on *every* list. -/
theorem C04_no_panic_unbounded (data : List Nat) (k : AckKind) (pw : Nat) (hpw : pw = 2 ∨ pw = 4) :
    (∀ s, Connack3.parse data ≠ .panic s) ∧ (∀ s, Ack3.parse k pw data ≠ .panic s) ∧
    (∀ s, Unsuback3.parse pw data ≠ .panic s) ∧ (∀ s, Empty.parse data ≠ .panic s) := by
  have h1 : pw + 1 ≤ vbiMax := by unfold vbiMax; omega
  have h2 : pw ≤ vbiMax := by omega
  exact ⟨(Connack3.parse_sat data).noPanic, (Ack3.parse_sat k pw data h1).noPanic,
    (Unsuback3.parse_sat pw data h2).noPanic, (Empty.parse_sat data).noPanic⟩

/-! ## accepted input: size and re-parse

Full-strength statements (false of the pinned code), witnesses proved by `decide`. -/

/-- every accepted packet reports the length of its own serialisation -/
def C04_size_eq_full : Prop :=
  ∀ version pw fh body p c, (pw = 2 ∨ pw = 4) → Packet.parse version pw fh body = some (.ok p c) →
    p.size = (p.encode pw).length

/-- re-parsing the packet's own serialisation (fixed header byte, Remaining Length skipped)
    yields the same packet and consumes the whole body -/
def reparses (version pw : Nat) (p : Packet) : Bool :=
  match frameBody (p.encode pw) with
  | some (fh', _, body') => decide (Packet.parse version pw fh' body' = some (.ok p body'.length))
  | none => false

/-- every accepted packet re-parses from its own serialisation to itself -/
def C04_reparse_full : Prop :=
  ∀ version pw fh body p c, (pw = 2 ∨ pw = 4) → Packet.parse version pw fh body = some (.ok p c) →
    reparses version pw p = true

/-- every accepted packet satisfies the structural rules of its builder -/
def C04_buildable_full : Prop :=
  ∀ version pw fh body p c, (pw = 2 ∨ pw = 4) → Packet.parse version pw fh body = some (.ok p c) →
    p.wf pw = true

/-- CONNACK v5.0 with a two-byte property length `80 00`: `remaining_length := cursor` = 4,
    `size()` = 6, five bytes serialised. -/
theorem C04_size_eq_counterexample_connack : ¬ C04_size_eq_full := by
  intro h
  have := h 5 2 0x20 [0x00, 0x00, 0x80, 0x00] (.connack5 ⟨4, 0, 0, 0, []⟩) 4 (Or.inl rfl) (by decide)
  revert this; decide

/-- SUBACK v5.0, `00 01 | 80 00 | 00` -/
theorem C04_size_eq_counterexample_suback : ¬ C04_size_eq_full := by
  intro h
  have := h 5 2 0x90 [0x00, 0x01, 0x80, 0x00, 0x00] (.suback5 ⟨5, 1, 0, [], [0]⟩) 5 (Or.inl rfl) (by decide)
  revert this; decide

/-- SUBSCRIBE v5.0 with a non-minimal Subscription Identifier `0b 81 00` -/
theorem C04_size_eq_counterexample_subscribe : ¬ C04_size_eq_full := by
  intro h
  have := h 5 2 0x82 [0x00, 0x01, 0x03, 0x0b, 0x81, 0x00, 0x00, 0x01, 0x61, 0x00]
    (.subscribe5 ⟨10, 1, 2, [.vbi 11 1], [⟨[0x61], 0⟩]⟩) 10 (Or.inl rfl) (by decide)
  revert this; decide

/-- the same CONNACK does not re-parse to itself: its serialisation announces 4 body bytes
    and carries 3 -/
theorem C04_reparse_counterexample : ¬ C04_reparse_full := by
  intro h
  have := h 5 2 0x20 [0x00, 0x00, 0x80, 0x00] (.connack5 ⟨4, 0, 0, 0, []⟩) 4 (Or.inl rfl) (by decide)
  revert this; decide

/-- SUBSCRIBE v3.1.1 with packet identifier 0 is accepted; no builder produces it. -/
theorem C04_buildable_counterexample_pid0 : ¬ C04_buildable_full := by
  intro h
  have := h 4 2 0x82 [0x00, 0x00, 0x00, 0x01, 0x61, 0x00] (.subscribe3 ⟨6, 0, [⟨[0x61], 0⟩]⟩) 6 (Or.inl rfl) (by decide)
  revert this; decide

/-- CONNECT v3.1.1 with the reserved flag bit set is accepted. -/
theorem C04_buildable_counterexample_connect_reserved : ¬ C04_buildable_full := by
  intro h
  have := h 4 2 0x10 [0, 4, 77, 81, 84, 84, 4, 1, 0, 60, 0, 0] (.connect3 ⟨12, 1, 60, [], [], [], [], []⟩) 12
    (Or.inl rfl) (by decide)
  revert this; decide

/-! ## what *is* true of accepted input

The extra hypothesis is exactly the `buildable` predicate `Packet.wf` (decidable; evaluated as
a monitor on every accepted packet of the lock-step run): an accepted packet that satisfies the
structural rules and cached-length equations of its builder reports its true size and re-parses
to itself.  The counterexamples above are precisely accepted packets violating `wf`
(`remlen` check) — on the pinned tree the parsers of CONNECT, CONNACK, SUBSCRIBE, SUBACK,
UNSUBSCRIBE, UNSUBACK v5.0 produce such packets from non-minimal variable-byte integers. -/

theorem C04_size_eq_of_wf (version pw fh : Nat) (body : List Nat) (p : Packet) (c : Nat) (hpw : pw = 2 ∨ pw = 4)
    (_h : Packet.parse version pw fh body = some (.ok p c)) (hwf : p.wf pw = true) :
    p.size = (p.encode pw).length := by
  obtain ⟨_, _, _, _, _, hs, _⟩ := Packet.roundTrips pw p hpw hwf
  exact hs

theorem version_of_parse (version pw fh : Nat) (body : List Nat) (p : Packet) (c : Nat) (hv : version = 4 ∨ version = 5)
    (h : Packet.parse version pw fh body = some (.ok p c)) : p.version = version := by
  unfold Packet.parse at h
  simp only at h
  rcases hv with hv | hv <;> subst hv
  · simp only [show ¬ (4 = 5) by decide, if_false] at h
    split at h <;> first
      | (injection h with h; obtain ⟨a, rfl⟩ := map_ok_inv h; rfl)
      | (exact absurd h (by simp))
  · simp only [if_true] at h
    split at h <;> first
      | (injection h with h; obtain ⟨a, rfl⟩ := map_ok_inv h; rfl)
      | (exact absurd h (by simp))

theorem C04_reparse_partial (version pw fh : Nat) (body : List Nat) (p : Packet) (c : Nat) (hpw : pw = 2 ∨ pw = 4)
    (hv : version = 4 ∨ version = 5)
    (h : Packet.parse version pw fh body = some (.ok p c)) (hwf : p.wf pw = true) :
    reparses version pw p = true := by
  obtain ⟨fh', body', _, hfb, hp, _, _⟩ := Packet.roundTrips pw p hpw hwf
  rw [version_of_parse version pw fh body p c hv h] at hp
  unfold reparses
  rw [hfb]
  simp only [hp, decide_true]

example : (2 = 2 ∨ 2 = 4) ∧ (5 = 4 ∨ 5 = 5) ∧
    Packet.parse 5 2 0x40 [0x00, 0x01, 0x10] = some (.ok (.puback5 ⟨3, 1, some 16, 0, none⟩) 3) ∧
    Packet.wf 2 (.puback5 ⟨3, 1, some 16, 0, none⟩) = true := by decide

/-- **`size()` of accepted input — the true partial theorem.**  For 23 of the 29 kinds (every
    kind except CONNECT, CONNACK, SUBSCRIBE, SUBACK, UNSUBSCRIBE, UNSUBACK of v5.0 — the extra
    hypothesis `sizeFromParts`), *every* accepted input, well-formed or not, yields a packet whose
    `size()` is the length of its serialisation. -/
theorem C04_size_eq_partial (version pw fh : Nat) (body : List Nat) (p : Packet) (c : Nat) (hpw : pw = 2 ∨ pw = 4)
    (h : Packet.parse version pw fh body = some (.ok p c)) (hk : p.sizeFromParts = true) :
    p.size = (p.encode pw).length := Packet.size_ok version pw fh body p c hpw h hk

example : (4 = 2 ∨ 4 = 4) ∧
    Packet.parse 5 4 0x34 [0, 1, 0x74, 0, 0, 0, 0] = some (.err .MalformedPacket) ∧
    Packet.parse 5 4 0x34 [0, 1, 0x74, 0, 1, 0, 0] = some (.ok (.publish5 ⟨0x34, 8, [0x74], some 65536, 0, [], []⟩) 7) ∧
    Packet.sizeFromParts (.publish5 ⟨0x34, 8, [0x74], some 65536, 0, [], []⟩) = true := by decide

/-- the remaining three of the six kinds excluded by `sizeFromParts` are genuinely defective -/
theorem C04_size_eq_counterexample_connect : ¬ C04_size_eq_full := by
  intro h
  have := h 5 2 0x10 [0, 4, 77, 81, 84, 84, 5, 2, 0, 60, 0x80, 0x00, 0, 1, 0x61]
    (.connect5 ⟨15, 2, 60, 0, [], [0x61], 0, [], [], [], [], []⟩) 15 (Or.inl rfl) (by decide)
  revert this; decide

theorem C04_size_eq_counterexample_unsubscribe : ¬ C04_size_eq_full := by
  intro h
  have := h 5 2 0xa2 [0x00, 0x01, 0x80, 0x00, 0x00, 0x01, 0x61] (.unsubscribe5 ⟨7, 1, 0, [], [[0x61]]⟩) 7
    (Or.inl rfl) (by decide)
  revert this; decide

theorem C04_size_eq_counterexample_unsuback : ¬ C04_size_eq_full := by
  intro h
  have := h 5 2 0xb0 [0x00, 0x01, 0x80, 0x00, 0x00] (.unsuback5 ⟨5, 1, 0, [], [0]⟩) 5 (Or.inl rfl) (by decide)
  revert this; decide

end MqttVerif.Props.C04
