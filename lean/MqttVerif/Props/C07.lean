import MqttVerif.Conn.Lemmas.Qos2Mon
/-!
# C07 — inbound QoS 2 is delivered exactly once per exchange   (agent P7)

Ghost: `notified id evs` = number of `NotifyPacketReceived` events of one call that carry a
QoS 2 PUBLISH with packet identifier `id`.

* `C07_handled_changes` — every way the set `qos2_publish_handled` changes in one API call
  (`Q2Step`): inserted only together with the one notification of that PUBLISH; deleted only by a
  received PUBREL, a sent failing PUBREC (v5.0), a new session (including the one started by a
  CONNACK sent with session present = false), a non-persistent close, or
  `restore_qos2_publish_handled`.
* `C07_at_most_once` — for every operation sequence without a deleting step for `id`, at most
  one notification for `id` (hence: between two consecutive deleting steps at most one).
* `C07_dup_answered_*`, `C07_first_is_notified_*` (= never swallowed), `C07_survives_resume`,
  `C07_restore_export`, `C07_release_*`, `C07_released_then_new_*`.

Hypothesis used where a `recv` op is quantified: `ParseOk parse` — the L1 parser invoked for a
frame with type nibble `t` returns (if anything) a packet of that type with QoS ≤ 2.  It is
necessary: the handlers notify whatever the parser hands them.
-/
namespace MqttVerif.Conn
open MqttVerif
set_option linter.unusedSimpArgs false

/-- `p` is a QoS 2 PUBLISH with packet identifier `id` -/
def isQ2 (id : Nat) (p : Pkt) : Prop := p.kind = .publish ∧ p.qos = 2 ∧ p.pid = some id
instance (id : Nat) (p : Pkt) : Decidable (isQ2 id p) := by unfold isQ2; infer_instance

/-- ghost: notifications of a QoS 2 PUBLISH `id` among the events of one call -/
def notified (id : Nat) (evs : List Ev) : Nat := (recvs evs).countP (fun p => decide (isQ2 id p))

/-- the parser returns packets of the type it was invoked for, with a legal QoS -/
def ParseOk (parse : Nat → Nat → List Nat → Except Nat Pkt) : Prop :=
  ∀ v fh d p, parse v fh d = .ok p → p.kind.nibble = fh / 16 ∧ p.qos ≤ 2

def OpWf : Op → Prop
  | .recv _ parse => ParseOk parse
  | _ => True

/-- a received packet that starts a new session -/
def NewSessionPkt (p : Pkt) : Prop :=
  (p.kind = .connect ∧ p.clean = true) ∨
  (p.kind = .connack ∧ p.rc = some 0 ∧ (p.sp = false ∨ (pSEI, 0) ∈ p.props))

/-- every way one API call can notify packets and change `handled` -/
inductive Q2Step (cfg : Cfg) (s : St) (op : Op) : Prop
  /-- nothing notified, `handled` unchanged (includes: duplicate of a handled QoS 2 PUBLISH) -/
  | quiet : recvs (step cfg s op).ev = [] → (step cfg s op).s.handled = s.handled → Q2Step cfg s op
  /-- one packet notified that is not a QoS 2 PUBLISH -/
  | other (p : Pkt) : recvs (step cfg s op).ev = [p] → ¬ (p.kind = .publish ∧ p.qos = 2) →
      (step cfg s op).s.handled = s.handled → Q2Step cfg s op
  /-- a QoS 2 PUBLISH whose id was not handled: notified once, id inserted -/
  | notify (p : Pkt) (id : Nat) : recvs (step cfg s op).ev = [p] → isQ2 id p → id ∉ s.handled →
      (step cfg s op).s.handled = ins id s.handled → Q2Step cfg s op
  /-- PUBREL received -/
  | pubrelRecv (p : Pkt) : recvs (step cfg s op).ev = [p] → p.kind = .pubrel →
      (step cfg s op).s.handled = del (p.pid.getD 0) s.handled → Q2Step cfg s op
  /-- CONNECT(clean) / CONNACK(no session) received -/
  | newSessRecv (p : Pkt) : recvs (step cfg s op).ev = [p] → NewSessionPkt p →
      (step cfg s op).s.handled = [] → Q2Step cfg s op
  /-- a failing PUBREC (v5.0, reason code ≥ 0x80) was sent -/
  | pubrecFailSent (p : Pkt) : op = .send p → recvs (step cfg s op).ev = [] → p.kind = .pubrec → p.ver ≠ 4 →
      (∃ rc, p.rc = some rc ∧ rc ≥ 0x80) → p ∈ sends (step cfg s op).ev →
      (step cfg s op).s.handled = del (p.pid.getD 0) s.handled → Q2Step cfg s op
  /-- CONNECT with clean start / clean session sent -/
  | connectCleanSent (p : Pkt) : op = .send p → recvs (step cfg s op).ev = [] → p.kind = .connect →
      p.clean = true → (step cfg s op).s.handled = [] → Q2Step cfg s op
  /-- new session started by the CONNACK we sent (fix 10ee029): CONNACK(success) with
      session present = false accepted for sending — the send-side twin of `newSessRecv` -/
  | connackNoSessionSent (p : Pkt) : op = .send p → recvs (step cfg s op).ev = [] → p.kind = .connack →
      p.rc = some 0 → p.sp = false → (step cfg s op).s.handled = [] → Q2Step cfg s op
  /-- `notify_closed` of a non-persistent session -/
  | closedNonPersistent : op = .closed → s.needStore = false → recvs (step cfg s op).ev = [] →
      (step cfg s op).s.handled = [] → Q2Step cfg s op
  /-- `restore_qos2_publish_handled` -/
  | restored (ids : List Nat) : op = .restoreHandled ids → recvs (step cfg s op).ev = [] →
      (∀ x, x ∈ (step cfg s op).s.handled ↔ x ∈ ids) → Q2Step cfg s op

theorem nibble_inj {a b : Kind} (h : a.nibble = b.nibble) : a = b := by
  cases a <;> cases b <;> simp [Kind.nibble] at h <;> rfl

theorem mem_foldl_ins (ids acc : List Nat) (x : Nat) :
    x ∈ ids.foldl (fun acc x => ins x acc) acc ↔ x ∈ ids ∨ x ∈ acc := by
  induction ids generalizing acc with
  | nil => simp
  | cons a t ih => simp [ih, mem_ins]; grind

/-- **C07 (3)**: the complete list of ways `handled` and the notifications change in one call. -/
theorem C07_handled_changes (cfg : Cfg) (s : St) (op : Op) (hwf : OpWf op) : Q2Step cfg s op := by
  cases op with
  | send p =>
    rcases send_handled { cfg := cfg, s := s } p with h | ⟨h, hk, hc⟩ | ⟨h, hk, hv, hrc, hs⟩ | ⟨h, hk, hrc, hsp⟩
    · exact .quiet (by simp [step]) h
    · exact .connectCleanSent p rfl (by simp [step]) hk hc h
    · exact .pubrecFailSent p rfl (by simp [step]) hk hv hrc hs h
    · exact .connackNoSessionSent p rfl (by simp [step]) hk hrc hsp h
  | recv inp parse =>
    obtain ⟨v, fh, d, h⟩ := recv_sum { cfg := cfg, s := s } inp parse (fun v fh d p hp => (hwf v fh d p hp).2)
    have hk : ∀ p, parse v fh d = .ok p → p.kind.nibble = fh / 16 := fun p hp => (hwf v fh d p hp).1
    cases h with
    | quiet a b => exact .quiet (by simpa [step] using a) b
    | plain p p' hx a k q b e =>
      refine .other p' (by simpa [step] using a) ?_ b
      rintro ⟨h1, h2⟩
      have := hk p hx
      rw [← k, h1] at this
      exact e this.symm (by omega)
    | pubrel p hx ht a b =>
      refine .pubrelRecv p (by simpa [step] using a) ?_ b
      have := hk p hx
      rw [ht] at this
      exact nibble_inj this
    | newSess p hx hn a b =>
      refine .newSessRecv p (by simpa [step] using a) ?_ b
      have := hk p hx
      rcases hn with ⟨ht, hc⟩ | ⟨ht, hr⟩
      · rw [ht] at this; exact .inl ⟨nibble_inj this, hc⟩
      · rw [ht] at this; exact .inr ⟨nibble_inj this, hr⟩
    | notify p p' id hx ht h2 hid ha a k q pid b =>
      refine .notify p' id (by simpa [step] using a) ⟨?_, q, pid⟩ ha b
      have := hk p hx
      rw [ht] at this
      rw [k]; exact nibble_inj this
  | timer k => exact .quiet (by simp [step]) (by simp [step])
  | closed =>
    cases hn : s.needStore
    · exact .closedNonPersistent rfl hn (by simp [step]) (by simp [step, notifyClosed_handled, hn])
    · exact .quiet (by simp [step]) (by simp [step, notifyClosed_handled, hn])
  | setInterval d => exact .quiet (by simp [step]) (by simp [step])
  | setFlag f b => exact .quiet (by simp [step]) (by cases f <;> simp [step, setFlag])
  | setRespTimeout ms => exact .quiet (by simp [step]) (by simp [step])
  | acquire => exact .quiet (by simp [step]) (by simp [step])
  | register id => exact .quiet (by simp [step]) (by simp [step])
  | release id => exact .quiet (by simp [step]) (by simp [step])
  | erase id => exact .quiet (by simp [step]) (by simp [step])
  | restoreHandled ids => exact .restored ids rfl (by simp [step]) (by simp [step, mem_foldl_ins])
  | restorePackets ps => exact .quiet (by simp [step]) (by simp [step])


/-! ## consequences of the characterisation -/

/-- a step that deletes `id` from `handled` -/
def Deletes (cfg : Cfg) (id : Nat) (s : St) (op : Op) : Prop :=
  id ∈ s.handled ∧ id ∉ (step cfg s op).s.handled

/-- `id` enters `handled` only together with the single notification of a QoS 2 PUBLISH `id`
    (or by `restore_qos2_publish_handled`). -/
theorem C07_insert_only_by_notification (cfg : Cfg) (s : St) (op : Op) (hwf : OpWf op) (id : Nat)
    (h0 : id ∉ s.handled) (h1 : id ∈ (step cfg s op).s.handled) :
    (∃ p, recvs (step cfg s op).ev = [p] ∧ isQ2 id p) ∨ (∃ ids, op = .restoreHandled ids ∧ id ∈ ids) := by
  cases C07_handled_changes cfg s op hwf with
  | quiet a b => rw [b] at h1; exact absurd h1 h0
  | other p a n b => rw [b] at h1; exact absurd h1 h0
  | notify p id' a q ha b =>
    rw [b, mem_ins] at h1
    rcases h1 with rfl | h1
    · exact .inl ⟨p, a, q⟩
    · exact absurd h1 h0
  | pubrelRecv p a k b => rw [b, mem_del] at h1; exact absurd h1.1 h0
  | newSessRecv p a n b => simp [b] at h1
  | pubrecFailSent p e a k v rc hs b => rw [b, mem_del] at h1; exact absurd h1.1 h0
  | connectCleanSent p e a k c b => simp [b] at h1
  | connackNoSessionSent p e a k rc sp b => simp [b] at h1
  | closedNonPersistent e n a b => simp [b] at h1
  | restored ids e a b => exact .inr ⟨ids, e, (b id).1 h1⟩

/-- `id` leaves `handled` only by: PUBREL(id) received; a failing PUBREC(id) sent (v5.0); a new
    session (CONNECT clean sent / received, CONNACK without session received / sent); a
    non-persistent close; `restore_qos2_publish_handled` with a list not containing it. -/
theorem C07_delete_causes (cfg : Cfg) (s : St) (op : Op) (hwf : OpWf op) (id : Nat)
    (h : Deletes cfg id s op) :
    (∃ p, recvs (step cfg s op).ev = [p] ∧ p.kind = .pubrel ∧ p.pid.getD 0 = id) ∨
    (∃ p, op = .send p ∧ p.kind = .pubrec ∧ p.ver ≠ 4 ∧ p.pid.getD 0 = id ∧ (∃ rc, p.rc = some rc ∧ rc ≥ 0x80) ∧
      p ∈ sends (step cfg s op).ev) ∨
    (∃ p, recvs (step cfg s op).ev = [p] ∧ NewSessionPkt p) ∨
    (∃ p, op = .send p ∧ p.kind = .connect ∧ p.clean = true) ∨
    (op = .closed ∧ s.needStore = false) ∨
    (∃ ids, op = .restoreHandled ids ∧ id ∉ ids) ∨
    -- new session started by the CONNACK we sent (fix 10ee029)
    (∃ p, op = .send p ∧ p.kind = .connack ∧ p.rc = some 0 ∧ p.sp = false) := by
  obtain ⟨h0, h1⟩ := h
  cases C07_handled_changes cfg s op hwf with
  | quiet a b => rw [b] at h1; exact absurd h0 h1
  | other p a n b => rw [b] at h1; exact absurd h0 h1
  | notify p id' a q ha b => rw [b, mem_ins] at h1; exact absurd (.inr h0) h1
  | pubrelRecv p a k b =>
    rw [b, mem_del] at h1
    exact .inl ⟨p, a, k, by grind⟩
  | newSessRecv p a n b => exact .inr (.inr (.inl ⟨p, a, n⟩))
  | pubrecFailSent p e a k v rc hs b =>
    rw [b, mem_del] at h1
    exact .inr (.inl ⟨p, e, k, v, by grind, rc, hs⟩)
  | connectCleanSent p e a k c b => exact .inr (.inr (.inr (.inl ⟨p, e, k, c⟩)))
  | closedNonPersistent e n a b => exact .inr (.inr (.inr (.inr (.inl ⟨e, n⟩))))
  | restored ids e a b => exact .inr (.inr (.inr (.inr (.inr (.inl ⟨ids, e, fun hm => h1 ((b id).2 hm)⟩)))))
  | connackNoSessionSent p e a k rc sp b => exact .inr (.inr (.inr (.inr (.inr (.inr ⟨p, e, k, rc, sp⟩)))))

/-- per call: at most one notification for `id`, and only when `id` was not handled; afterwards
    it is. -/
theorem C07_step_notified (cfg : Cfg) (s : St) (op : Op) (hwf : OpWf op) (id : Nat) :
    notified id (step cfg s op).ev ≤ 1 ∧
    (notified id (step cfg s op).ev = 1 → id ∉ s.handled ∧ id ∈ (step cfg s op).s.handled) := by
  unfold notified
  cases C07_handled_changes cfg s op hwf with
  | quiet a b => simp [a]
  | other p a n b =>
    have : ¬ isQ2 id p := fun h => n ⟨h.1, h.2.1⟩
    simp [a, this]
  | notify p id' a q ha b =>
    rw [a]
    by_cases hq : isQ2 id p
    · have : id = id' := by
        have h1 := hq.2.2; have h2 := q.2.2; rw [h1] at h2; exact Option.some.inj h2
      subst this
      simp [hq, ha, b, mem_ins]
    · simp [hq]
  | pubrelRecv p a k b =>
    have : ¬ isQ2 id p := fun h => by have := h.1; rw [k] at this; cases this
    simp [a, this]
  | newSessRecv p a n b =>
    have : ¬ isQ2 id p := fun h => by
      rcases n with ⟨k, _⟩ | ⟨k, _⟩ <;> (have := h.1; rw [k] at this; cases this)
    simp [a, this]
  | pubrecFailSent p e a k v rc hs b => simp [a]
  | connectCleanSent p e a k c b => simp [a]
  | connackNoSessionSent p e a k rc sp b => simp [a]
  | closedNonPersistent e n a b => simp [a]
  | restored ids e a b => simp [a]

/-- no step of the sequence deletes `id` from `handled` -/
def NoDelete (cfg : Cfg) (id : Nat) : St → List Op → Prop
  | _, [] => True
  | s, op :: ops => ¬ Deletes cfg id s op ∧ NoDelete cfg id (step cfg s op).s ops

/-- ghost: notifications of QoS 2 PUBLISH `id` along a sequence of calls -/
def notifiedRun (cfg : Cfg) (id : Nat) (s : St) (ops : List Op) : Nat :=
  ((runEvents cfg s ops).map (notified id)).sum

theorem at_most_once_aux (cfg : Cfg) (id : Nat) (ops : List Op) :
    ∀ s, (∀ op ∈ ops, OpWf op) → NoDelete cfg id s ops →
      notifiedRun cfg id s ops ≤ 1 ∧
      (id ∈ s.handled → notifiedRun cfg id s ops = 0 ∧ id ∈ (run cfg s ops).handled) ∧
      (notifiedRun cfg id s ops = 1 → id ∈ (run cfg s ops).handled) := by
  induction ops with
  | nil => intro s _ _; simp [notifiedRun, runEvents, run]
  | cons op rest ih =>
    intro s hwf hnd
    obtain ⟨hd, hnd'⟩ := hnd
    have hop := hwf op (by simp)
    obtain ⟨ih1, ih2, ih3⟩ := ih (step cfg s op).s (fun o ho => hwf o (by simp [ho])) hnd'
    obtain ⟨s1, s2⟩ := C07_step_notified cfg s op hop id
    have hsum : notifiedRun cfg id s (op :: rest) =
        notified id (step cfg s op).ev + notifiedRun cfg id (step cfg s op).s rest := by
      simp [notifiedRun, runEvents]
    simp only [hsum, run]
    unfold Deletes at hd
    refine ⟨?_, ?_, ?_⟩
    · by_cases h1 : notified id (step cfg s op).ev = 1
      · have := (ih2 (s2 h1).2).1; omega
      · omega
    · intro hin
      have h0 : notified id (step cfg s op).ev = 0 := by
        by_cases h1 : notified id (step cfg s op).ev = 1
        · exact absurd hin (s2 h1).1
        · omega
      have hin' : id ∈ (step cfg s op).s.handled := by
        by_cases hh : id ∈ (step cfg s op).s.handled
        · exact hh
        · exact absurd ⟨hin, hh⟩ hd
      have := ih2 hin'
      exact ⟨by omega, this.2⟩
    · intro htot
      by_cases h1 : notified id (step cfg s op).ev = 1
      · exact (ih2 (s2 h1).2).2
      · exact ih3 (by omega)

/-- **C07 (at most once)**: along every operation sequence, started in every state, in which no
    step deletes `id` from `handled` — i.e. between two consecutive deleting steps
    (`C07_delete_causes`: PUBREL received, failing PUBREC sent, new session, non-persistent close,
    restore), or from the start — the application is notified of at most one QoS 2 PUBLISH with
    that identifier; and if it was, the identifier is handled at the end. -/
theorem C07_at_most_once (cfg : Cfg) (id : Nat) (s : St) (ops : List Op)
    (hwf : ∀ op ∈ ops, OpWf op) (hnd : NoDelete cfg id s ops) :
    notifiedRun cfg id s ops ≤ 1 ∧ (notifiedRun cfg id s ops = 1 → id ∈ (run cfg s ops).handled) :=
  ⟨(at_most_once_aux cfg id ops s hwf hnd).1, (at_most_once_aux cfg id ops s hwf hnd).2.2⟩

/-- the same, for a segment anywhere inside a history that starts from a fresh connection object -/
theorem C07_at_most_once_between (cfg : Cfg) (ver id : Nat) (pre seg : List Op)
    (hwf : ∀ op ∈ seg, OpWf op)
    (hnd : NoDelete cfg id (run cfg (St.init cfg ver) pre) seg) :
    notifiedRun cfg id (run cfg (St.init cfg ver) pre) seg ≤ 1 :=
  (C07_at_most_once cfg id _ seg hwf hnd).1

/-- once `id` is handled, nothing is notified for it until a deleting step -/
theorem C07_handled_blocks (cfg : Cfg) (id : Nat) (s : St) (ops : List Op)
    (hwf : ∀ op ∈ ops, OpWf op) (hnd : NoDelete cfg id s ops) (h : id ∈ s.handled) :
    notifiedRun cfg id s ops = 0 :=
  ((at_most_once_aux cfg id ops s hwf hnd).2.1 h).1


/-! ## the ghost of the driver (`Mon.q2Step`) tracks `qos2_publish_handled` exactly -/

/-- what the monitor's reading of the events presupposes of the packets handed in (all hold for
    real packets): the parser answers with the packet type of the frame and a legal QoS; the store
    holds no PUBREC (it holds PUBLISH / PUBREL only: C05's `StoreInv`); a v3.1.1 PUBREC handed to
    `send` carries no error reason code (v3.1.1 PUBREC has none); a delivered CONNACK has at most
    one Session Expiry Interval property -/
structure MonWf (cfg : Cfg) (s : St) (op : Op) : Prop where
  parse : OpWf op
  store : EPn.StoreNoPubrec s
  v4 : ∀ p, op = .send p → p.kind = .pubrec → p.ver = 4 → Mon.isErrorRc p.rc = false
  sei : ∀ p, Ev.recv p ∈ (step cfg s op).ev → (pSEI, 0) ∈ p.props → Mon.findProp p pSEI = some 0

theorem startsNewSession_of_recv {l : List Ev} {p : Pkt} (hm : Ev.recv p ∈ l)
    (h : (p.kind = .connect ∧ p.clean = true) ∨
      (p.kind = .connack ∧ p.rc = some 0 ∧ (p.sp = false ∨ Mon.findProp p pSEI = some 0))) :
    Mon.startsNewSession l = true := by
  simp only [Mon.startsNewSession, List.any_eq_true]
  refine ⟨_, hm, ?_⟩
  rcases h with ⟨a, b⟩ | ⟨a, b, d⟩
  · simp [a, b]
  · rcases d with d | d <;> simp [a, b, d]

/-- **the QoS 2 monitor is a theorem of the model** (driver monitors `VIOL sig=C07 notified_twice@…`
    and the ghost `q2open` they run on).  If the ghost list `o` is duplicate-free and equals, as a
    set, `qos2_publish_handled` before the call (`Tracks`), and the call neither starts a new
    session (as seen by the monitor in its events), nor is a non-persistent `notify_closed`, nor
    `restore_qos2_publish_handled` (the three cases in which the driver resets its ghost instead),
    then folding the events of the call over the ghost reports **no second notification**
    (`(Mon.q2Step o evs).2 = []`) and the new ghost again tracks `qos2_publish_handled` exactly.
    Every configuration, state and operation. -/
theorem C07_monitor_sound (cfg : Cfg) (s : St) (op : Op) (o : List Nat) (hw : MonWf cfg s op)
    (ht : Tracks o s.handled)
    (hns : Mon.startsNewSession (step cfg s op).ev = false)
    (hcl : ¬ (op = .closed ∧ s.needStore = false)) (hrs : ∀ ids, op ≠ .restoreHandled ids) :
    (Mon.q2Step o (step cfg s op).ev).2 = [] ∧
    Tracks (Mon.q2Step o (step cfg s op).ev).1 (step cfg s op).s.handled := by
  -- a call that is not the `send` of an error PUBREC requests no error PUBREC
  have hq : (∀ p, op = .send p → EPn.nsSend p = false) → recvs (step cfg s op).ev = [] →
      Mon.q2Step o (step cfg s op).ev = (o, []) := fun h1 h2 =>
    q2Step_quiet o _ (EPn.ns_step cfg s op hw.store h1) h2
  have same : Mon.q2Step o (step cfg s op).ev = (o, []) → (step cfg s op).s.handled = s.handled →
      (Mon.q2Step o (step cfg s op).ev).2 = [] ∧
      Tracks (Mon.q2Step o (step cfg s op).ev).1 (step cfg s op).s.handled := fun h1 h2 => by
    rw [h1]; exact ⟨rfl, ht.congr h2⟩
  cases op with
  | send p =>
    by_cases he : p.kind = .pubrec ∧ Mon.isErrorRc p.rc = true
    · have hv : p.ver ≠ 4 := fun h4 => by have := hw.v4 p rfl he.1 h4; rw [he.2] at this; cases this
      rcases send_errPubrec { cfg := cfg, s := s } p o rfl he.1 he.2 hv with ⟨h1, h2⟩ | ⟨h1, h2⟩
      · exact same h1 h2
      · show (Mon.q2Step o (send _ p).ev).2 = [] ∧ Tracks (Mon.q2Step o (send _ p).ev).1 (send _ p).s.handled
        rw [h1, h2]; exact ⟨rfl, ht.erase _⟩
    · have hns' : EPn.nsSend p = false := by
        cases hh : EPn.nsSend p with
        | false => rfl
        | true =>
          simp only [EPn.nsSend, Bool.and_eq_true, decide_eq_true_eq] at hh
          exact absurd hh he
      have h1 := hq (fun q hq' => by cases hq'; exact hns') (by simp [step])
      rcases send_handled_ns { cfg := cfg, s := s } p with h | h | ⟨hk, _, rc, hrc, hge⟩
      · exact same h1 h
      · have : Mon.startsNewSession (step cfg s (.send p)).ev = true := h
        rw [this] at hns; cases hns
      · exact absurd ⟨hk, by simp [Mon.isErrorRc, hrc, hge]⟩ he
  | recv inp parse =>
    have hn : EPn.nsOf (step cfg s (.recv inp parse)).ev = [] :=
      EPn.ns_step cfg s _ hw.store (fun q hq' => by cases hq')
    have hfold := q2Step_no_send _ hn o
    have hc := recv_cls { cfg := cfg, s := s } inp parse hw.parse
    have hev : (step cfg s (.recv inp parse)).ev = (recv { cfg := cfg, s := s } inp parse).1.ev := rfl
    have hs : (step cfg s (.recv inp parse)).s = (recv { cfg := cfg, s := s } inp parse).1.s := rfl
    rw [hfold, hev, hs]
    cases hc with
    | quiet a b =>
      simp only [recvs_nil, List.append_nil] at a
      rw [a, b]; exact ⟨rfl, ht⟩
    | other p a k n b =>
      simp only [recvs_nil, List.nil_append] at a
      rw [a, b]
      simp only [List.map_cons, List.map_nil, q2Step_recv_other o p n k]
      exact ⟨trivial, ht⟩
    | pubrel p a k b =>
      simp only [recvs_nil, List.nil_append] at a
      rw [a, b]
      simp only [List.map_cons, List.map_nil, q2Step_recv_pubrel o p k]
      exact ⟨trivial, ht.erase _⟩
    | newSess p a n b =>
      exfalso
      simp only [recvs_nil, List.nil_append] at a
      have hm : Ev.recv p ∈ (step cfg s (.recv inp parse)).ev := by
        rw [hev]; exact mem_recvs.1 (by rw [a]; simp)
      have := startsNewSession_of_recv hm (by
        rcases n with n | ⟨n1, n2, n3⟩
        · exact .inl n
        · refine .inr ⟨n1, n2, ?_⟩
          rcases n3 with n3 | n3
          · exact .inl n3
          · exact .inr (hw.sei p hm n3))
      rw [this] at hns; cases hns
    | notify p id a k q pid ha b =>
      simp only [recvs_nil, List.nil_append] at a
      rw [a, b]
      have hno : id ∉ o := fun hm => ha ((ht.2 id).1 hm)
      simp only [List.map_cons, List.map_nil, q2Step_recv_new o p id k q pid hno]
      exact ⟨trivial, ht.insert ha⟩
  | timer k => exact same (hq (fun _ h => by cases h) (by simp [step])) (by simp [step])
  | closed =>
    cases hn : s.needStore
    · exact absurd ⟨rfl, hn⟩ hcl
    · exact same (hq (fun _ h => by cases h) (by simp [step])) (by simp [step, notifyClosed_handled, hn])
  | setInterval d => exact same (hq (fun _ h => by cases h) (by simp [step])) (by simp [step])
  | setFlag f b => exact same (hq (fun _ h => by cases h) (by simp [step])) (by cases f <;> simp [step, setFlag])
  | setRespTimeout ms => exact same (hq (fun _ h => by cases h) (by simp [step])) (by simp [step])
  | acquire => exact same (hq (fun _ h => by cases h) (by simp [step])) (by simp [step])
  | register id => exact same (hq (fun _ h => by cases h) (by simp [step])) (by simp [step])
  | release id => exact same (hq (fun _ h => by cases h) (by simp [step])) (by simp [step])
  | erase id => exact same (hq (fun _ h => by cases h) (by simp [step])) (by simp [step])
  | restoreHandled ids => exact absurd rfl (hrs ids)
  | restorePackets ps => exact same (hq (fun _ h => by cases h) (by simp [step])) (by simp [step])

/-! ## one call: duplicate answered, first copy notified -/

/-- **C07 (1), v3.1.1**: a received QoS 2 PUBLISH whose identifier is handled produces no
    notification; while connected the PUBREC for that identifier is sent (and nothing else);
    `handled` is unchanged.
    Known finding kept open (KNOWN_FINDINGS.txt, `qos2_duplicate_while_not_connected_swallowed`):
    when NOT connected such a duplicate produces no send and no error either (last conjunct). -/
theorem C07_dup_answered_v3 {cfg : Cfg} {s : St} {inp : List Nat} {pb' : Framing.PB} {fh : Nat} {data : List Nat}
    (parse : Nat → Nat → List Nat → Except Nat Pkt) {p : Pkt} {id : Nat}
    (h : Delivers cfg s inp pb' fh data) (ht : fh / 16 = 3) (hv : s.ver = 4)
    (hp : parse 4 fh data = .ok p) (hq : p.qos = 2) (hid : p.pid = some id) (hh : id ∈ s.handled) :
    recvs (step cfg s (.recv inp parse)).ev = [] ∧
    (step cfg s (.recv inp parse)).s.handled = s.handled ∧
    (s.status = .connected →
      sends (step cfg s (.recv inp parse)).ev = [mkAck cfg 4 .pubrec id] ∧ errs (step cfg s (.recv inp parse)).ev = []) ∧
    (s.status ≠ .connected →
      sends (step cfg s (.recv inp parse)).ev = [] ∧ errs (step cfg s (.recv inp parse)).ev = []) := by
  rw [step_recv_of_delivers h, ht]
  simp only [dispatchRecv, hv, hp, if_true, prV3Publish]
  by_cases hs : s.status = .connected <;>
    simp [hq, hid, hh, hs, ins, psV3Simple_sends, psV3Simple_errs, apply_ite C.s, apply_ite C.ev, apply_ite C.cfg,
      apply_ite St.handled, apply_ite St.status, apply_ite recvs, apply_ite sends, apply_ite errs, C.setPanic]

/-- **C07 (2), v3.1.1** (`first_is_notified` = `never_swallowed`): with the identifier not handled,
    exactly one notification, carrying that packet, and the identifier is handled afterwards. -/
theorem C07_first_is_notified_v3 {cfg : Cfg} {s : St} {inp : List Nat} {pb' : Framing.PB} {fh : Nat} {data : List Nat}
    (parse : Nat → Nat → List Nat → Except Nat Pkt) {p : Pkt} {id : Nat}
    (h : Delivers cfg s inp pb' fh data) (ht : fh / 16 = 3) (hv : s.ver = 4)
    (hp : parse 4 fh data = .ok p) (hq : p.qos = 2) (hid : p.pid = some id) (hh : id ∉ s.handled) :
    recvs (step cfg s (.recv inp parse)).ev = [p] ∧
    (step cfg s (.recv inp parse)).s.handled = ins id s.handled ∧
    id ∈ (step cfg s (.recv inp parse)).s.handled := by
  rw [step_recv_of_delivers h, ht]
  simp only [dispatchRecv, hv, hp, if_true, prV3Publish]
  simp [hq, hid, hh, mem_ins, apply_ite C.s, apply_ite C.ev, apply_ite St.handled, apply_ite recvs, C.setPanic]

/-- the hypotheses "passes the alias stage and Receive Maximum" for a v5.0 PUBLISH: `p'` is the
    packet that leaves the alias stage (`prV5PublishAlias_some`: `p` itself, or `p` with the
    topic looked up in the alias table) -/
structure PassesV5 (cfg : Cfg) (s : St) (pb' : Framing.PB) (p p' : Pkt) : Prop where
  alias : (prV5PublishAlias { cfg := cfg, s := { s with pb := pb' } } p).2 = some p'
  rm : ∀ m, s.recvMax = some m → s.publishRecv.length < m

theorem prV5Publish_passes {cfg : Cfg} {s : St} {pb' : Framing.PB} {p p' : Pkt} {id : Nat}
    (hpass : PassesV5 cfg s pb' p p') (hid : p.pid = some id) :
    ∃ c1 : C, c1.cfg = cfg ∧ c1.ev = [] ∧ c1.s.handled = s.handled ∧ c1.s.status = s.status ∧
      c1.s.mpsSend = s.mpsSend ∧ c1.s.autoPub = s.autoPub ∧
      prV5Publish { cfg := cfg, s := { s with pb := pb' } } (.ok p) = prV5PublishMain c1 p p' := by
  obtain ⟨ha, hrm⟩ := hpass
  refine ⟨(prV5PublishAlias { cfg := cfg, s := { s with pb := pb' } } p).1, ?_⟩
  have hst := prV5PublishAlias_some_state ha
  have hrm' : rmExceeded (prV5PublishAlias { cfg := cfg, s := { s with pb := pb' } } p).1 = false := by
    rcases hst with e | ⟨t', e⟩ <;> rw [e] <;> simp only [rmExceeded] <;> cases hm : s.recvMax <;> simp
    · have := hrm _ hm; omega
    · have := hrm _ hm; omega
  rw [prV5Publish_ok, ha]
  simp only [hrm', hid]
  refine ⟨?_, ?_, ?_, ?_, ?_, ?_, ?_⟩
  · rcases hst with e | ⟨t', e⟩ <;> rw [e]
  · rcases hst with e | ⟨t', e⟩ <;> rw [e]
  · rcases hst with e | ⟨t', e⟩ <;> rw [e]
  · rcases hst with e | ⟨t', e⟩ <;> rw [e]
  · rcases hst with e | ⟨t', e⟩ <;> rw [e]
  · rcases hst with e | ⟨t', e⟩ <;> rw [e]
  · simp

/-- **C07 (1), v5.0**: duplicate of a handled QoS 2 PUBLISH: no notification, `handled` unchanged,
    PUBREC sent while connected (provided the peer's Maximum Packet Size admits a PUBREC), nothing
    sent while not connected (the known finding, see the v3.1.1 theorem). -/
theorem C07_dup_answered_v5 {cfg : Cfg} {s : St} {inp : List Nat} {pb' : Framing.PB} {fh : Nat} {data : List Nat}
    (parse : Nat → Nat → List Nat → Except Nat Pkt) {p p' : Pkt} {id : Nat}
    (h : Delivers cfg s inp pb' fh data) (ht : fh / 16 = 3) (hv : s.ver = 5)
    (hp : parse 5 fh data = .ok p) (hpass : PassesV5 cfg s pb' p p')
    (hq : p.qos = 2) (hid : p.pid = some id) (hh : id ∈ s.handled) :
    recvs (step cfg s (.recv inp parse)).ev = [] ∧
    (step cfg s (.recv inp parse)).s.handled = s.handled ∧
    (s.status = .connected → 2 + cfg.pw ≤ s.mpsSend →
      sends (step cfg s (.recv inp parse)).ev = [mkAck cfg 5 .pubrec id] ∧ errs (step cfg s (.recv inp parse)).ev = []) ∧
    (s.status ≠ .connected →
      sends (step cfg s (.recv inp parse)).ev = [] ∧ errs (step cfg s (.recv inp parse)).ev = []) := by
  rw [step_recv_of_delivers h, ht]
  obtain ⟨c1, e1, e2, e3, e4, e5, e6, e7⟩ := prV5Publish_passes hpass hid
  have e : dispatchRecv { cfg := cfg, s := { s with pb := pb' } } 3 (parse s.ver fh data) =
      prV5Publish { cfg := cfg, s := { s with pb := pb' } } (.ok p) := by simp [dispatchRecv, hv, hp]
  rw [e, e7]
  refine ⟨?_, ?_, ?_, ?_⟩
  · simp [prV5PublishMain, hq, hid, hh, e2, e3]
  · simp [prV5PublishMain, hq, hid, hh, e3, ins]
  · intro hs hsz
    simp [prV5PublishMain, prV5PublishAcks, hq, hid, hh, e1, e2, e3, e4, hs, ins, psV5Pubrec_sends, psV5Pubrec_errs,
      apply_ite C.s, apply_ite C.ev, apply_ite C.cfg, apply_ite St.mpsSend, apply_ite St.status, apply_ite Cfg.pw,
      apply_ite sends, apply_ite errs, C.setPanic, sizeOk, Pkt.sz, mkAck, e5]
    omega
  · intro hs
    simp [prV5PublishMain, prV5PublishAcks, hq, hid, hh, e1, e2, e3, e4, hs, ins]

/-- **C07 (2), v5.0**: first copy: exactly one notification — the packet that left the alias stage
    (topic resolved through the alias table when it came aliased) — and the id is handled. -/
theorem C07_first_is_notified_v5 {cfg : Cfg} {s : St} {inp : List Nat} {pb' : Framing.PB} {fh : Nat} {data : List Nat}
    (parse : Nat → Nat → List Nat → Except Nat Pkt) {p p' : Pkt} {id : Nat}
    (h : Delivers cfg s inp pb' fh data) (ht : fh / 16 = 3) (hv : s.ver = 5)
    (hp : parse 5 fh data = .ok p) (hpass : PassesV5 cfg s pb' p p')
    (hq : p.qos = 2) (hid : p.pid = some id) (hh : id ∉ s.handled) :
    recvs (step cfg s (.recv inp parse)).ev = [p'] ∧
    (step cfg s (.recv inp parse)).s.handled = ins id s.handled ∧
    id ∈ (step cfg s (.recv inp parse)).s.handled ∧
    (p' = p ∨ (p.topic = [] ∧ ∃ a t topic, p.alias = some a ∧ s.tar = some t ∧ t.get a = some topic ∧
      p' = { p with topic := topic, extracted := true })) := by
  rw [step_recv_of_delivers h, ht]
  obtain ⟨c1, e1, e2, e3, e4, e5, e6, e7⟩ := prV5Publish_passes hpass hid
  have e : dispatchRecv { cfg := cfg, s := { s with pb := pb' } } 3 (parse s.ver fh data) =
      prV5Publish { cfg := cfg, s := { s with pb := pb' } } (.ok p) := by simp [dispatchRecv, hv, hp]
  rw [e, e7]
  refine ⟨?_, ?_, ?_, prV5PublishAlias_some hpass.alias⟩
  · simp [prV5PublishMain, hq, hid, hh, e2, e3]
  · simp [prV5PublishMain, hq, hid, hh, e3]
  · simp [prV5PublishMain, hq, hid, hh, e3, mem_ins]


/-! ## never swallowed, in the shape of the driver's monitor -/

theorem hasError_handleV5Error (c : C) (e : Nat) : Mon.hasError (handleV5Error c e).ev = true := by
  simp [handleV5Error, Mon.hasError, C.err, C.push]

theorem prV5PublishAlias_none_err (c : C) (p : Pkt) (h : (prV5PublishAlias c p).2 = none) :
    Mon.hasError (prV5PublishAlias c p).1.ev = true := by
  simp only [prV5PublishAlias] at h ⊢
  repeat' split at h
  all_goals first | (simp at h; done) | skip
  all_goals simp_all [hasError_handleV5Error]

/-- **C07, never swallowed** (driver monitor `VIOL sig=C07 swallowed@<site>`): a complete, receivable
    frame carrying a valid QoS 2 PUBLISH whose identifier is not handled, processed without any error
    event, IS notified to the application (a `NotifyPacketReceived` with a PUBLISH of that
    identifier) — on v3.1.1 always, on v5.0 because the only ways not to notify it (Topic Alias
    invalid, Receive Maximum exceeded) report an error.  The monitor additionally requires the
    connection to be established; the model needs no such condition. -/
theorem C07_monitor_not_swallowed {cfg : Cfg} {s : St} {inp : List Nat} {pb' : Framing.PB} {fh : Nat} {data : List Nat}
    (parse : Nat → Nat → List Nat → Except Nat Pkt) {p : Pkt} {id : Nat}
    (h : Delivers cfg s inp pb' fh data) (ht : fh / 16 = 3) (hv : s.ver = 4 ∨ s.ver = 5)
    (hp : parse s.ver fh data = .ok p) (hk : p.kind = .publish) (hq : p.qos = 2) (hid : p.pid = some id)
    (hh : id ∉ s.handled) (hne : Mon.hasError (step cfg s (.recv inp parse)).ev = false) :
    ∃ q, Ev.recv q ∈ (step cfg s (.recv inp parse)).ev ∧ q.kind = .publish ∧ q.pid = some id := by
  rcases hv with hv | hv
  · have := (C07_first_is_notified_v3 parse h ht hv (hv ▸ hp) hq hid hh).1
    exact ⟨p, mem_recvs.1 (by rw [this]; simp), hk, hid⟩
  · -- v5.0: no error event means the alias stage and the Receive Maximum test were passed
    have hp5 : parse 5 fh data = .ok p := hv ▸ hp
    have e : step cfg s (.recv inp parse) = prV5Publish { cfg := cfg, s := { s with pb := pb' } } (.ok p) := by
      rw [step_recv_of_delivers h, ht]; simp [dispatchRecv, hv, hp5]
    cases hal : (prV5PublishAlias { cfg := cfg, s := { s with pb := pb' } } p).2 with
    | none =>
      exfalso
      rw [e, prV5Publish_ok, hal] at hne
      rw [prV5PublishAlias_none_err _ _ hal] at hne
      cases hne
    | some p' =>
      have passes : (∀ m, s.recvMax = some m → s.publishRecv.length < m) →
          ∃ q, Ev.recv q ∈ (step cfg s (.recv inp parse)).ev ∧ q.kind = .publish ∧ q.pid = some id := by
        intro hrm
        obtain ⟨r1, _, _, r4⟩ := C07_first_is_notified_v5 parse h ht hv hp5 ⟨hal, hrm⟩ hq hid hh
        obtain ⟨k1, _, k3⟩ := prV5PublishAlias_some_fields hal
        exact ⟨p', mem_recvs.1 (by rw [r1]; simp), k1.trans hk, k3.trans hid⟩
      rcases Option.eq_none_or_eq_some s.recvMax with hmx | ⟨m, hmx⟩
      · exact passes (fun m hm => by rw [hmx] at hm; cases hm)
      · by_cases hlt : s.publishRecv.length < m
        · exact passes (fun m' hm => by rw [hmx] at hm; cases hm; exact hlt)
        · exfalso
          have hpid : ¬ (p.qos > 0 ∧ p.pid.isNone = true) := by simp [hid]
          have hex : p.qos > 0 ∧
              rmExceeded (prV5PublishAlias { cfg := cfg, s := { s with pb := pb' } } p).1 = true := by
            refine ⟨by omega, ?_⟩
            have hst : (prV5PublishAlias { cfg := cfg, s := { s with pb := pb' } } p).1.s.recvMax = s.recvMax ∧
                (prV5PublishAlias { cfg := cfg, s := { s with pb := pb' } } p).1.s.publishRecv = s.publishRecv := by
              rcases prV5PublishAlias_some_state hal with h1 | ⟨t', h1⟩ <;> rw [h1] <;> exact ⟨rfl, rfl⟩
            unfold rmExceeded
            rw [hst.1, hst.2, hmx]
            exact decide_eq_true (Nat.le_of_not_lt hlt)
          rw [e, prV5Publish_ok, hal] at hne
          simp only [] at hne
          rw [if_neg hpid, if_pos hex, hasError_handleV5Error] at hne
          cases hne

/-! ## (4) persistence across resume / export-restore; release makes the id new again -/

/-- `notify_closed` of a persistent session leaves `handled` unchanged -/
theorem C07_survives_resume (cfg : Cfg) (s : St) (h : s.needStore = true) :
    (step cfg s .closed).s.handled = s.handled := by
  simp [step, notifyClosed_handled, h]

/-- … and a non-persistent one empties it -/
theorem C07_close_non_persistent (cfg : Cfg) (s : St) (h : s.needStore = false) :
    (step cfg s .closed).s.handled = [] := by
  simp [step, notifyClosed_handled, h]

/-- `restore_qos2_publish_handled(get_qos2_publish_handled())` on any (e.g. a fresh) object
    reproduces the exported set -/
theorem C07_restore_export (cfg : Cfg) (s0 s : St) (x : Nat) :
    x ∈ (step cfg s0 (.restoreHandled s.handled)).s.handled ↔ x ∈ s.handled := by
  simp [step, mem_foldl_ins]

/-- a received PUBREL(id) releases the identifier (both versions) -/
theorem C07_release_by_pubrel {cfg : Cfg} {s : St} {inp : List Nat} {pb' : Framing.PB} {fh : Nat} {data : List Nat}
    (parse : Nat → Nat → List Nat → Except Nat Pkt) {p : Pkt}
    (h : Delivers cfg s inp pb' fh data) (ht : fh / 16 = 6) (hp : parse s.ver fh data = .ok p) :
    (step cfg s (.recv inp parse)).s.handled = del (p.pid.getD 0) s.handled ∧
    p.pid.getD 0 ∉ (step cfg s (.recv inp parse)).s.handled := by
  rw [step_recv_of_delivers h, ht]
  simp only [dispatchRecv, hp, prPubrel]
  simp [mem_del, apply_ite C.s, apply_ite St.handled]

/-- an accepted failing PUBREC (v5.0, reason code ≥ 0x80) releases the identifier -/
theorem C07_release_by_failing_pubrec (cfg : Cfg) (s : St) (p : Pkt) (rc : Nat)
    (hk : p.kind = .pubrec) (hv : p.ver = 5) (hsv : s.ver = 5) (hrc : p.rc = some rc) (hge : rc ≥ 0x80)
    (hsz : p.sz cfg.pw ≤ s.mpsSend) (hst : s.status = .connected) :
    (step cfg s (.send p)).s.handled = del (p.pid.getD 0) s.handled ∧
    p.pid.getD 0 ∉ (step cfg s (.send p)).s.handled := by
  have hs : sizeOk { cfg := cfg, s := s } p = true := by simp [sizeOk]; omega
  have : (step cfg s (.send p)).s.handled = del (p.pid.getD 0) s.handled := by
    simp only [step, send, processSend, hk, hv, hsv, roleMaySend]
    simp [psV5Pubrec_handled_eq, hs, hst, hrc, hge]
  rw [this]; simp [mem_del]

/-- a new session (CONNECT with clean start accepted for sending) empties `handled` -/
theorem C07_release_by_new_session (cfg : Cfg) (s : St) (p : Pkt)
    (hk : p.kind = .connect) (hv : p.ver = s.ver) (hrole : cfg.role ≠ .server) (hc : p.clean = true)
    (hst : s.status = .disconnected) (hsz : p.ver = 4 ∨ p.sz cfg.pw ≤ s.mpsSend) :
    (step cfg s (.send p)).s.handled = [] := by
  have hr : roleMaySend cfg.role p = true := by
    cases h : cfg.role <;> simp_all [roleMaySend]
  simp only [step, send, processSend, hk, hv, hr]
  by_cases h4 : p.ver = 4
  · simp [h4, ← hv, psV3Connect_handled, hst, hc]
  · have hs : sizeOk { cfg := cfg, s := s } p = true := by
      rcases hsz with h | h
      · exact absurd h h4
      · simp [sizeOk]; omega
    simp [h4, ← hv, psV5Connect_handled, hst, hc, hs]

/-- **released_then_new** (v3.1.1): after PUBREL(id) has been received, the next QoS 2 PUBLISH
    with that identifier is notified — whatever the state before. -/
theorem C07_released_then_new_v3 {cfg : Cfg} {s : St} {inp1 inp2 : List Nat} {pb1 pb2 : Framing.PB}
    {fh1 fh2 : Nat} {d1 d2 : List Nat} (parse1 parse2 : Nat → Nat → List Nat → Except Nat Pkt) {r p : Pkt} {id : Nat}
    (h1 : Delivers cfg s inp1 pb1 fh1 d1) (ht1 : fh1 / 16 = 6) (hr : parse1 s.ver fh1 d1 = .ok r)
    (hrid : r.pid.getD 0 = id)
    (h2 : Delivers cfg (step cfg s (.recv inp1 parse1)).s inp2 pb2 fh2 d2) (ht2 : fh2 / 16 = 3)
    (hv : (step cfg s (.recv inp1 parse1)).s.ver = 4)
    (hp : parse2 4 fh2 d2 = .ok p) (hq : p.qos = 2) (hid : p.pid = some id) :
    recvs (step cfg (step cfg s (.recv inp1 parse1)).s (.recv inp2 parse2)).ev = [p] :=
  (C07_first_is_notified_v3 parse2 h2 ht2 hv hp hq hid (hrid ▸ (C07_release_by_pubrel parse1 h1 ht1 hr).2)).1

/-- **released_then_new** (v5.0) -/
theorem C07_released_then_new_v5 {cfg : Cfg} {s : St} {inp1 inp2 : List Nat} {pb1 pb2 : Framing.PB}
    {fh1 fh2 : Nat} {d1 d2 : List Nat} (parse1 parse2 : Nat → Nat → List Nat → Except Nat Pkt) {r p p' : Pkt} {id : Nat}
    (h1 : Delivers cfg s inp1 pb1 fh1 d1) (ht1 : fh1 / 16 = 6) (hr : parse1 s.ver fh1 d1 = .ok r)
    (hrid : r.pid.getD 0 = id)
    (h2 : Delivers cfg (step cfg s (.recv inp1 parse1)).s inp2 pb2 fh2 d2) (ht2 : fh2 / 16 = 3)
    (hv : (step cfg s (.recv inp1 parse1)).s.ver = 5)
    (hp : parse2 5 fh2 d2 = .ok p) (hpass : PassesV5 cfg (step cfg s (.recv inp1 parse1)).s pb2 p p')
    (hq : p.qos = 2) (hid : p.pid = some id) :
    recvs (step cfg (step cfg s (.recv inp1 parse1)).s (.recv inp2 parse2)).ev = [p'] :=
  (C07_first_is_notified_v5 parse2 h2 ht2 hv hp hpass hq hid
    (hrid ▸ (C07_release_by_pubrel parse1 h1 ht1 hr).2)).1

/-- after a new session / a failing PUBREC the identifier is not handled, so
    `C07_first_is_notified_*` applies to the next PUBLISH: stated once, generically -/
theorem C07_not_handled_then_new_v3 {cfg : Cfg} {s : St} {inp : List Nat} {pb' : Framing.PB} {fh : Nat} {data : List Nat}
    (parse : Nat → Nat → List Nat → Except Nat Pkt) {p : Pkt} {id : Nat}
    (h : Delivers cfg s inp pb' fh data) (ht : fh / 16 = 3) (hv : s.ver = 4)
    (hp : parse 4 fh data = .ok p) (hk : p.kind = .publish) (hq : p.qos = 2) (hid : p.pid = some id)
    (hempty : s.handled = []) :
    notified id (step cfg s (.recv inp parse)).ev = 1 := by
  have := (C07_first_is_notified_v3 parse h ht hv hp hq hid (by simp [hempty])).1
  simp [notified, this, isQ2, hk, hq, hid]


/-! ## non-vacuity: concrete states / inputs satisfying the hypotheses -/
namespace C07Ex

def cfg : Cfg := { role := .client, pw := 2 }
/-- QoS 2 PUBLISH, id 7 -/
def pub4 : Pkt := { ver := 4, kind := .publish, qos := 2, pid := some 7, topic := [97], size := 7 }
def pub5 : Pkt := { ver := 5, kind := .publish, qos := 2, pid := some 7, topic := [97] }
def rel (v : Nat) : Pkt := { ver := v, kind := .pubrel, pid := some 7, size := 4 }
/-- a parser in the sense of `ParseOk`: type 3 ↦ the PUBLISH, type 6 ↦ the PUBREL -/
def parse : Nat → Nat → List Nat → Except Nat Pkt := fun v fh _ =>
  if fh / 16 = 3 then .ok (if v = 4 then pub4 else pub5) else if fh / 16 = 6 then .ok (rel v) else .error eMalformed
/-- frame: fixed header 0x34 (PUBLISH, QoS 2), remaining length 2 -/
def inPub : List Nat := [0x34, 2, 0, 7]
def inRel : List Nat := [0x62, 2, 0, 7]
def s4 (handled : List Nat) : St := { St.init cfg 4 with status := .connected, needStore := true, handled := handled }
def s5 (handled : List Nat) : St := { St.init cfg 5 with status := .connected, needStore := true, handled := handled }

theorem parse_ok : ParseOk parse := by
  intro v fh d p h
  simp only [parse] at h
  split at h
  · rename_i h3
    cases h; split <;> simp [pub4, pub5, Kind.nibble, h3]
  · split at h
    · rename_i h6; cases h; simp [rel, Kind.nibble, h6]
    · cases h

theorem delivers4 (hd : List Nat) : Delivers cfg (s4 hd) inPub {} 0x34 [0, 7] :=
  ⟨⟨[], rfl⟩, by show totalSize 2 ≤ noLimit; decide, rfl, by show (4 : Nat) ≠ 0; decide⟩
theorem delivers5 (hd : List Nat) : Delivers cfg (s5 hd) inPub {} 0x34 [0, 7] :=
  ⟨⟨[], rfl⟩, by show totalSize 2 ≤ noLimit; decide, rfl, by show (5 : Nat) ≠ 0; decide⟩
theorem deliversRel4 (hd : List Nat) : Delivers cfg (s4 hd) inRel {} 0x62 [0, 7] :=
  ⟨⟨[], rfl⟩, by show totalSize 2 ≤ noLimit; decide, rfl, by show (4 : Nat) ≠ 0; decide⟩

-- (1) duplicate: hypotheses satisfiable, conclusion as computed
example := C07_dup_answered_v3 parse (delivers4 [7]) (by decide) rfl rfl rfl rfl (by decide)
example : (step cfg (s4 [7]) (.recv inPub parse)).ev = [.send (mkAck cfg 4 .pubrec 7) none] := by decide
example := C07_dup_answered_v5 (p' := pub5) parse (delivers5 [7]) (by decide) rfl rfl
  ⟨by decide, by intro m h; cases h⟩ rfl rfl (by decide)
-- (2) first copy
example := C07_first_is_notified_v3 parse (delivers4 []) (by decide) rfl rfl rfl rfl (by decide)
example : (step cfg (s4 []) (.recv inPub parse)).ev = [.recv pub4] := by decide
example := C07_first_is_notified_v5 (p' := pub5) parse (delivers5 []) (by decide) rfl rfl
  ⟨by decide, by intro m h; cases h⟩ rfl rfl (by decide)
-- (3) a history: PUBLISH, duplicate PUBLISH (no deleting step): exactly one notification
example : OpWf (.recv inPub parse) := parse_ok
example : NoDelete cfg 7 (s4 []) [.recv inPub parse, .recv inPub parse] :=
  ⟨by unfold Deletes; decide, by unfold Deletes; decide, trivial⟩
example : notifiedRun cfg 7 (s4 []) [.recv inPub parse, .recv inPub parse] = 1 := by decide
-- … and with a PUBREL in between (a deleting step) the second PUBLISH is a new message
example : Deletes cfg 7 (s4 [7]) (.recv inRel parse) := by unfold Deletes; decide
example : notifiedRun cfg 7 (s4 []) [.recv inPub parse, .recv inRel parse, .recv inPub parse] = 2 := by decide
example := C07_release_by_pubrel parse (deliversRel4 [7]) (by decide) rfl
example := C07_release_by_failing_pubrec cfg (s5 [7]) { ver := 5, kind := .pubrec, pid := some 7, rc := some 0x80, size := 5 }
  0x80 rfl rfl rfl rfl (by decide) (by decide) rfl
example := C07_release_by_new_session cfg { s4 [7] with status := .disconnected }
  { ver := 4, kind := .connect, clean := true } rfl rfl (by decide) rfl rfl (.inl rfl)
-- a CONNACK(success, session present = false) accepted for sending starts a new session
example : Deletes { role := .server, pw := 2 } 7 { s4 [7] with status := .connecting }
    (.send { ver := 4, kind := .connack, size := 4, rc := some 0, sp := false }) := by unfold Deletes; decide
example := C07_survives_resume cfg (s4 [7]) rfl
example : (step cfg (s4 [7]) .closed).s.handled = [7] := by decide
-- (5) the monitor theorems: ghost [7] tracks handled = [7]; a PUBREL 7 arrives; afterwards both are empty
theorem monWf_rel : MonWf cfg (s4 [7]) (.recv inRel parse) where
  parse := parse_ok
  store := by intro x hx; simp [s4, St.init] at hx
  v4 := by intro p h; cases h
  sei := by
    intro p hm hp
    have : (step cfg (s4 [7]) (.recv inRel parse)).ev = [.recv (rel 4)] := by decide
    rw [this] at hm; simp at hm; subst hm; simp [rel] at hp
example : Tracks [7] (s4 [7]).handled ∧ Mon.startsNewSession (step cfg (s4 [7]) (.recv inRel parse)).ev = false ∧
    Mon.q2Step [7] (step cfg (s4 [7]) (.recv inRel parse)).ev = ([], []) ∧
    (step cfg (s4 [7]) (.recv inRel parse)).s.handled = [] :=
  ⟨⟨by decide, fun x => Iff.rfl⟩, by decide, by decide, by decide⟩
example := C07_monitor_sound cfg (s4 [7]) (.recv inRel parse) [7] monWf_rel ⟨by decide, fun x => Iff.rfl⟩
  (by decide) (by intro h; cases h.1) (by intro ids h; cases h)
example := C07_monitor_not_swallowed parse (delivers4 []) (by decide) (.inl rfl) rfl rfl rfl rfl (by decide) (by decide)

end C07Ex

end MqttVerif.Conn
