import MqttVerif.Conn.Lemmas.Basic
/-!
# C07 — inbound QoS 2 exactly once (first instalment)
-/
set_option linter.unusedSimpArgs false
set_option linter.unusedVariables false
namespace MqttVerif.Conn
open MqttVerif

/-- fix (finding #2): a new session forgets the handled QoS 2 identifiers -/
theorem C07_new_session_forgets_handled (c : C) : (clearStoreRelated c).s.handled = [] := by
  simp [clearStoreRelated]

/-- the handled set is a set: inserting is idempotent, `del` really removes -/
theorem C07_handled_set_ops (id : Nat) (l : List Nat) :
    id ∈ ins id l ∧ id ∉ del id l ∧ (id ∈ l → ins id l = l) ∧ (∀ x, x ≠ id → (x ∈ del id l ↔ x ∈ l)) := by
  refine ⟨?_, ?_, ?_, ?_⟩
  · unfold ins; split <;> simp_all
  · simp [del]
  · intro h; simp [ins, h]
  · intro x hx; simp [del, hx]

example : (3 : Nat) ∈ ({ (St.init ⟨.server, 2⟩ 4) with handled := [3] } : St).handled := by decide

end MqttVerif.Conn
