import MqttVerif.Conn.Lemmas.Restore
import MqttVerif.Conn.Lemmas.Resume
import MqttVerif.Props.C10
/-!
# C16 — session state exported at any point and restored resumes the session
-/
set_option linter.unusedSimpArgs false
set_option linter.unusedVariables false
namespace MqttVerif.Conn
open MqttVerif

/-! ## export / restore -/

/-- `restore_qos2_publish_handled`: the given ids as a set (as `Op.restoreHandled` does) -/
def handledSet (hs : List Nat) : List Nat := hs.foldl (fun acc x => ins x acc) []

/-- `get_stored_packets()` (store order) and `get_qos2_publish_handled()` -/
def exportSt (s : St) : List Pkt × List Nat := (s.store.map (·.2), s.handled)

/-- a new object of version `ver` given an export -/
def restore (cfg : Cfg) (ver : Nat) (e : List Pkt × List Nat) : St :=
  (restorePackets ⟨cfg, { St.init cfg ver with handled := handledSet e.2 }, []⟩ e.1).s

/-- `restore` is the two public calls on a new object -/
theorem restore_eq_run (cfg : Cfg) (ver : Nat) (ps : List Pkt) (hs : List Nat) :
    restore cfg ver (ps, hs) = run cfg (St.init cfg ver) [.restoreHandled hs, .restorePackets ps] := rfl

theorem mem_foldl_ins (hs acc : List Nat) (x : Nat) :
    x ∈ hs.foldl (fun acc x => ins x acc) acc ↔ (x ∈ acc ∨ x ∈ hs) := by
  induction hs generalizing acc with
  | nil => simp
  | cons y rest ih => simp only [List.foldl_cons, ih, mem_ins, List.mem_cons]; grind

theorem mem_handledSet (hs : List Nat) (x : Nat) : x ∈ handledSet hs ↔ x ∈ hs := by
  simp [handledSet, mem_foldl_ins]

theorem idMax_pos {cfg : Cfg} (h : 0 < cfg.pw) : 1 ≤ cfg.idMax := by
  have : 256 ^ 1 ≤ 256 ^ cfg.pw := Nat.pow_le_pow_right (by decide) h
  simp only [Cfg.idMax]; omega

theorem RI_init (cfg : Cfg) (hpw : 0 < cfg.pw) (ver : Nat) (hs : List Nat) :
    RI cfg { St.init cfg ver with handled := hs } where
  wf := PidWf.init cfg (idMax_pos hpw)
  used := by
    intro x
    simp [isUsed, St.init, Alloc.isUsed, Alloc.new, Alloc.Free, storeHas]
    intro h1 h2
    exact ⟨by have := of_decide_eq_true h1; omega, of_decide_eq_true h2⟩
  nodup := by simp [St.init]

theorem WI_init (cfg : Cfg) (ver : Nat) (hs : List Nat) : WI { St.init cfg ver with handled := hs } where
  pa := by intro x; simp [St.init]
  pr := by intro x; simp [St.init]
  pc := by intro x; simp [St.init]

/-! ## C16 (3): `restore_packets` is total -/

theorem restoreAcc_frame (c : C) (p : Pkt) :
    (restoreAcc c p).s.panic = c.s.panic ∧ (restoreAcc c p).s.pidMan = c.s.pidMan := by
  obtain ⟨_, _, w3, _, w5, _⟩ := waitIns_spec c p
  have hp : (waitIns c p).s.panic = c.s.panic := by rw [w5]
  unfold restoreAcc
  by_cases hh : storeHas (rid p) (waitIns c p).s.store = true
  · simp only [hh, if_true]; exact ⟨hp, w3⟩
  · simp only [hh, if_false, Bool.false_eq_true]; exact ⟨hp, w3⟩

theorem restoreOne_panic (c : C) (p : Pkt) : (restoreOne c p).s.panic = c.s.panic := by
  rw [restoreOne_eq]
  cases restoreSkip p
  · cases hr : (register c (rid p)).1
    · simp only [Bool.false_eq_true, if_false]; rfl
    · simp only [Bool.false_eq_true, if_false, if_true]
      rw [(restoreAcc_frame _ p).1]; rfl
  · rfl

theorem restorePackets_panic (c : C) (ps : List Pkt) : (restorePackets c ps).s.panic = c.s.panic := by
  induction ps generalizing c with
  | nil => rfl
  | cons p rest ih => simp only [restorePackets, ih, restoreOne_panic]

/-- **C16 (3)**: for ANY list of packets (duplicate ids, QoS 0 entries, PUBREL + PUBLISH with
    the same id, id 0 / absent / out of range) and any handled-id list, restoring into a new
    object never panics, and the resulting state is exactly:
    * store = the accepted entries in order (`specStep` / `acceptedP`: not a QoS 0 PUBLISH, id
      in `[1, MAX]`, id not yet a key — first occurrence wins);
    * ids in use = keys of the store (allocator well-formed, keys distinct) — `RI`;
    * the three wait sets = the ids of the **stored** entries, by expected response — `WI`
      (finding #24 is fixed: a rejected entry leaves no wait-set entry);
    * handled = the given ids; every other field as constructed. -/
theorem C16_restore_total (cfg : Cfg) (hpw : 0 < cfg.pw) (ver : Nat) (ps : List Pkt) (hs : List Nat) :
    let r := restore cfg ver (ps, hs)
    r.panic = none ∧ RI cfg r ∧ WI r ∧
    r.store = ps.foldl (specStep cfg) [] ∧
    r.handled = handledSet hs ∧
    RestoreFrame { St.init cfg ver with handled := handledSet hs } r := by
  obtain ⟨_, _, h3, h4, h5, h6⟩ :=
    restorePackets_spec (cfg := cfg) ps (c := ⟨cfg, { St.init cfg ver with handled := handledSet hs }, []⟩)
      (RI_init cfg hpw ver _) (WI_init cfg ver _)
  dsimp only [restore]
  refine ⟨?_, h3, h4, h5, ?_, h6⟩
  · exact restorePackets_panic _ _
  · unfold RestoreFrame at h6
    show (restorePackets _ ps).s.handled = _
    rw [h6]

/-- **C16 (3), per entry, for EVERY object** (no invariant): a QoS 0 PUBLISH, and an entry whose
    id `register_packet_id` refuses, leave the object **completely unchanged** (state and events) -/
theorem C16_restore_rejected_unchanged (c : C) (p : Pkt)
    (h : (p.kind = .publish ∧ p.qos = 0) ∨ (register c (p.pid.getD 0)).1 = false) :
    restoreOne c p = c := by
  apply restoreOne_rejected
  rcases h with h | h
  · left; simp [restoreSkip, h]
  · right; exact h

/-- … and on an object satisfying the bookkeeping invariant `RI` (in particular a new one,
    and every intermediate object of a `restore_packets` call) the refused ids are exactly:
    0 / absent, out of range, already a key of the store (duplicate or already in use). -/
theorem C16_restore_rejected_iff (cfg : Cfg) (c : C) (h : RI cfg c.s) (hw : WI c.s) (p : Pkt) :
    (¬ acceptedP cfg c.s.store p → restoreOne c p = c) ∧
    (acceptedP cfg c.s.store p → (restoreOne c p).s.store = c.s.store ++ [(rid p, p)]) := by
  obtain ⟨_, _, _, _, o5, _, o7⟩ := restoreOne_spec h hw p
  refine ⟨o7, fun ha => ?_⟩
  rw [o5]; simp only [specStep, ha, if_true]

/-- no panic, without any hypothesis on the object -/
theorem C16_restore_never_panics (cfg : Cfg) (s : St) (ps : List Pkt) :
    (step cfg s (.restorePackets ps)).s.panic = s.panic :=
  restorePackets_panic _ _

/-! ## C16 (1): the session projection of a restored export -/

/-- ownership invariant of the store: keys pairwise distinct and in `[1, MAX]`; every entry is
    a QoS 1/2 PUBLISH or a PUBREL carrying its key as packet identifier -/
structure StoreOwn (cfg : Cfg) (st : List (Nat × Pkt)) : Prop where
  nodup : (st.map (·.1)).Nodup
  entry : ∀ id p, (id, p) ∈ st → p.pid = some id ∧ 1 ≤ id ∧ id ≤ cfg.idMax ∧
    ((p.kind = .publish ∧ (p.qos = 1 ∨ p.qos = 2)) ∨ p.kind = .pubrel)

theorem StoreOwn.entry_facts {cfg : Cfg} {st : List (Nat × Pkt)} (h : StoreOwn cfg st) {id : Nat} {p : Pkt}
    (hm : (id, p) ∈ st) : restoreSkip p = false ∧ rid p = id ∧ 1 ≤ id ∧ id ≤ cfg.idMax := by
  obtain ⟨h1, h2, h3, h4⟩ := h.entry id p hm
  refine ⟨?_, by simp [rid, h1], h2, h3⟩
  simp only [restoreSkip, decide_eq_false_iff_not]
  rintro ⟨a, b⟩
  rcases h4 with ⟨_, c | c⟩ | c
  · omega
  · omega
  · rw [a] at c; exact absurd c (by decide)

theorem foldl_specStep_own {cfg : Cfg} (l acc : List (Nat × Pkt)) (h : StoreOwn cfg (acc ++ l)) :
    (l.map (·.2)).foldl (specStep cfg) acc = acc ++ l := by
  induction l generalizing acc with
  | nil => simp
  | cons e rest ih =>
    obtain ⟨id, p⟩ := e
    obtain ⟨f1, f2, f3, f4⟩ := h.entry_facts (id := id) (p := p) (by simp)
    have hnot : storeHas id acc = false := by
      cases hh : storeHas id acc
      · rfl
      · have hm := (storeHas_iff id acc).1 hh
        have := h.nodup
        simp only [List.map_append, List.map_cons] at this
        have := (List.nodup_append.1 this).2.2 id hm id (by simp)
        exact absurd rfl this
    have hstep : specStep cfg acc p = acc ++ [(id, p)] := by
      simp only [specStep, acceptedP, f1, f2, f3, f4, hnot, and_self, if_true]
    simp only [List.map_cons, List.foldl_cons, hstep]
    rw [ih (acc ++ [(id, p)]) (by simpa using h)]
    simp

/-- **C16 (1)**: for every state whose store satisfies the ownership invariant, restoring its
    export into a new object (any version) reproduces the session projection: the store (same
    order, same content), the three wait sets (as sets) = ids of the stored QoS 1 PUBLISH /
    QoS 2 PUBLISH / PUBREL, exactly the stored ids in use, the handled set; no panic. -/
theorem C16_restore_session_proj (cfg : Cfg) (hpw : 0 < cfg.pw) (ver : Nat) (s : St)
    (h : StoreOwn cfg s.store) :
    let r := restore cfg ver (exportSt s)
    r.store = s.store ∧
    (∀ x, x ∈ r.puback ↔ ∃ p, (x, p) ∈ s.store ∧ p.kind = .publish ∧ p.qos = 1) ∧
    (∀ x, x ∈ r.pubrec ↔ ∃ p, (x, p) ∈ s.store ∧ p.kind = .publish ∧ p.qos = 2) ∧
    (∀ x, x ∈ r.pubcomp ↔ ∃ p, (x, p) ∈ s.store ∧ p.kind = .pubrel) ∧
    (∀ x, isUsed r x = true ↔ x ∈ s.store.map (·.1)) ∧
    (∀ x, x ∈ r.handled ↔ x ∈ s.handled) ∧
    r.panic = none ∧ PidWf cfg r.pidMan := by
  obtain ⟨t1, t2, tw, t3, t7, _⟩ := C16_restore_total cfg hpw ver (s.store.map (·.2)) s.handled
  have hstore : (restore cfg ver (exportSt s)).store = s.store := by
    have := foldl_specStep_own (cfg := cfg) s.store [] (by simpa using h)
    simp only [exportSt]; rw [t3, this]; simp
  have resp : ∀ {x : Nat} {p : Pkt}, (x, p) ∈ s.store →
      ((respOf p = .puback ↔ (p.kind = .publish ∧ p.qos = 1)) ∧
       (respOf p = .pubrec ↔ (p.kind = .publish ∧ p.qos = 2)) ∧
       (respOf p = .pubcomp ↔ p.kind = .pubrel)) := by
    intro x p hm
    obtain ⟨_, _, _, h4⟩ := h.entry x p hm
    unfold respOf
    rcases h4 with ⟨a, b | b⟩ | a
    · simp [a, b]
    · simp [a, b]
    · simp [a]
  have hstore' : (restore cfg ver (s.store.map (·.2), s.handled)).store = s.store := hstore
  dsimp only
  refine ⟨hstore, ?_, ?_, ?_, ?_, ?_, t1, t2.wf⟩
  · intro x; simp only [exportSt]; rw [tw.pa x, hstore']
    constructor
    · rintro ⟨p, hm, hk⟩; exact ⟨p, hm, (resp hm).1.1 hk⟩
    · rintro ⟨p, hm, hk⟩; exact ⟨p, hm, (resp hm).1.2 hk⟩
  · intro x; simp only [exportSt]; rw [tw.pr x, hstore']
    constructor
    · rintro ⟨p, hm, hk⟩; exact ⟨p, hm, (resp hm).2.1.1 hk⟩
    · rintro ⟨p, hm, hk⟩; exact ⟨p, hm, (resp hm).2.1.2 hk⟩
  · intro x; simp only [exportSt]; rw [tw.pc x, hstore']
    constructor
    · rintro ⟨p, hm, hk⟩; exact ⟨p, hm, (resp hm).2.2.1 hk⟩
    · rintro ⟨p, hm, hk⟩; exact ⟨p, hm, (resp hm).2.2.2 hk⟩
  · intro x; simp only [exportSt] at hstore ⊢; rw [t2.used x, hstore, storeHas_iff]
  · intro x; simp only [exportSt]; rw [t7, mem_handledSet]

/-! ## non-vacuity and a malformed export (finding #24, fixed) -/

namespace C16ex
def cfg : Cfg := ⟨.client, 2⟩
def pub1 : Pkt := { ver := 4, kind := .publish, size := 10, pid := some 1, qos := 1, dup := true, topic := [116] }
def pub7 : Pkt := { ver := 4, kind := .publish, size := 10, pid := some 7, qos := 2, dup := true, topic := [117] }
def rel2 : Pkt := { ver := 4, kind := .pubrel, size := 4, pid := some 2 }
/-- a v3.1.1 client with three exchanges in flight, one handled inbound QoS 2 id, and one
    identifier (9) acquired by the application but not yet used (`held`) -/
def s : St :=
  { St.init cfg 4 with
    pidMan := ⟨1, 65535, 65535, [⟨3, 6⟩, ⟨8, 8⟩, ⟨10, 65535⟩]⟩
    store := [(7, pub7), (1, pub1), (2, rel2)], puback := [1], pubrec := [7], pubcomp := [2]
    handled := [4], needStore := true, status := .connected, isClient := true }
end C16ex

example : StoreOwn C16ex.cfg C16ex.s.store where
  nodup := by decide
  entry := by
    intro id p hm
    simp only [C16ex.s, List.mem_cons, Prod.mk.injEq, List.not_mem_nil, or_false] at hm
    rcases hm with ⟨rfl, rfl⟩ | ⟨rfl, rfl⟩ | ⟨rfl, rfl⟩ <;> decide

namespace C16w24
def pub5 : Pkt := { ver := 4, kind := .publish, size := 10, pid := some 5, qos := 1, dup := true, topic := [116] }
def rel5 : Pkt := { ver := 4, kind := .pubrel, size := 4, pid := some 5 }
def pubNoId : Pkt := { ver := 4, kind := .publish, size := 10, pid := none, qos := 2, topic := [116] }
def pubQ0 : Pkt := { ver := 4, kind := .publish, size := 8, topic := [116] }
/-- a malformed export: PUBLISH and PUBREL with the same id, a QoS 2 PUBLISH without id, a
    QoS 0 PUBLISH -/
def ps : List Pkt := [pub5, rel5, pubNoId, pubQ0]
def r : St := restore C16ex.cfg 4 (ps, [])
def connect : Pkt := { ver := 4, kind := .connect, size := 14, clean := false }
def connack : Pkt := { ver := 4, kind := .connack, size := 4, sp := true, rc := some 0 }
def pubcomp5 : Pkt := { ver := 4, kind := .pubcomp, size := 4, pid := some 5 }
def resume : List Op :=
  [.send connect, .recv [32, 2, 1, 0] (fun _ _ _ => .ok connack),
   .recv [112, 2, 0, 5] (fun _ _ _ => .ok pubcomp5)]
end C16w24

/-- finding #24 **fixed**: the rejected entries of a malformed export (a PUBREL whose id is
    already taken by a PUBLISH, a QoS 2 PUBLISH without id, a QoS 0 PUBLISH) leave no trace: the
    result is the same as restoring the one accepted packet alone, and a later PUBCOMP 5 from
    the peer is a protocol error instead of releasing the id of the stored PUBLISH. -/
theorem C16_restore_malformed_example :
    C16w24.r = restore C16ex.cfg 4 ([C16w24.pub5], []) ∧
    C16w24.r.store = [(5, C16w24.pub5)] ∧ C16w24.r.puback = [5] ∧ C16w24.r.pubcomp = [] ∧
    C16w24.r.pubrec = [] ∧ isUsed C16w24.r 5 = true ∧ isUsed C16w24.r 0 = false ∧
    C16w24.r.panic = none ∧
    runEvents C16ex.cfg C16w24.r C16w24.resume =
      [[.send C16w24.connect none], [.send C16w24.pub5 none, .recv C16w24.connack],
       [.close, .error eProtocol]] ∧
    (run C16ex.cfg C16w24.r C16w24.resume).store = [(5, C16w24.pub5)] ∧
    isUsed (run C16ex.cfg C16w24.r C16w24.resume) 5 = true := by
  decide

/-! ## the restore monitor is a theorem of the model (`VIOL sig=C16 restore_inconsistent@restore_p`) -/

/-- every entry of the specified store is one of the restored packets, under its own id -/
theorem mem_foldl_specStep (cfg : Cfg) (ps : List Pkt) (acc : List (Nat × Pkt)) (x : Nat × Pkt)
    (h : x ∈ ps.foldl (specStep cfg) acc) : x ∈ acc ∨ x.2 ∈ ps := by
  induction ps generalizing acc with
  | nil => exact .inl h
  | cons p rest ih =>
    rcases ih _ h with h' | h'
    · unfold specStep at h'
      split at h'
      · rcases List.mem_append.1 h' with h'' | h''
        · exact .inl h''
        · simp only [List.mem_singleton] at h''
          subst h''
          exact .inr (by simp)
      · exact .inl h'
    · exact .inr (List.mem_cons_of_mem _ h')

/-- the packets an exported session contains (`GenericStorePacket`): QoS 1 / QoS 2 PUBLISH and
    PUBREL; a QoS 0 PUBLISH is tolerated (it is skipped) -/
def RestorablePkt (p : Pkt) : Prop :=
  (p.kind = .publish ∧ p.qos ≤ 2) ∨ p.kind = .pubrel

/-- **C16, `restore_packets` leaves a consistent object** — in the exact shape of the driver
    monitor `VIOL sig=C16 restore_inconsistent@restore_p`.  Restoring ANY list of restorable
    packets (duplicate ids, id 0 / absent / out of range included) into an object without session
    state (`RI` with an empty store: no identifier in use; the QoS wait sets empty — e.g. a new
    object, with any restored handled set): afterwards `pid_puback` / `pid_pubrec` / `pid_pubcomp`
    are, as sets, the ids of the stored QoS 1 PUBLISH / QoS 2 PUBLISH / PUBREL entries, every
    stored id is in use, and the stored ids are pairwise distinct; no panic. -/
theorem C16_monitor_restore_consistent (cfg : Cfg) (s : St) (ps : List Pkt)
    (hri : RI cfg s) (hst : s.store = []) (hpa : s.puback = []) (hpr : s.pubrec = []) (hpc : s.pubcomp = [])
    (hps : ∀ p ∈ ps, RestorablePkt p) :
    let r := (step cfg s (.restorePackets ps)).s
    (∀ x, x ∈ r.puback ↔ ∃ p, (x, p) ∈ r.store ∧ p.kind = .publish ∧ p.qos = 1) ∧
    (∀ x, x ∈ r.pubrec ↔ ∃ p, (x, p) ∈ r.store ∧ p.kind = .publish ∧ p.qos = 2) ∧
    (∀ x, x ∈ r.pubcomp ↔ ∃ p, (x, p) ∈ r.store ∧ p.kind = .pubrel) ∧
    (∀ e ∈ r.store, isUsed r e.1 = true) ∧
    (r.store.map (·.1)).Nodup ∧
    r.panic = s.panic := by
  have hw : WI s := ⟨by simp [hst, hpa], by simp [hst, hpr], by simp [hst, hpc]⟩
  obtain ⟨_, _, h3, h4, h5, _⟩ := restorePackets_spec (cfg := cfg) ps (c := ⟨cfg, s, []⟩) hri hw
  have hmem : ∀ x p, (x, p) ∈ (restorePackets ⟨cfg, s, []⟩ ps).s.store → p ∈ ps ∧ restoreSkip p = false := by
    intro x p hm
    have hin : p ∈ ps := by
      rw [h5] at hm
      rcases mem_foldl_specStep cfg ps _ _ hm with h | h
      · simp [hst] at h
      · exact h
    refine ⟨hin, ?_⟩
    -- a stored entry was accepted, hence not skipped: its response set contains its id
    cases hsk : restoreSkip p with
    | false => rfl
    | true =>
      exfalso
      rw [h5] at hm
      clear h3 h4 h5
      have key : ∀ (l : List Pkt) (acc : List (Nat × Pkt)), (∀ e ∈ acc, restoreSkip e.2 = false) →
          ∀ e ∈ l.foldl (specStep cfg) acc, restoreSkip e.2 = false := by
        intro l
        induction l with
        | nil => intro acc ha e he; exact ha e he
        | cons q rest ih =>
          intro acc ha e he
          refine ih _ ?_ e he
          intro e' he'
          unfold specStep at he'
          split at he'
          · rename_i hacc
            rcases List.mem_append.1 he' with h | h
            · exact ha e' h
            · simp only [List.mem_singleton] at h; subst h; exact hacc.1
          · exact ha e' he'
      have := key ps s.store (by simp [hst]) (x, p) hm
      simp [hsk] at this
  have resp : ∀ x p, (x, p) ∈ (restorePackets ⟨cfg, s, []⟩ ps).s.store →
      ((respOf p = .puback ↔ (p.kind = .publish ∧ p.qos = 1)) ∧
       (respOf p = .pubrec ↔ (p.kind = .publish ∧ p.qos = 2)) ∧
       (respOf p = .pubcomp ↔ p.kind = .pubrel)) := by
    intro x p hm
    obtain ⟨hin, hsk⟩ := hmem x p hm
    have hr := hps p hin
    simp only [restoreSkip, decide_eq_false_iff_not] at hsk
    unfold respOf
    rcases hr with ⟨a, b⟩ | a
    · have hq : p.qos = 1 ∨ p.qos = 2 := by
        have : ¬ p.qos = 0 := fun h0 => hsk ⟨a, h0⟩
        omega
      rcases hq with hq | hq <;> simp [a, hq]
    · simp [a]
  have hstep : (step cfg s (.restorePackets ps)).s = (restorePackets ⟨cfg, s, []⟩ ps).s := rfl
  dsimp only
  rw [hstep]
  refine ⟨?_, ?_, ?_, ?_, h3.nodup, restorePackets_panic _ _⟩
  · intro x; rw [h4.pa x]
    constructor
    · rintro ⟨p, hm, hk⟩; exact ⟨p, hm, (resp x p hm).1.1 hk⟩
    · rintro ⟨p, hm, hk⟩; exact ⟨p, hm, (resp x p hm).1.2 hk⟩
  · intro x; rw [h4.pr x]
    constructor
    · rintro ⟨p, hm, hk⟩; exact ⟨p, hm, (resp x p hm).2.1.1 hk⟩
    · rintro ⟨p, hm, hk⟩; exact ⟨p, hm, (resp x p hm).2.1.2 hk⟩
  · intro x; rw [h4.pc x]
    constructor
    · rintro ⟨p, hm, hk⟩; exact ⟨p, hm, (resp x p hm).2.2.1 hk⟩
    · rintro ⟨p, hm, hk⟩; exact ⟨p, hm, (resp x p hm).2.2.2 hk⟩
  · intro e he
    rw [h3.used e.1, storeHas_iff]
    exact List.mem_map.2 ⟨e, he, rfl⟩

/-- hypotheses of `C16_monitor_restore_consistent`: a new object with a restored handled set, and
    the malformed export of finding #24 (all its packets are restorable *packets*; what is wrong
    with it is the combination) -/
example : RI C16ex.cfg { St.init C16ex.cfg 4 with handled := [4] } ∧
    (∀ p ∈ C16w24.ps, RestorablePkt p) ∧
    (step C16ex.cfg { St.init C16ex.cfg 4 with handled := [4] } (.restorePackets C16w24.ps)).s.store.length = 1 := by
  refine ⟨RI_init C16ex.cfg (by decide) 4 [4], ?_, by decide⟩
  intro p hp
  simp only [C16w24.ps, List.mem_cons, List.not_mem_nil, or_false] at hp
  rcases hp with rfl | rfl | rfl | rfl <;> unfold RestorablePkt <;> decide

/-! ## C16 (2): the restored object continues like the original -/

/-- the second call of the resume handshake on an object in state `t` (first call done):
    a client receives CONNACK(accepted, session present) — without a Session Expiry Interval 0
    property —, or a server sends CONNACK(accepted, session present) (with session present =
    false the CONNACK starts a new session instead — fix 10ee029, see C10) -/
inductive ResumeAck (cfg : Cfg) (t : St) : Op → Prop
  | received (inp : List Nat) (parse : Nat → Nat → List Nat → Except Nat Pkt)
      (pb : Framing.PB) (fh : Nat) (data rest : List Nat) (q : Pkt)
      (hf : Framing.feed t.pb inp = (pb, some (.complete fh data), rest))
      (ht : fh / 16 = 2) (hsz : totalSize data.length ≤ t.mpsRecv) (hr : cfg.role ≠ .server)
      (hv : t.ver = 4 ∨ t.ver = 5) (hst : t.status ≠ .connected)
      (hp : parse t.ver fh data = .ok q) (hrc : q.rc = some 0) (hsp : q.sp = true)
      (hsei : ∀ e ∈ q.props, ¬ (e.1 = pSEI ∧ e.2 = 0)) : ResumeAck cfg t (.recv inp parse)
  | sent (q : Pkt) (hk : q.kind = .connack) (hver : q.ver = t.ver) (hv : t.ver = 4 ∨ t.ver = 5)
      (hr : cfg.role ≠ .client) (hst : t.status = .connecting) (hrc : q.rc = some 0)
      (hsp : q.sp = true)
      (hsz : t.ver = 5 → q.size ≤ t.mpsSend) : ResumeAck cfg t (.send q)

theorem prV3Connack_eq (c : C) (q : Pkt) (b : Bool) (hst : c.s.status ≠ .connected) (hrc : q.rc = some 0)
    (hsp : q.sp = true)
    (hb : resendCond ((fun c : C => { c with s := { c.s with status := .connected } }) c) = b) :
    prV3Connack c (.ok q) =
      (fun c => (rearmIf b c).push (.recv q))
        (sendStored ((fun c : C => { c with s := { c.s with status := .connected } }) c)) := by
  simp only [prV3Connack, hst, if_false, hrc, if_true, hsp, resendStored_eq_rearm]
  rw [← hb]

theorem prV5Connack_eq (c : C) (q : Pkt) (b : Bool) (hst : c.s.status ≠ .connected) (hrc : q.rc = some 0)
    (hsp : q.sp = true)
    (hb : resendCond ((fun c : C =>
      propsFold connackRecvProp { c with s := { c.s with status := .connected } } q.props) c) = b) :
    prV5Connack c (.ok q) =
      (fun c => (rearmIf b c).push (.recv q)) (sendStored ((fun c : C =>
        propsFold connackRecvProp { c with s := { c.s with status := .connected } } q.props) c)) := by
  simp only [prV5Connack, hst, if_false, hrc, if_true, hsp, resendStored_eq_rearm]
  rw [← hb]

theorem psV3Connack_eq (c : C) (q : Pkt) (hst : c.s.status = .connecting) (hrc : q.rc = some 0)
    (hsp : q.sp = true) :
    psV3Connack c q =
      sendPostProcess (sendStored ((fun c : C =>
        { c.push (.send q none) with s := { (c.push (.send q none)).s with status := .connected } }) c)) := by
  simp only [psV3Connack, hst, ne_eq, not_true_eq_false, if_false, hrc, hsp, if_true]

theorem psV5Connack_eq (c : C) (q : Pkt) (hst : c.s.status = .connecting) (hrc : q.rc = some 0)
    (hsp : q.sp = true) (hsz : sizeOk c q = true) :
    psV5Connack c q =
      sendPostProcess (sendStored ((fun c : C =>
        { (propsFold connackSendProp c q.props).push (.send q none) with
          s := { ((propsFold connackSendProp c q.props).push (.send q none)).s with status := .connected } }) c)) := by
  simp only [psV5Connack, hsz, Bool.not_true, Bool.false_eq_true, if_false, hst, ne_eq,
    not_true_eq_false, hrc, if_true, hsp]

theorem resume_wrap {cfg : Cfg} (f pre post : C → C) (hpre : Blind pre) (hpost : Blind post)
    (c : C) (X : Sess) (hf1 : f c = post (sendStored (pre c)))
    (hf2 : f (c.ws X) = post (sendStored (pre (c.ws X))))
    (hst : X.store = c.s.store) (w1 : PidWfT cfg c.s.pidMan) (w2 : PidWfT cfg X.pidMan)
    (hag : ∀ e ∈ c.s.store, (isUsed c.s e.1 = true ↔ Alloc.isUsed X.pidMan e.1 = true)) :
    ∃ pm2 D, f (c.ws X) = (f c).ws (dropSess D X pm2 (f c).s.store) ∧
      (f c).s.sess = dropSess D c.s.sess (f c).s.pidMan (f c).s.store ∧
      (∀ d ∈ D, d ∈ c.s.store.map (·.1)) ∧
      UsedRel cfg (c.s.store.map (·.1)) c.s.pidMan X.pidMan (f c).s.pidMan pm2 := by
  obtain ⟨pm2, D, a, b, d, e⟩ := resume_core (cfg := cfg) pre post hpre hpost c X hst w1 w2 hag
  exact ⟨pm2, D, by rw [hf2, hf1]; exact a, by rw [hf1]; exact b, d, by rw [hf1]; exact e⟩

/-- **the resume acknowledgement on two objects that differ only in the session bookkeeping**
    and hold the same store: same events, same non-session state, same store afterwards; the
    same (oversize) ids `D` are dropped from the wait sets on both sides, handled is
    untouched; the allocators stay related. -/
theorem resumeAck_rel {cfg : Cfg} {t : St} {op : Op} (h : ResumeAck cfg t op) (X : Sess)
    (hst : X.store = t.store) (w1 : PidWfT cfg t.pidMan) (w2 : PidWfT cfg X.pidMan)
    (hag : ∀ e ∈ t.store, (isUsed t e.1 = true ↔ Alloc.isUsed X.pidMan e.1 = true)) :
    ∃ pm2 D, step cfg (setSess t X) op =
        (step cfg t op).ws (dropSess D X pm2 (step cfg t op).s.store) ∧
      (step cfg t op).s.sess = dropSess D t.sess (step cfg t op).s.pidMan (step cfg t op).s.store ∧
      (∀ d ∈ D, d ∈ t.store.map (·.1)) ∧
      UsedRel cfg (t.store.map (·.1)) t.pidMan X.pidMan (step cfg t op).s.pidMan pm2 := by
  cases h with
  | received inp parse pb fh data rest q hf ht hsz hr hv hstat hp hrc hsp hsei =>
    have hcan : ∀ s : St, canReceive cfg s 2 = true := by
      intro s; cases hc : cfg.role <;> simp_all [canReceive]
    have hnl : ¬ (totalSize data.length > t.mpsRecv) := by omega
    have hn0 : (t.ver = 0) = False := eq_false (by omega)
    have key : ∀ t' : St, t'.pb = t.pb → t'.mpsRecv = t.mpsRecv → t'.ver = t.ver →
        step cfg t' (.recv inp parse) =
          (if t.ver = 4 then prV3Connack ⟨cfg, { t' with pb := pb }, []⟩ (.ok q)
           else prV5Connack ⟨cfg, { t' with pb := pb }, []⟩ (.ok q)) := by
      intro t' e1 e2 e3
      simp only [step, recv, e1, e2, e3, hf, processRecvPacket, hnl, if_false, ht, hcan, Bool.not_true,
        Bool.false_eq_true, hn0, dispatchRecv, hp]
    rw [key t rfl rfl rfl, key (setSess t X) rfl rfl rfl]
    rcases hv with h4 | h5
    · have e4 : (t.ver = 4) = True := eq_true h4
      simp only [e4, if_true]
      have hb := resendCond_ws (cfg := cfg) _ blind_setConnected ⟨cfg, { t with pb := pb }, []⟩ X hst w1 w2 hag
      exact resume_wrap (cfg := cfg) (fun c => prV3Connack c (.ok q)) _ _ blind_setConnected
        (Blind.comp (blind_push _) (blind_rearmIf _))
        ⟨cfg, { t with pb := pb }, []⟩ X (prV3Connack_eq _ q _ hstat hrc hsp rfl) (prV3Connack_eq _ q _ hstat hrc hsp hb)
        hst w1 w2 hag
    · have e4 : (t.ver = 4) = False := eq_false (by omega)
      simp only [e4, if_false]
      have hb : Blind (fun c : C => propsFold connackRecvProp { c with s := { c.s with status := .connected } } q.props) :=
        Blind.comp (g := fun c => propsFold connackRecvProp c q.props)
          (propsFold_ws' q.props (fun e he c X => connackRecvProp_ws c X e.1 e.2 (hsei e he))) blind_setConnected
      have hb' := resendCond_ws (cfg := cfg) _ hb ⟨cfg, { t with pb := pb }, []⟩ X hst w1 w2 hag
      exact resume_wrap (cfg := cfg) (fun c => prV5Connack c (.ok q)) _ _ hb
        (Blind.comp (blind_push _) (blind_rearmIf _))
        ⟨cfg, { t with pb := pb }, []⟩ X (prV5Connack_eq _ q _ hstat hrc hsp rfl) (prV5Connack_eq _ q _ hstat hrc hsp hb')
        hst w1 w2 hag
  | sent q hk hver hv hr hstat hrc hsp hsz =>
    have hrole : roleMaySend cfg.role q = true := by
      cases hc : cfg.role <;> simp_all [roleMaySend]
    have key : ∀ t' : St, t'.ver = t.ver →
        step cfg t' (.send q) =
          (if t.ver = 4 then psV3Connack ⟨cfg, t', []⟩ q else psV5Connack ⟨cfg, t', []⟩ q) := by
      intro t' e1
      simp only [step, send, e1, hver, ne_eq, not_true_eq_false, if_false, hrole, Bool.not_true,
        Bool.false_eq_true, processSend, hk]
    rw [key t rfl, key (setSess t X) rfl]
    rcases hv with h4 | h5
    · have e4 : (t.ver = 4) = True := eq_true h4
      simp only [e4, if_true]
      exact resume_wrap (cfg := cfg) (fun c => psV3Connack c q) _ _
        (Blind.comp blind_setConnected (blind_push _)) blind_sendPostProcess ⟨cfg, t, []⟩ X
        (psV3Connack_eq _ q hstat hrc hsp) (psV3Connack_eq _ q hstat hrc hsp) hst w1 w2 hag
    · have e4 : (t.ver = 4) = False := eq_false (by omega)
      simp only [e4, if_false]
      have hso : ∀ c : C, c.cfg = cfg → c.s.mpsSend = t.mpsSend → sizeOk c q = true := by
        intro c h1 h2
        have : q.sz cfg.pw = q.size := by simp [Pkt.sz, hk]
        simp only [sizeOk, h1, h2, this, Bool.not_eq_true', decide_eq_false_iff_not]
        have := hsz h5; omega
      exact resume_wrap (cfg := cfg) (fun c => psV5Connack c q) _ _
        (Blind.comp (Blind.comp blind_setConnected (blind_push _)) (blind_propsFold connackSendProp_ws q.props))
        blind_sendPostProcess ⟨cfg, t, []⟩ X
        (psV5Connack_eq _ q hstat hrc hsp (hso _ rfl rfl)) (psV5Connack_eq _ q hstat hrc hsp (hso _ rfl rfl)) hst w1 w2 hag

theorem ResumeAck.setSess {cfg : Cfg} {t : St} {op : Op} (h : ResumeAck cfg t op) (X : Sess) :
    ResumeAck cfg (setSess t X) op := by
  cases h with
  | received inp parse pb fh data rest q hf ht hsz hr hv hstat hp hrc hsp hsei =>
    exact .received inp parse pb fh data rest q hf ht hsz hr hv hstat hp hrc hsp hsei
  | sent q hk hver hv hr hstat hrc hsp hsz => exact .sent q hk hver hv hr hstat hrc hsp hsz

theorem restoreOne_bnd (c : C) (p : Pkt) : Bnd (restoreOne c p).s.pidMan c.s.pidMan := by
  have hb := useValue_bnd c.s.pidMan (rid p)
  rw [restoreOne_eq]
  cases restoreSkip p
  · cases hr : (register c (rid p)).1
    · simp only [Bool.false_eq_true, if_false]; exact hb
    · simp only [Bool.false_eq_true, if_false, if_true]
      rw [(restoreAcc_frame _ p).2]; exact hb
  · exact Bnd.refl _

theorem restorePackets_bnd (c : C) (ps : List Pkt) : Bnd (restorePackets c ps).s.pidMan c.s.pidMan := by
  induction ps generalizing c with
  | nil => exact Bnd.refl _
  | cons p rest ih => exact (ih (restoreOne c p)).trans (restoreOne_bnd c p)

theorem restore_tmax (cfg : Cfg) (ver : Nat) (e : List Pkt × List Nat) :
    (restore cfg ver e).pidMan.highest ≤ (restore cfg ver e).pidMan.tmax := by
  obtain ⟨_, h2, h3⟩ := restorePackets_bnd ⟨cfg, { St.init cfg ver with handled := handledSet e.2 }, []⟩ e.1
  simp only [restore]
  rw [h2, h3]
  exact Nat.le_refl _

/-- **C16 (2)**: the restored object continues like the original.
    `s`: any state of a persistent session (`need_store`); `o = closed s` the original after the
    transport loss; `r` = a new object with the same options given `export s`.  Hypotheses on
    the closed original: store ownership, well-formed allocator, every stored id in use.
    For every resume handshake — `op1` an accepted CONNECT without clean start (sent by a
    client or received by a server), `op2` its acknowledgement (`ResumeAck`: CONNACK session
    present received, or CONNACK session present sent) —:
    * both objects emit **the same events** in both calls: the same retransmissions
      (`send_stored`: same packets, same order), the same released ids, the same timer requests;
    * afterwards the restored object's state is the original's with only the session
      bookkeeping replaced: **every non-session field and the store are equal**;
    * the fields that may differ: the three wait sets and the handled set — on both sides they
      are the object's own sets before the handshake minus the same dropped (oversize) stored
      ids `D` (`dropSess`); the original's own lists vs. those computed by `restore` are equal
      as sets by `C16_restore_session_proj` whenever the original's sets match its store —
      and the allocator: the original additionally holds exactly the ids `held` that were in
      use at the crash point without being keys of the store (acquired, not yet published /
      limbo QoS 2);
    * both allocators are well-formed. -/
theorem C16_restored_continues (cfg : Cfg) (hpw : 0 < cfg.pw) (s : St) (ns : Bool) (op1 op2 : Op) (p1 : Pkt)
    (hns : s.needStore = true) (hpanic : (closed cfg s).panic = none)
    (hown : StoreOwn cfg s.store) (hwf : PidWfT cfg (closed cfg s).pidMan)
    (hused : ∀ e ∈ s.store, isUsed (closed cfg s) e.1 = true)
    (h1 : ConnStart cfg s.ver op1 p1) (hc : p1.clean = false)
    (h2 : ResumeAck cfg (step cfg (freshNS cfg s.ver s ns) op1).s op2) :
    let o := closed cfg s
    let R := (restore cfg s.ver (exportSt s)).sess
    let r := setSess (freshNS cfg s.ver s ns) R
    let o2 := run cfg o [op1, op2]
    let r2 := run cfg r [op1, op2]
    runEvents cfg o [op1, op2] = runEvents cfg r [op1, op2] ∧
    (∃ D, (∀ d ∈ D, d ∈ s.store.map (·.1)) ∧
      r2 = setSess o2 (dropSess D R r2.pidMan o2.store) ∧
      o2.sess = dropSess D o.sess o2.pidMan o2.store) ∧
    (∀ x, isUsed o2 x = true ↔
      (isUsed r2 x = true ∨ (isUsed o x = true ∧ x ∉ s.store.map (·.1)))) ∧
    PidWfT cfg o2.pidMan ∧ PidWfT cfg r2.pidMan := by
  intro o R r o2 r2
  have hF := freshNS_idle cfg s.ver s ns
  obtain ⟨c1, c2, c3, c4, c5, c6, c7, c8⟩ := C16_restore_session_proj cfg hpw s.ver s hown
  have hkeep := (C10_closed_keeps cfg s).2.2.2.2.2.2.2.2.2.2.2.2.2.2.2.2.2.2 hns
  have hostore : o.store = s.store := hkeep.2.2.2.1
  -- first call
  have k1 : step cfg o op1 = (step cfg (freshNS cfg s.ver s ns) op1).ws o.sess :=
    closed_connect_eq_ws cfg s s.ver ns op1 p1 rfl hpanic h1 hc
  have k1r : step cfg r op1 = (step cfg (freshNS cfg s.ver s ns) op1).ws R :=
    connStart_ws (a := freshNS cfg s.ver s ns) rfl h1 hF hc R
  -- second call, reference = the original
  have h2o := h2.setSess o.sess
  have hRstore : R.store = s.store := c1
  obtain ⟨pm2, D, q1, q2, qD, q3⟩ := resumeAck_rel (cfg := cfg) h2o R
    (by rw [hRstore]; exact hostore.symm) hwf ⟨c8, restore_tmax cfg s.ver _⟩
    (by
      intro e he
      have he' : e ∈ s.store := by
        have : (setSess (step cfg (freshNS cfg s.ver s ns) op1).s o.sess).store = o.store := rfl
        rw [this, hostore] at he; exact he
      constructor
      · intro _
        exact (c5 e.1).2 (List.mem_map.2 ⟨e, he', rfl⟩)
      · intro _; exact hused e he')
  rw [setSess_setSess] at q1
  have ho2 : o2 = (step cfg (setSess (step cfg (freshNS cfg s.ver s ns) op1).s o.sess) op2).s := by
    show run cfg o [op1, op2] = _
    simp only [run, k1]; rfl
  have hr2 : r2 = (step cfg (setSess (step cfg (freshNS cfg s.ver s ns) op1).s R) op2).s := by
    show run cfg r [op1, op2] = _
    simp only [run, k1r]; rfl
  have hsess : o2.sess = dropSess D o.sess o2.pidMan o2.store := by
    rw [ho2, q2, sess_setSess]
  have hr2' : r2 = setSess o2 (dropSess D R pm2 o2.store) := by
    rw [hr2, q1, ho2]; rfl
  have hpm : r2.pidMan = pm2 := by rw [hr2']; rfl
  have hopm : (setSess (step cfg (freshNS cfg s.ver s ns) op1).s o.sess).pidMan = o.pidMan := rfl
  have hsto : (setSess (step cfg (freshNS cfg s.ver s ns) op1).s o.sess).store = s.store := hostore
  rw [hopm, hsto, ← ho2] at q3
  rw [hsto] at qD
  refine ⟨?_, ⟨D, qD, by rw [hpm]; exact hr2', hsess⟩, ?_, q3.wf1, by rw [hpm]; exact q3.wf2⟩
  · show runEvents cfg o [op1, op2] = runEvents cfg r [op1, op2]
    simp only [runEvents, k1, k1r]
    have : (step cfg (setSess (step cfg (freshNS cfg s.ver s ns) op1).s R) op2).ev =
        (step cfg (setSess (step cfg (freshNS cfg s.ver s ns) op1).s o.sess) op2).ev := by rw [q1]; rfl
    simp only [C.ws, this]
  · intro x
    have hrx : isUsed r2 x = Alloc.isUsed pm2 x := by simp only [isUsed, hpm]
    rw [hrx]
    by_cases hx : x ∈ s.store.map (·.1)
    · have hag : (Alloc.isUsed o.pidMan x = true ↔ Alloc.isUsed R.pidMan x = true) := by
        obtain ⟨e, he, rfl⟩ := List.mem_map.1 hx
        exact ⟨fun _ => (c5 e.1).2 hx, fun _ => hused e he⟩
      have := q3.agree x hag
      simp only [isUsed]
      rw [this]
      simp [hx]
    · obtain ⟨f1, f2⟩ := q3.frame x hx
      have hR : ¬ (Alloc.isUsed R.pidMan x = true) := fun h => hx ((c5 x).1 h)
      simp only [isUsed]
      rw [f1, f2]
      simp [hx, hR]

/-- non-vacuity of `C16_restored_continues`: the state `C16ex.s` (three exchanges in flight, a
    handled QoS 2 id, the held id 9) with a v3.1.1 client resume handshake -/
example :
    C16ex.s.needStore = true ∧ (closed C16ex.cfg C16ex.s).panic = none ∧
    PidWfT C16ex.cfg (closed C16ex.cfg C16ex.s).pidMan ∧
    (∀ e ∈ C16ex.s.store, isUsed (closed C16ex.cfg C16ex.s) e.1 = true) ∧
    isUsed (closed C16ex.cfg C16ex.s) 9 = true ∧ 9 ∉ C16ex.s.store.map (·.1) ∧
    ConnStart C16ex.cfg C16ex.s.ver (.send C16w24.connect) C16w24.connect ∧ C16w24.connect.clean = false ∧
    ResumeAck C16ex.cfg (step C16ex.cfg (freshNS C16ex.cfg C16ex.s.ver C16ex.s false) (.send C16w24.connect)).s
      (.recv [32, 2, 1, 0] (fun _ _ _ => .ok C16w24.connack)) := by
  have hpm : (closed C16ex.cfg C16ex.s).pidMan = ⟨1, 65535, 65535, [⟨3, 6⟩, ⟨8, 8⟩, ⟨10, 65535⟩]⟩ := by decide
  refine ⟨rfl, by decide, ?_, by decide, by decide, by decide,
    .sent C16w24.connect rfl rfl (Or.inl rfl) (by decide) (fun h => absurd h (by decide)), rfl,
    .received [32, 2, 1, 0] _ Framing.PB.reset 32 [1, 0] [] C16w24.connack (by decide) (by decide) (by decide)
      (by decide) (Or.inl (by decide)) (by decide) rfl rfl rfl (by intro e he; simp [C16w24.connack] at he)⟩
  rw [hpm]
  refine ⟨⟨rfl, by decide, by decide, ?_⟩, by decide⟩
  intro v hv
  simp only [Alloc.Free, List.mem_cons, List.not_mem_nil, or_false] at hv
  obtain ⟨iv, (rfl | rfl | rfl), h1, h2⟩ := hv <;> simp only [Cfg.idMax, C16ex.cfg] at * <;> omega

/-- non-vacuity of `ResumeAck.sent`: a server in `connecting` sends CONNACK(accepted, session present) -/
example : ResumeAck ⟨.server, 2⟩ { St.init ⟨.server, 2⟩ 4 with status := .connecting }
    (.send { ver := 4, kind := .connack, size := 4, sp := true, rc := some 0 }) :=
  .sent _ rfl rfl (Or.inl rfl) (by decide) rfl rfl rfl (fun h => absurd h (by decide))

end MqttVerif.Conn
