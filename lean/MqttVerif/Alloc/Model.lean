/-!
# L0 — interval allocator (`src/mqtt/common/value_allocator.rs`), impl-shaped model

The pool is the in-order content of the Rust `BTreeSet<ValueInterval<T>>`.  Machine integers
are `Nat`; `tmax` is `T::MAX` and every Rust `value + T::one()` is modelled with an explicit
overflow test whose failure is the outcome `panic` (debug-build semantics).

No imports: this file is linked into the `mqttdrv` executable.
-/
namespace MqttVerif.Alloc

structure Iv where
  lo : Nat
  hi : Nat
deriving DecidableEq, Repr, Inhabited

/-- `ValueAllocator<T>`: `lowest`, `highest`, `T::MAX`, pool. -/
structure A where
  lowest : Nat
  highest : Nat
  tmax : Nat
  pool : List Iv
deriving DecidableEq, Repr, Inhabited

/-- abstraction: `v` is free in the pool -/
def Free (p : List Iv) (v : Nat) : Prop := ∃ iv ∈ p, iv.lo ≤ v ∧ v ≤ iv.hi

instance (p : List Iv) (v : Nat) : Decidable (Free p v) := by unfold Free; infer_instance

/-- `ValueAllocator::new` (the `assert!(lowest <= highest)` is a precondition of every theorem) -/
def new (lowest highest tmax : Nat) : A := ⟨lowest, highest, tmax, [⟨lowest, highest⟩]⟩

/-- `allocate` on the pool -/
def allocateP : List Iv → Option (Nat × List Iv)
  | [] => none
  | iv :: rest => some (iv.lo, if iv.lo < iv.hi then ⟨iv.lo + 1, iv.hi⟩ :: rest else rest)

def allocate (a : A) : Option Nat × A :=
  match allocateP a.pool with
  | none => (none, a)
  | some (v, p) => (some v, { a with pool := p })

def firstVacant (a : A) : Option Nat := a.pool.head?.map (·.lo)

/-- `use_value` on the pool: split the interval containing `v` -/
def useValueP (v : Nat) : List Iv → Option (List Iv)
  | [] => none
  | iv :: rest =>
    if iv.lo ≤ v ∧ v ≤ iv.hi then
      some ((if iv.lo < v then [⟨iv.lo, v - 1⟩] else []) ++
            (if v < iv.hi then [⟨v + 1, iv.hi⟩] else []) ++ rest)
    else (useValueP v rest).map (iv :: ·)

def useValue (a : A) (v : Nat) : Bool × A :=
  match useValueP v a.pool with
  | none => (false, a)
  | some p => (true, { a with pool := p })

/-- `is_used`: in range and contained in no free interval (the range test is the `fix:` for
    finding #6; the pinned tree answered "used" for every out-of-range value). -/
def isUsed (a : A) (v : Nat) : Bool :=
  a.lowest ≤ v && v ≤ a.highest && !decide (Free a.pool v)

inductive DRes
  | ok (p : List Iv)
  | panic (site : String)
deriving Repr, DecidableEq

def DRes.map (f : List Iv → List Iv) : DRes → DRes
  | .ok p => .ok (f p)
  | .panic s => .panic s

/-- the four match arms of `deallocate` once `left`/`right` are known (`right = some r`).
    `value + T::one()` is evaluated in the guards of arm 1 (only when `l.high + 1 == value`)
    and arm 3; `value = tmax` there is an overflow panic. -/
def deallocLR (tmax v : Nat) (l : Option Iv) (r : Iv) (rest : List Iv) : DRes :=
  match l with
  | some l =>
    if l.hi + 1 = v then
      if v = tmax then .panic "value_allocator.rs:deallocate:value+1(arm1)"
      else if v + 1 = r.lo then .ok (⟨l.lo, r.hi⟩ :: rest)
      else .ok (⟨l.lo, v⟩ :: r :: rest)
    else
      if v = tmax then .panic "value_allocator.rs:deallocate:value+1(arm3)"
      else if v + 1 = r.lo then .ok (l :: ⟨v, r.hi⟩ :: rest)
      else if r.lo ≤ v then .ok (l :: r :: rest)      -- BTreeSet::insert of an "equal" element
      else .ok (l :: ⟨v, v⟩ :: r :: rest)
  | none =>
    if v = tmax then .panic "value_allocator.rs:deallocate:value+1(arm3)"
    else if v + 1 = r.lo then .ok (⟨v, r.hi⟩ :: rest)
    else if r.lo ≤ v then .ok (r :: rest)
    else .ok (⟨v, v⟩ :: r :: rest)

/-- the body of `deallocate` after the assertion: `left` = last interval with `hi < v`,
    `right` = first with `hi ≥ v` (this is what the overlap-is-equal comparator makes the two
    `BTreeSet::range` calls return). -/
def deallocRaw (tmax v : Nat) : List Iv → DRes
  | [] => .ok [⟨v, v⟩]
  | a :: rest =>
    if a.hi < v then
      match rest with
      | [] => if a.hi + 1 = v then .ok [⟨a.lo, v⟩] else .ok [a, ⟨v, v⟩]
      | b :: rest' =>
        if b.hi < v then (deallocRaw tmax v (b :: rest')).map (a :: ·)
        else deallocLR tmax v (some a) b rest'
    else deallocLR tmax v none a rest

/-- `deallocate`: range assertion, early return for a value that is not in use (the `fix:`
    for finding #21), then the neighbour merge. -/
def deallocate (a : A) (v : Nat) : Option String × A :=
  if ¬ (a.lowest ≤ v ∧ v ≤ a.highest) then
    (some "value_allocator.rs:deallocate:assert_range", a)
  else if !isUsed a v then (none, a)
  else match deallocRaw a.tmax v a.pool with
    | .ok p => (none, { a with pool := p })
    | .panic s => (some s, a)

def clear (a : A) : A := { a with pool := [⟨a.lowest, a.highest⟩] }

def intervalCount (a : A) : Nat := a.pool.length

/-! ## operations as data (used by the trace theorem and the driver) -/

inductive Op
  | allocate | firstVacant | deallocate (v : Nat) | useValue (v : Nat)
  | isUsed (v : Nat) | clear | intervalCount
deriving Repr, DecidableEq

inductive Ans
  | optVal (o : Option Nat) | bool (b : Bool) | unit | nat (n : Nat) | panic (site : String)
deriving Repr, DecidableEq

def step (a : A) : Op → A × Ans
  | .allocate => let r := allocate a; (r.2, .optVal r.1)
  | .firstVacant => (a, .optVal (firstVacant a))
  | .deallocate v =>
    let r := deallocate a v
    (r.2, match r.1 with | none => .unit | some s => .panic s)
  | .useValue v => let r := useValue a v; (r.2, .bool r.1)
  | .isUsed v => (a, .bool (isUsed a v))
  | .clear => (clear a, .unit)
  | .intervalCount => (a, .nat (intervalCount a))

/-- the answer a plain set of free integers gives when that set is read off a pool: reserve
    succeeds exactly for free values, a value is used exactly when it is in range and not free,
    allocate hands out the smallest free value (the head of a sorted pool).  Evaluated by the
    driver on the implementation's own interval list (`C20 answer_vs_pool`), on ranges of any size;
    `Props/C20.C20_pool_answer_is_spec` ties it to the set specification. -/
def poolAnswer (a : A) : Op → Option Ans
  | .useValue v => some (.bool (decide (Free a.pool v)))
  | .isUsed v => some (.bool (decide (a.lowest ≤ v ∧ v ≤ a.highest) && !decide (Free a.pool v)))
  | .allocate => some (.optVal (a.pool.head?.map (·.lo)))
  | _ => none

end MqttVerif.Alloc
