import MqttVerif.Alloc.Model
/-!
# Specification for C20: a plain set of used integers inside `[lowest, highest]`

`allocate` returns the smallest free value; `reserve` succeeds exactly for free values;
`release` frees; a value is used iff in range and not free.  The number of maximal free runs
is defined directly on the set, by counting run starts.
-/
namespace MqttVerif.Alloc

structure S where
  lowest : Nat
  highest : Nat
  used : List Nat          -- as a set
deriving Repr, Inhabited

def S.free (s : S) (v : Nat) : Prop := s.lowest ≤ v ∧ v ≤ s.highest ∧ v ∉ s.used
instance (s : S) (v : Nat) : Decidable (s.free v) := by unfold S.free; infer_instance

/-- smallest free value ≥ `from_`, searching `n` candidates -/
def S.findFree (s : S) : Nat → Nat → Option Nat
  | _, 0 => none
  | v, n + 1 => if s.free v then some v else s.findFree (v + 1) n

def S.smallestFree (s : S) : Option Nat := s.findFree s.lowest (s.highest + 1 - s.lowest)

/-- number of maximal runs of free values among `v, v+1, …` (`n` candidates); `prev` tells
    whether `v - 1` was free -/
def S.runs (s : S) : Nat → Nat → Bool → Nat
  | _, 0, _ => 0
  | v, n + 1, prev =>
    (if s.free v ∧ !prev then 1 else 0) + s.runs (v + 1) n (decide (s.free v))

def S.runCount (s : S) : Nat := s.runs s.lowest (s.highest + 1 - s.lowest) false

def S.step (s : S) : Op → S × Ans
  | .allocate =>
    match s.smallestFree with
    | none => (s, .optVal none)
    | some v => ({ s with used := v :: s.used }, .optVal (some v))
  | .firstVacant => (s, .optVal s.smallestFree)
  | .deallocate v =>
    if ¬ (s.lowest ≤ v ∧ v ≤ s.highest) then (s, .panic "value_allocator.rs:deallocate:assert_range")
    else ({ s with used := s.used.filter (· ≠ v) }, .unit)
  | .useValue v =>
    if s.free v then ({ s with used := v :: s.used }, .bool true) else (s, .bool false)
  | .isUsed v => (s, .bool (decide (s.lowest ≤ v ∧ v ≤ s.highest ∧ ¬ s.free v)))
  | .clear => ({ s with used := [] }, .unit)
  | .intervalCount => (s, .nat s.runCount)

def S.new (lowest highest : Nat) : S := ⟨lowest, highest, []⟩

/-- answers of an operation sequence -/
def S.run (s : S) : List Op → List Ans
  | [] => []
  | op :: ops => let r := s.step op; r.2 :: S.run r.1 ops

def run (a : A) : List Op → List Ans
  | [] => []
  | op :: ops => let r := step a op; r.2 :: run r.1 ops

end MqttVerif.Alloc
