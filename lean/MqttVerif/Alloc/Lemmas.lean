import MqttVerif.Alloc.Spec
/-! # Helper lemmas for C20 (representation invariant, per-operation refinement) -/
set_option linter.unusedSimpArgs false
set_option linter.unusedVariables false
namespace MqttVerif.Alloc

@[simp] theorem free_nil (v : Nat) : ¬ Free [] v := by simp [Free]
@[simp] theorem free_cons (iv : Iv) (p : List Iv) (v : Nat) :
    Free (iv :: p) v ↔ (iv.lo ≤ v ∧ v ≤ iv.hi) ∨ Free p v := by simp [Free]
@[simp] theorem free_append (p q : List Iv) (v : Nat) :
    Free (p ++ q) v ↔ Free p v ∨ Free q v := by
  simp [Free, List.mem_append, or_and_right, exists_or]

/-- representation invariant: sorted, disjoint, **non-adjacent** (maximally merged),
    non-empty intervals, all ≥ `lb` -/
def Ok : Nat → List Iv → Prop
  | _, [] => True
  | lb, iv :: rest => lb ≤ iv.lo ∧ iv.lo ≤ iv.hi ∧ Ok (iv.hi + 2) rest

instance : (lb : Nat) → (p : List Iv) → Decidable (Ok lb p)
  | _, [] => isTrue trivial
  | lb, iv :: rest =>
    have := instDecidableOk (iv.hi + 2) rest
    by unfold Ok; infer_instance

theorem Ok.mono {lb lb' : Nat} {p : List Iv} (h : Ok lb p) (hl : lb' ≤ lb) : Ok lb' p := by
  cases p with
  | nil => trivial
  | cons iv rest => exact ⟨by have := h.1; omega, h.2.1, h.2.2⟩

theorem not_free_lt {lb : Nat} {p : List Iv} (h : Ok lb p) {v : Nat} (hv : v < lb) : ¬ Free p v := by
  induction p generalizing lb with
  | nil => simp
  | cons iv rest ih =>
    obtain ⟨h1, h2, h3⟩ := h
    have := ih h3 (by omega : v < iv.hi + 2)
    simp only [free_cons]; grind

theorem allocateP_none {p : List Iv} (h : allocateP p = none) (v : Nat) : ¬ Free p v := by
  cases p <;> simp_all [allocateP]

theorem allocateP_some {lb : Nat} {p p' : List Iv} {v : Nat} (h : Ok lb p)
    (ha : allocateP p = some (v, p')) :
    Free p v ∧ (∀ w, w < v → ¬ Free p w) ∧ (∀ w, Free p' w ↔ (Free p w ∧ w ≠ v)) ∧ Ok lb p' ∧
      (∀ iv ∈ p', ∃ iv0 ∈ p, iv.hi = iv0.hi) := by
  cases p with
  | nil => simp [allocateP] at ha
  | cons iv rest =>
    obtain ⟨h1, h2, h3⟩ := h
    simp only [allocateP, Option.some.injEq, Prod.mk.injEq] at ha
    obtain ⟨rfl, rfl⟩ := ha
    have hr : ∀ w, w ≤ iv.hi + 1 → ¬ Free rest w := fun w hw => not_free_lt h3 (by omega)
    refine ⟨by simp; omega, ?_, ?_, ?_, ?_⟩
    · intro w hw
      have hok : Ok iv.lo (iv :: rest) := ⟨Nat.le_refl _, h2, h3⟩
      exact not_free_lt hok hw
    · intro w
      have := hr w
      split <;> simp only [free_cons] <;> grind
    · split
      · exact ⟨by simp; omega, by simp; omega, h3⟩
      · exact Ok.mono h3 (by omega)
    · intro iv' hm
      split at hm
      · rcases List.mem_cons.1 hm with rfl | hm
        · exact ⟨iv, by simp, rfl⟩
        · exact ⟨iv', by simp [hm], rfl⟩
      · exact ⟨iv', by simp [hm], rfl⟩

theorem useValueP_none {p : List Iv} {v : Nat} (h : useValueP v p = none) : ¬ Free p v := by
  induction p with
  | nil => simp
  | cons iv rest ih =>
    simp only [useValueP] at h
    split at h
    · simp at h
    · simp only [Option.map_eq_none_iff] at h
      have := ih h
      simp only [free_cons]; grind

theorem useValueP_some {lb : Nat} {p p' : List Iv} {v : Nat} (h : Ok lb p)
    (hu : useValueP v p = some p') :
    Free p v ∧ (∀ w, Free p' w ↔ (Free p w ∧ w ≠ v)) ∧ Ok lb p' := by
  induction p generalizing lb p' with
  | nil => simp [useValueP] at hu
  | cons iv rest ih =>
    obtain ⟨h1, h2, h3⟩ := h
    simp only [useValueP] at hu
    split at hu
    · rename_i hc
      simp only [Option.some.injEq] at hu
      subst hu
      have hr : ∀ w, w ≤ iv.hi + 1 → ¬ Free rest w := fun w hw => not_free_lt h3 (by omega)
      refine ⟨by simp; omega, ?_, ?_⟩
      · intro w
        have := hr w
        by_cases a : iv.lo < v <;> by_cases b : v < iv.hi <;>
          simp only [a, b, if_true, if_false, free_append, free_cons, free_nil, List.nil_append,
            List.append_nil, List.cons_append, or_false, false_or] <;> grind
      · by_cases a : iv.lo < v <;> by_cases b : v < iv.hi <;>
          simp only [a, b, if_true, if_false, List.nil_append, List.cons_append, Ok]
        · exact ⟨h1, by omega, by omega, by omega, Ok.mono h3 (by omega)⟩
        · exact ⟨h1, by omega, Ok.mono h3 (by omega)⟩
        · exact ⟨by omega, by omega, h3⟩
        · exact Ok.mono h3 (by omega)
    · rename_i hc
      cases hq : useValueP v rest with
      | none => simp [hq] at hu
      | some q =>
        simp only [hq, Option.map_some, Option.some.injEq] at hu
        subst hu
        obtain ⟨f1, f2, f3⟩ := ih h3 hq
        refine ⟨by simp [f1], ?_, ?_⟩
        · intro w; simp only [free_cons, f2]; grind
        · refine ⟨h1, h2, f3⟩

/-- releasing a used value inside the range: the free set grows by exactly `v`, the
    representation stays sorted/disjoint/maximally merged, no panic (any `tmax ≥ v`). -/
theorem deallocRaw_used {tmax v lb : Nat} {p : List Iv} (h : Ok lb p) (hv : ¬ Free p v)
    (hlb : lb ≤ v) (hmax : ∀ iv ∈ p, iv.hi ≤ tmax) (hvm : v ≤ tmax) :
    ∃ p', deallocRaw tmax v p = .ok p' ∧ (∀ w, Free p' w ↔ (Free p w ∨ w = v)) ∧ Ok lb p' := by
  induction p generalizing lb with
  | nil =>
    refine ⟨[⟨v, v⟩], rfl, ?_, ?_⟩
    · intro w; simp; omega
    · exact ⟨hlb, Nat.le_refl _, trivial⟩
  | cons a rest ih =>
    obtain ⟨h1, h2, h3⟩ := h
    have hva : ¬ (a.lo ≤ v ∧ v ≤ a.hi) := fun c => hv (by simp [c])
    have hvr : ¬ Free rest v := fun c => hv (by simp [c])
    unfold deallocRaw
    by_cases hlt : a.hi < v
    · rw [if_pos hlt]
      cases rest with
      | nil =>
        simp only
        by_cases he : a.hi + 1 = v
        · rw [if_pos he]
          refine ⟨_, rfl, ?_, ?_⟩
          · intro w; simp; omega
          · exact ⟨h1, by simp; omega, trivial⟩
        · rw [if_neg he]
          refine ⟨_, rfl, ?_, ?_⟩
          · intro w; simp; omega
          · exact ⟨h1, h2, by simp; omega, Nat.le_refl _, trivial⟩
      | cons b rest' =>
        simp only
        obtain ⟨g1, g2, g3⟩ := h3
        have hvb : ¬ (b.lo ≤ v ∧ v ≤ b.hi) := fun c => hvr (by simp [c])
        by_cases hb : b.hi < v
        · rw [if_pos hb]
          have hmax' : ∀ iv ∈ b :: rest', iv.hi ≤ tmax := fun iv hiv => hmax iv (List.mem_cons_of_mem _ hiv)
          obtain ⟨q, hq, hf, hok⟩ := ih (lb := a.hi + 2) ⟨g1, g2, g3⟩ hvr (by omega) hmax'
          refine ⟨a :: q, by rw [hq]; rfl, ?_, ?_⟩
          · intro w; simp only [free_cons, hf]; grind
          · exact ⟨h1, h2, hok⟩
        · rw [if_neg hb]
          have hbv : v < b.lo := by omega
          have hbm : b.hi ≤ tmax := hmax b (by simp)
          have hvt : v ≠ tmax := by omega
          have hr : ∀ w, w ≤ b.hi + 1 → ¬ Free rest' w := fun w hw => not_free_lt g3 (by omega)
          unfold deallocLR
          simp only
          by_cases he : a.hi + 1 = v
          · rw [if_pos he, if_neg hvt]
            by_cases hm : v + 1 = b.lo
            · rw [if_pos hm]
              refine ⟨_, rfl, ?_, ?_⟩
              · intro w; have := hr w; simp only [free_cons]; grind
              · exact ⟨h1, by simp; omega, g3⟩
            · rw [if_neg hm]
              refine ⟨_, rfl, ?_, ?_⟩
              · intro w; simp only [free_cons]; grind
              · exact ⟨h1, by simp; omega, by simp; omega, g2, g3⟩
          · rw [if_neg he, if_neg hvt]
            by_cases hm : v + 1 = b.lo
            · rw [if_pos hm]
              refine ⟨_, rfl, ?_, ?_⟩
              · intro w; simp only [free_cons]; grind
              · exact ⟨h1, h2, by simp; omega, by simp; omega, g3⟩
            · rw [if_neg hm, if_neg (by omega)]
              refine ⟨_, rfl, ?_, ?_⟩
              · intro w; simp only [free_cons]; grind
              · exact ⟨h1, h2, by simp; omega, Nat.le_refl _, by simp; omega, g2, g3⟩
    · rw [if_neg hlt]
      have hav : v < a.lo := by omega
      have ham : a.hi ≤ tmax := hmax a (by simp)
      have hvt : v ≠ tmax := by omega
      unfold deallocLR
      simp only
      rw [if_neg hvt]
      by_cases hm : v + 1 = a.lo
      · rw [if_pos hm]
        refine ⟨_, rfl, ?_, ?_⟩
        · intro w; simp only [free_cons]; grind
        · exact ⟨hlb, by simp; omega, h3⟩
      · rw [if_neg hm, if_neg (by omega)]
        refine ⟨_, rfl, ?_, ?_⟩
        · intro w; simp only [free_cons]; grind
        · exact ⟨hlb, Nat.le_refl _, by simp; omega, h2, h3⟩

/-- every interval produced stays below an upper bound when the free set does -/
theorem hi_le_of_free {lb ub : Nat} {p : List Iv} (h : Ok lb p) (hf : ∀ w, Free p w → w ≤ ub) :
    ∀ iv ∈ p, iv.hi ≤ ub := by
  induction p generalizing lb with
  | nil => simp
  | cons a rest ih =>
    obtain ⟨h1, h2, h3⟩ := h
    intro iv hm
    rcases List.mem_cons.1 hm with rfl | hm
    · exact hf _ (by simp; omega)
    · exact ih h3 (fun w hw => hf w (by simp [hw])) iv hm

/-! ### the specification's search and run count -/

theorem findFree_none {s : S} {v n : Nat} (h : s.findFree v n = none) :
    ∀ w, v ≤ w → w < v + n → ¬ s.free w := by
  induction n generalizing v with
  | zero => intro w h1 h2; omega
  | succ n ih =>
    simp only [S.findFree] at h
    split at h
    · simp at h
    · rename_i hv
      intro w h1 h2
      by_cases e : w = v
      · subst e; exact hv
      · exact ih h w (by omega) (by omega)

theorem findFree_some {s : S} {v n w : Nat} (h : s.findFree v n = some w) :
    s.free w ∧ v ≤ w ∧ w < v + n ∧ ∀ u, v ≤ u → u < w → ¬ s.free u := by
  induction n generalizing v with
  | zero => simp [S.findFree] at h
  | succ n ih =>
    simp only [S.findFree] at h
    split at h
    · rename_i hv
      simp only [Option.some.injEq] at h; subst h
      exact ⟨hv, Nat.le_refl _, by omega, fun u h1 h2 => by omega⟩
    · rename_i hv
      obtain ⟨a, b, c, d⟩ := ih h
      refine ⟨a, by omega, by omega, ?_⟩
      intro u h1 h2
      by_cases e : u = v
      · subst e; exact hv
      · exact d u (by omega) h2

/-- the number of maximal free runs seen by the specification equals the number of intervals
    of a pool satisfying the representation invariant.  Two cases, by whether the previous
    value was free (then we are inside an interval ending at `hi`). -/
theorem runs_eq (s : S) (n : Nat) :
    (∀ v p, Ok v p → (∀ iv ∈ p, iv.hi < v + n) → (∀ w, v ≤ w → (s.free w ↔ Free p w)) →
        s.runs v n false = p.length) ∧
    (∀ v hi p, v ≤ hi + 1 → hi < v + n → Ok (hi + 2) p → (∀ iv ∈ p, iv.hi < v + n) →
        (∀ w, v ≤ w → (s.free w ↔ (w ≤ hi ∨ Free p w))) →
        s.runs v n true = p.length) := by
  induction n with
  | zero =>
    constructor
    · intro v p hok hb _
      cases p with
      | nil => rfl
      | cons a rest => have := hb a (by simp); have := hok.1; have := hok.2.1; omega
    · intro v hi p h1 h2 hok hb _
      cases p with
      | nil => rfl
      | cons a rest => have := hb a (by simp); have := hok.1; have := hok.2.1; omega
  | succ n ih =>
    obtain ⟨ihA, ihB⟩ := ih
    constructor
    · intro v p hok hb hf
      simp only [S.runs]
      cases p with
      | nil =>
        have : ¬ s.free v := by rw [hf v (Nat.le_refl _)]; simp
        simp only [this, false_and, if_false, decide_false, Nat.zero_add]
        exact ihA (v + 1) [] trivial (by simp) (fun w hw => hf w (by omega))
      | cons a rest =>
        obtain ⟨h1, h2, h3⟩ := hok
        have hr : ∀ w, w ≤ a.hi + 1 → ¬ Free rest w := fun w hw => not_free_lt h3 (by omega)
        by_cases e : a.lo = v
        · have hfree : s.free v := by rw [hf v (Nat.le_refl _)]; simp; omega
          simp only [hfree, true_and, Bool.not_false, if_true, decide_true, List.length_cons]
          have := ihB (v + 1) a.hi rest (by omega) (by have := hb a (by simp); omega) h3
            (fun iv hm => by have := hb iv (by simp [hm]); omega)
            (fun w hw => by
              rw [hf w (by omega)]; simp only [free_cons]
              have := hr w; grind)
          omega
        · have hnf : ¬ s.free v := by
            rw [hf v (Nat.le_refl _)]; simp only [free_cons]
            have := hr v; grind
          simp only [hnf, false_and, if_false, decide_false, Nat.zero_add]
          exact ihA (v + 1) (a :: rest) ⟨by omega, h2, h3⟩
            (fun iv hm => by have := hb iv hm; omega) (fun w hw => hf w (by omega))
    · intro v hi p h1 h2 hok hb hf
      simp only [S.runs]
      by_cases e : v ≤ hi
      · have hfree : s.free v := by rw [hf v (Nat.le_refl _)]; exact Or.inl e
        simp only [hfree, true_and, Bool.not_true, decide_true, Bool.false_eq_true, if_false, Nat.zero_add]
        exact ihB (v + 1) hi p (by omega) (by omega) hok
          (fun iv hm => by have := hb iv hm; omega) (fun w hw => hf w (by omega))
      · have hnf : ¬ s.free v := by
          rw [hf v (Nat.le_refl _)]
          have := not_free_lt hok (by omega : v < hi + 2)
          grind
        simp only [hnf, false_and, if_false, decide_false, Nat.zero_add]
        exact ihA (v + 1) p (Ok.mono hok (by omega))
          (fun iv hm => by have := hb iv hm; omega)
          (fun w hw => by rw [hf w (by omega)]; constructor
                          · rintro (h | h); omega; exact h
                          · exact Or.inr)

end MqttVerif.Alloc
