import MqttVerif.Conn.Types
/-!
# Property monitors: executable predicates over *observations*

The same definitions are (a) the conclusions of the theorems about the model (`Props/*.lean`)
and (b) evaluated by the driver on the **implementation's** own traces, which is how a broken
proof or broken correspondence is turned into a concrete replay.  They mention only what an
application can observe: the events of a call, and (for the hooked build) digest fields.
No imports outside the model: linked into `mqttdrv`.
-/
namespace MqttVerif.Mon
open MqttVerif.Conn

/-! ## C19 — close ordered after the last packet to flush -/

/-- no `RequestSendPacket` after a `RequestClose` in one event list -/
def closeAfterSend : List Ev → Bool
  | [] => true
  | .close :: rest => rest.all (fun e => match e with | .send _ _ => false | _ => true) && closeAfterSend rest
  | _ :: rest => closeAfterSend rest

def isSentDisconnect : Ev → Bool
  | .send p _ => p.kind = .disconnect
  | _ => false

/-- a sent CONNACK refusing the connection -/
def isSentRefusingConnack : Ev → Bool
  | .send p _ => p.kind = .connack ∧ p.rc ≠ some 0
  | _ => false

def hasClose (evs : List Ev) : Bool := evs.any (· = .close)

/-- every sent DISCONNECT / refusing CONNACK is accompanied by a close request in the same list -/
def disconnectHasClose (evs : List Ev) : Bool :=
  !(evs.any (fun e => isSentDisconnect e || isSentRefusingConnack e)) || hasClose evs

/-! ## C14 — Maximum Packet Size -/

def sentSizesWithin (pw limit : Nat) (evs : List Ev) : Bool :=
  evs.all fun e => match e with
    | .send p _ => p.sz pw ≤ limit
    | _ => true

/-! ## C15 — timer events describe a consistent timer -/

structure Armed where
  s : Bool := false
  r : Bool := false
  p : Bool := false
deriving DecidableEq, Repr, Inhabited

def Armed.get (a : Armed) : Timer → Bool
  | .pingreqSend => a.s | .pingreqRecv => a.r | .pingrespRecv => a.p

def Armed.set (a : Armed) (k : Timer) (b : Bool) : Armed :=
  match k with
  | .pingreqSend => { a with s := b } | .pingreqRecv => { a with r := b } | .pingrespRecv => { a with p := b }

/-- fold the timer events of one call over the ghost `armed` flags; `none` = a cancel was
    requested for a timer that was not armed -/
def timersStep : Armed → List Ev → Option Armed
  | a, [] => some a
  | a, .timerReset k _ :: rest => timersStep (a.set k true) rest
  | a, .timerCancel k :: rest => if a.get k then timersStep (a.set k false) rest else none
  | a, _ :: rest => timersStep a rest

def anyReset (evs : List Ev) : Bool := evs.any fun e => match e with | .timerReset _ _ => true | _ => false

/-! ## C13 — topic aliases resolve at the receiver (sender side) -/

/-- table of a spec-conformant receiver, learnt from the PUBLISH packets actually emitted -/
abbrev PeerTable := List (Nat × List Nat)

def peerLookup (a : Nat) : PeerTable → Option (List Nat)
  | [] => none
  | (k, v) :: rest => if k = a then some v else peerLookup a rest

/-- process one emitted v5.0 PUBLISH: `none` = not resolvable by the receiver -/
def peerStep (peerMax : Nat) (t : PeerTable) (p : Pkt) : Option PeerTable :=
  match p.alias with
  | none => if p.topic.isEmpty then none else some t
  | some a =>
    if a = 0 ∨ a > peerMax then none
    else if p.topic.isEmpty then (if (peerLookup a t).isSome then some t else none)
    else some ((a, p.topic) :: t.filter (·.1 ≠ a))

/-- the topic a conformant receiver holding table `t` delivers this PUBLISH under -/
def peerResolve (t : PeerTable) (p : Pkt) : Option (List Nat) :=
  if !p.topic.isEmpty then some p.topic
  else match p.alias with
    | some a => peerLookup a t
    | none => none

/-- the v5.0 PUBLISH packets of an event list that were requested for sending -/
def sentPublishes : List Ev → List Pkt
  | [] => []
  | .send p _ :: rest => if p.ver = 5 ∧ p.kind = .publish then p :: sentPublishes rest else sentPublishes rest
  | _ :: rest => sentPublishes rest

def peerStepEvs (peerMax : Nat) : PeerTable → List Ev → Option PeerTable
  | t, [] => some t
  | t, .send p _ :: rest =>
    if p.ver = 5 ∧ p.kind = .publish then
      match peerStep peerMax t p with
      | some t' => peerStepEvs peerMax t' rest
      | none => none
    else peerStepEvs peerMax t rest
  | t, _ :: rest => peerStepEvs peerMax t rest

/-! ## C07 — inbound QoS 2: ghost set of notified PUBLISH whose exchange is still open -/

def isErrorRc : Option Nat → Bool
  | some c => decide (c ≥ 128)
  | none => false

/-- fold the events of one call over the set of open (notified, not yet released) inbound QoS 2
    identifiers; second component: identifiers notified a second time within one exchange.
    An exchange ends with a delivered PUBREL or with an error PUBREC we sent. -/
def q2Step : List Nat → List Ev → List Nat × List Nat
  | o, [] => (o, [])
  | o, .recv p :: rest =>
    let id := p.pid.getD 0
    if p.kind = .publish ∧ p.qos = 2 then
      let r := q2Step (if o.contains id then o else id :: o) rest
      (r.1, if o.contains id then id :: r.2 else r.2)
    else if p.kind = .pubrel then q2Step (o.erase id) rest
    else q2Step o rest
  | o, .send p _ :: rest =>
    if p.kind = .pubrec ∧ isErrorRc p.rc then q2Step (o.erase (p.pid.getD 0)) rest
    else q2Step o rest
  | o, _ :: rest => q2Step o rest

/-! ## C08 — released identifiers -/

def releasedIds : List Ev → List Nat
  | [] => []
  | .released id :: rest => id :: releasedIds rest
  | _ :: rest => releasedIds rest

/-! ## C05 — every complete frame is delivered, answered as a duplicate, or reported -/

def frameAccounted (evs : List Ev) : Bool :=
  evs.any fun e => match e with
    | .recv _ => true
    | .error _ => true
    | .send p _ => p.kind = .pubrec         -- QoS 2 duplicate answered with PUBREC
    | _ => false

end MqttVerif.Mon

namespace MqttVerif.Mon
open MqttVerif.Conn

/-! ## session / connection starts as seen from the events of a call -/

def findProp (p : Pkt) (id : Nat) : Option Nat := (p.props.find? (·.1 = id)).map (·.2)

/-- the call started a new *session* (the only case in which identifiers and the store may
    change without an announcement): CONNECT with clean start sent or delivered, or a CONNACK
    sent or delivered with success and session not present (delivered: also Session Expiry
    Interval 0) -/
def startsNewSession (evs : List Ev) : Bool :=
  evs.any fun e => match e with
    | .send p _ => (p.kind = .connect ∧ p.clean) ∨ (p.kind = .connack ∧ p.rc = some 0 ∧ !p.sp)
    | .recv p => (p.kind = .connect ∧ p.clean) ∨
                 (p.kind = .connack ∧ p.rc = some 0 ∧ (!p.sp ∨ findProp p pSEI = some 0))
    | _ => false

/-- a CONNECT was sent or delivered, or a successful CONNACK delivered: a new *connection* -/
def connectionStart (evs : List Ev) : Option Pkt :=
  evs.findSome? fun e => match e with
    | .send p _ => if p.kind = .connect then some p else none
    | .recv p => if p.kind = .connect ∨ (p.kind = .connack ∧ p.rc = some 0) then some p else none
    | _ => none

def hasError (evs : List Ev) : Bool := evs.any fun e => match e with | .error _ => true | _ => false
def hasErrorCode (evs : List Ev) (c : Nat) : Bool := evs.any (· = .error c)

/-! ## C12 — ghost account of incomplete exchanges, from observations only -/

structure Credit where
  out : List Nat := []          -- ids of outbound QoS>0 exchanges (re)started on this connection
  peerMax : Option Nat := none  -- Receive Maximum announced by the peer (delivered CONNECT/CONNACK)
  inn : List Nat := []          -- ids of inbound QoS>0 PUBLISH not yet answered
  ownMax : Option Nat := none   -- Receive Maximum we announced (sent CONNECT / successful CONNACK)
deriving Repr, Inhabited

/-- update the outbound account with the events of one call, in order -/
def creditOutStep : List Nat → List Ev → List Nat
  | out, [] => out
  | out, .send p _ :: rest =>
    match p.pid with
    | some id =>
      if (p.kind = .publish ∧ p.qos > 0) ∨ p.kind = .pubrel then creditOutStep (ins id out) rest
      else creditOutStep out rest
    | none => creditOutStep out rest
  | out, .recv p :: rest =>
    match p.pid with
    | some id =>
      if p.kind = .puback ∨ p.kind = .pubcomp then creditOutStep (del id out) rest
      else if p.kind = .pubrec ∧ p.ver = 5 ∧ p.rc ≠ none ∧ p.rc ≠ some 0 then creditOutStep (del id out) rest
      else creditOutStep out rest
    | none => creditOutStep out rest
  | out, .released id :: rest => creditOutStep (del id out) rest
  | out, _ :: rest => creditOutStep out rest

/-- inbound account: our answers complete an exchange -/
def creditInAnswered : List Nat → List Ev → List Nat
  | inn, [] => inn
  | inn, .send p _ :: rest =>
    match p.pid with
    | some id =>
      if p.kind = .puback ∨ p.kind = .pubcomp then creditInAnswered (del id inn) rest
      else if decide (p.kind = .pubrec) && (match p.rc with | some rc => decide (rc ≥ 0x80) | none => false) then
        creditInAnswered (del id inn) rest
      else creditInAnswered inn rest
    | none => creditInAnswered inn rest
  | inn, _ :: rest => creditInAnswered inn rest

/-! ## C15 — PINGREQ interval priority, from observations only -/

structure Interval where
  user : Option Nat := none      -- application override (ms), from `set_pingreq_send_interval`
  server : Option Nat := none    -- Server Keep Alive of the delivered CONNACK (ms)
  connect : Nat := 0             -- keep alive of the CONNECT sent (ms)
  valid : Bool := false          -- the current connection was started by a CONNECT we sent
deriving Repr, Inhabited

def Interval.expected (i : Interval) : Nat :=
  match i.user with
  | some t => t
  | none => match i.server with
    | some t => t
    | none => i.connect

/-- the last PINGREQ-send timer event of a call -/
def lastSendTimer : List Ev → Option Ev
  | [] => none
  | e :: rest =>
    match lastSendTimer rest with
    | some x => some x
    | none => match e with
      | .timerReset .pingreqSend _ => some e
      | .timerCancel .pingreqSend => some e
      | _ => none

/-! ## C06 — helpers on the stored ids (in store order) -/

/-- relative order of the ids common to both lists is the same -/
def sameRelativeOrder (a b : List Nat) : Bool :=
  a.filter (b.contains ·) == b.filter (a.contains ·)

def sentExchangeIds : List Ev → List Nat
  | [] => []
  | .send p _ :: rest =>
    if (p.kind = .publish ∧ p.qos > 0) ∨ p.kind = .pubrel then (p.pid.getD 0) :: sentExchangeIds rest
    else sentExchangeIds rest
  | _ :: rest => sentExchangeIds rest

end MqttVerif.Mon

namespace MqttVerif.Mon

/-! ## C01 — what two interoperating endpoints must show -/

/-- how often an *accepted* message may be notified at the receiving application, once the
    exchange is quiescent: QoS 2 exactly once, QoS 1 at least once (exactly once when no
    transport was lost), QoS 0 at most once -/
def deliveryOk (qos delivered : Nat) (noLoss : Bool) : Bool :=
  match qos with
  | 0 => decide (delivered ≤ 1)
  | 1 => decide (delivered ≥ 1) && (!noLoss || decide (delivered = 1))
  | _ => decide (delivered = 1)

/-- a message the sender refused locally is never seen by the peer -/
def refusedOk (delivered : Nat) : Bool := decide (delivered = 0)

end MqttVerif.Mon
