import MqttVerif.Conn.Types
/-!
# Property monitors: executable predicates over *observations*

The same definitions are (a) the conclusions of the theorems about the model (`Props/*.lean`)
and (b) evaluated by the driver on the **implementation's** own traces, which is how a broken
proof or broken correspondence is turned into a concrete replay.  They mention only what an
application can observe: the events of a call, and (for the hooked build) digest fields.
No imports outside the model: linked into `mqttdrv`.
-/
namespace MqttVerif.Mon
open MqttVerif.Conn

/-! ## C19 — close ordered after the last packet to flush -/

/-- no `RequestSendPacket` after a `RequestClose` in one event list -/
def closeAfterSend : List Ev → Bool
  | [] => true
  | .close :: rest => rest.all (fun e => match e with | .send _ _ => false | _ => true) && closeAfterSend rest
  | _ :: rest => closeAfterSend rest

def isSentDisconnect : Ev → Bool
  | .send p _ => p.kind = .disconnect
  | _ => false

/-- a sent CONNACK refusing the connection -/
def isSentRefusingConnack : Ev → Bool
  | .send p _ => p.kind = .connack ∧ p.rc ≠ some 0
  | _ => false

def hasClose (evs : List Ev) : Bool := evs.any (· = .close)

/-- every sent DISCONNECT / refusing CONNACK is accompanied by a close request in the same list -/
def disconnectHasClose (evs : List Ev) : Bool :=
  !(evs.any (fun e => isSentDisconnect e || isSentRefusingConnack e)) || hasClose evs

/-! ## C14 — Maximum Packet Size -/

def sentSizesWithin (pw limit : Nat) (evs : List Ev) : Bool :=
  evs.all fun e => match e with
    | .send p _ => p.sz pw ≤ limit
    | _ => true

/-! ## C15 — timer events describe a consistent timer -/

structure Armed where
  s : Bool := false
  r : Bool := false
  p : Bool := false
deriving DecidableEq, Repr, Inhabited

def Armed.get (a : Armed) : Timer → Bool
  | .pingreqSend => a.s | .pingreqRecv => a.r | .pingrespRecv => a.p

def Armed.set (a : Armed) (k : Timer) (b : Bool) : Armed :=
  match k with
  | .pingreqSend => { a with s := b } | .pingreqRecv => { a with r := b } | .pingrespRecv => { a with p := b }

/-- fold the timer events of one call over the ghost `armed` flags; `none` = a cancel was
    requested for a timer that was not armed -/
def timersStep : Armed → List Ev → Option Armed
  | a, [] => some a
  | a, .timerReset k _ :: rest => timersStep (a.set k true) rest
  | a, .timerCancel k :: rest => if a.get k then timersStep (a.set k false) rest else none
  | a, _ :: rest => timersStep a rest

def anyReset (evs : List Ev) : Bool := evs.any fun e => match e with | .timerReset _ _ => true | _ => false

/-! ## C13 — topic aliases resolve at the receiver (sender side) -/

/-- table of a spec-conformant receiver, learnt from the PUBLISH packets actually emitted -/
abbrev PeerTable := List (Nat × List Nat)

def peerLookup (a : Nat) : PeerTable → Option (List Nat)
  | [] => none
  | (k, v) :: rest => if k = a then some v else peerLookup a rest

/-- process one emitted v5.0 PUBLISH: `none` = not resolvable by the receiver -/
def peerStep (peerMax : Nat) (t : PeerTable) (p : Pkt) : Option PeerTable :=
  match p.alias with
  | none => if p.topic.isEmpty then none else some t
  | some a =>
    if a = 0 ∨ a > peerMax then none
    else if p.topic.isEmpty then (if (peerLookup a t).isSome then some t else none)
    else some ((a, p.topic) :: t.filter (·.1 ≠ a))

def peerStepEvs (peerMax : Nat) : PeerTable → List Ev → Option PeerTable
  | t, [] => some t
  | t, .send p _ :: rest =>
    if p.ver = 5 ∧ p.kind = .publish then
      match peerStep peerMax t p with
      | some t' => peerStepEvs peerMax t' rest
      | none => none
    else peerStepEvs peerMax t rest
  | t, _ :: rest => peerStepEvs peerMax t rest

/-! ## C08 — released identifiers -/

def releasedIds : List Ev → List Nat
  | [] => []
  | .released id :: rest => id :: releasedIds rest
  | _ :: rest => releasedIds rest

/-! ## C05 — every complete frame is delivered, answered as a duplicate, or reported -/

def frameAccounted (evs : List Ev) : Bool :=
  evs.any fun e => match e with
    | .recv _ => true
    | .error _ => true
    | .send p _ => p.kind = .pubrec         -- QoS 2 duplicate answered with PUBREC
    | _ => false

end MqttVerif.Mon
