/-!
# L3/L4 — abstract per-identifier QoS flow between two endpoints

One packet identifier, one direction of application messages: a sender automaton
(`idle | w1 | wRec | wComp`), the receiver's handled flag, two FIFO channels, transport loss
(everything in flight is discarded, both sides resume the persistent session: the sender
retransmits what it stores) and ghost counters for what the receiving application is told.
This is the specification-level system of DESIGN.md §5 C01 (stage 3); the multi-identifier
system is a product of these (the projection of a FIFO channel on one identifier is FIFO).
-/
namespace MqttVerif.Flow

inductive Snd | idle | w1 | wRec | wComp deriving DecidableEq, Repr
inductive F | pub1 | pub2 | rel deriving DecidableEq, Repr      -- sender → receiver
inductive B | ack | prec | comp deriving DecidableEq, Repr       -- receiver → sender

structure Sys where
  snd : Snd := .idle
  handled : Bool := false          -- receiver's qos2_publish_handled ∋ id
  fwd : List F := []
  bwd : List B := []
  err : Bool := false              -- some endpoint reported a protocol error about its peer
  notified : Nat := 0              -- notifications of the current exchange's message (ghost)
  lost : Bool := false             -- the transport was lost during the current exchange (ghost)
  done1 : Nat := 0                 -- completed QoS 1 exchanges (ghost)
  told1 : Nat := 0                 -- QoS 1 notifications of completed exchanges (ghost)
  done2 : Nat := 0                 -- completed QoS 2 exchanges (ghost)
  told2 : Nat := 0                 -- QoS 2 notifications in total (ghost)
  dup1 : Nat := 0                  -- completed QoS 1 exchanges that saw a loss (ghost)
deriving DecidableEq, Repr

inductive Act | send1 | send2 | deliverF | deliverB | loseResume deriving DecidableEq, Repr

/-- what a resuming sender retransmits (its store) -/
def resend : Snd → List F
  | .idle => [] | .w1 => [.pub1] | .wRec => [.pub2] | .wComp => [.rel]

def step (s : Sys) : Act → Sys
  | .send1 => if s.snd = .idle then { s with snd := .w1, fwd := s.fwd ++ [.pub1], notified := 0, lost := false } else s
  | .send2 => if s.snd = .idle then { s with snd := .wRec, fwd := s.fwd ++ [.pub2], notified := 0, lost := false } else s
  | .deliverF =>
    match s.fwd with
    | [] => s
    | .pub1 :: t => { s with fwd := t, bwd := s.bwd ++ [.ack], notified := s.notified + 1 }
    | .pub2 :: t =>
      if s.handled then { s with fwd := t, bwd := s.bwd ++ [.prec] }
      else { s with fwd := t, bwd := s.bwd ++ [.prec], handled := true,
                    notified := s.notified + 1, told2 := s.told2 + 1 }
    | .rel :: t => { s with fwd := t, bwd := s.bwd ++ [.comp], handled := false }
  | .deliverB =>
    match s.bwd with
    | [] => s
    | .ack :: t =>
      if s.snd = .w1 then
        { s with bwd := t, snd := .idle, done1 := s.done1 + 1, told1 := s.told1 + s.notified,
                 dup1 := s.dup1 + (if s.lost then 1 else 0) }
      else { s with bwd := t, err := true }
    | .prec :: t => if s.snd = .wRec then { s with bwd := t, snd := .wComp, fwd := s.fwd ++ [.rel] }
                   else { s with bwd := t, err := true }
    | .comp :: t => if s.snd = .wComp then { s with bwd := t, snd := .idle, done2 := s.done2 + 1 }
                    else { s with bwd := t, err := true }
  | .loseResume => { s with fwd := resend s.snd, bwd := [], lost := true }

/-- remaining work: every delivery strictly decreases it -/
def wF : F → Nat | .pub1 => 2 | .pub2 => 4 | .rel => 2
def wB : B → Nat | .ack => 1 | .prec => 3 | .comp => 1
def weight (s : Sys) : Nat := (s.fwd.map wF).sum + (s.bwd.map wB).sum

end MqttVerif.Flow
