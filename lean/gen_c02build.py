# generates MqttVerif/Props/C02Build.lean
hdr = '''import MqttVerif.Codec.LemmasBuild5
import MqttVerif.Props.C02
import MqttVerif.Props.C03
/-!
# C02 (builders) — `build()` establishes `Packet.wf`, keeps the requested field values, and
therefore its result round-trips

`Codec/Build.lean` is the model of the 29 builders (`Args.build : Args → Except BuildError Packet`,
run next to the real builders on every `B` line of the codec traces).  Here:

* `build_ok_wf_<kind>` / **`build_ok_wf`**: whatever a builder returns with `Ok` satisfies the
  well-formedness checks `Packet.wf` — the hypothesis of `C02_all` / `C03_encode_eq_spec`;
* `build_fields_<kind>` / **`build_fields`**: the abstract field values of the result
  (`Packet.abs`, the packet of the wire specification) are the arguments with the defaults
  filled in (`Args.abs`, defined without reference to `build`);
* **`C02_builder_roundtrip`**: the two together with `C02_all`.

Hypotheses: `Args.typed` (what the Rust argument types guarantee: `&str` is UTF-8, `u16` < 65536,
enum arguments are variants, `Property` values came out of their constructors, ids fit their
type) and `Args.fits32` (the size `build()` computes in `usize` is below 2³², so that no
`as u32` cast truncates; without it the statement is FALSE for the code as written — a ≥ 4 GiB
argument list yields `Ok` with truncated cached lengths).
-/
namespace MqttVerif.Props.C02Build
open MqttVerif.Codec MqttVerif.Spec.Wire

theorem map_ok_inv {ε α β : Type} {f : α → β} {x : Except ε α} {p : β} (h : x.map f = .ok p) :
    ∃ q, x = .ok q ∧ f q = p := by
  cases x with
  | error e => cases h
  | ok q => exact ⟨q, rfl, by injection h⟩

theorem bitN_beq (b : Bool) : (bitN b == 1) = b := by cases b <;> rfl
theorem bitN_mod_beq (b : Bool) : (bitN b % 2 == 1) = b := by cases b <;> rfl

theorem optSome_getD (s : Option (List Nat)) : (if s.isSome = true then some (s.getD []) else none) = s := by
  cases s <;> rfl

theorem absConnect_eq (level : Nat) (cs : Option Bool) (will : Option WillArgs) (user pass : Option (List Nat))
    (ka : Nat) (props : Option Props) (cid : List Nat) (wprops : Option Props) (hq : willQosOf will ≤ 2) :
    absConnect level (connectFlagsOf cs will user.isSome pass.isSome) ka props cid wprops (willTopicOf will)
        (willPayloadOf will) (user.getD []) (pass.getD [])
      = .connect level (cs.getD true) ka (props.map Props.abs) cid (will.map (absWill wprops)) user pass := by
  obtain ⟨_, _, f3, f4, f5, f6, f7, f8⟩ := connectFlagsOf_facts cs will user.isSome pass.isSome hq
  unfold absConnect
  rw [f3, f4, f5, f6, f7, f8, bitN_beq, bitN_beq, optSome_getD, optSome_getD]
  cases will <;> rfl

theorem willQos_le {w : Option WillArgs} (ht : willTyped w = true) : willQosOf w ≤ 2 := by
  cases w with
  | none => simp [willQosOf]
  | some x => simp only [willTyped, Bool.and_eq_true, decide_eq_true_eq] at ht; exact ht.2

'''

# (kind, argsType or None, pktType, buildExpr, needs_pw, typedPattern, lemmaCall, absTactic)
K = []
def add(kind, argsT, pktT, build, typed_pat, lemma, after):
    K.append(dict(kind=kind, argsT=argsT, pktT=pktT, build=build, typed_pat=typed_pat, lemma=lemma, after=after))

for k in ['puback','pubrec','pubrel','pubcomp']:
    add(k+'3','Ack3Args','Ack3','a.build pw','⟨t1, t2⟩',
        f'Ack3Args.build_ok (k := .{k}) hpw t1 t2 h',
        ('⟨hw, hpid, hrc⟩', 'simp [Packet.abs, Args.abs, hpid, hrc]'))
    add(k+'5','Ack5Args','Ack5','a.build pw','⟨⟨t1, t2⟩, t3⟩',
        f'Ack5Args.build_ok (k := .{k}) t1 t2 t3 hf h',
        ('⟨hw, hpid, hrc, hps⟩', 'simp [Packet.abs, Args.abs, hpid, hrc, hps]'))
add('connack3','Connack3Args','Connack3','a.build','t1','Connack3Args.build_ok t1 h',
    ('⟨hw, sp, rc, h1, h2, h3, h4⟩', 'simp [Packet.abs, Args.abs, h1, h2, h3, h4, bitN_mod_beq]'))
add('connack5','Connack5Args','Connack5','a.build','⟨t1, t2⟩','Connack5Args.build_ok t1 t2 hf h',
    ('⟨hw, hps, sp, rc, h1, h2, h3, h4⟩', 'simp [Packet.abs, Args.abs, h1, h2, h3, h4, hps, bitN_mod_beq]'))
add('unsuback3','Unsuback3Args','Unsuback3','a.build pw','t1','Unsuback3Args.build_ok hpw t1 h',
    ('⟨hw, hpid⟩', 'simp [Packet.abs, Args.abs, hpid]'))
add('suback3','Suback3Args','Suback3','a.build pw','⟨t1, t2⟩','Suback3Args.build_ok t1 t2 hf h',
    ('⟨hw, hpid, hc⟩', 'simp [Packet.abs, Args.abs, hpid, hc]'))
add('subscribe3','Subscribe3Args','Subscribe3','a.build pw','⟨t1, t2⟩','Subscribe3Args.build_ok t1 t2 hf h',
    ('⟨hw, hpid, hc⟩', 'simp [Packet.abs, Args.abs, hpid, hc]'))
add('unsubscribe3','Unsubscribe3Args','Unsubscribe3','a.build pw','⟨t1, t2⟩','Unsubscribe3Args.build_ok t1 t2 hf h',
    ('⟨hw, hpid, hc⟩', 'simp [Packet.abs, Args.abs, hpid, hc]'))
add('suback5','Codes5Args','Codes5','a.build pw','⟨⟨t1, t2⟩, t3⟩','Codes5Args.build_ok (rcOk := subackRc5Ok) t1 t2 t3 hf h',
    ('⟨hw, hpid, hps, hc⟩', 'simp [Packet.abs, Args.abs, hpid, hc, hps]'))
add('unsuback5','Codes5Args','Codes5','a.build pw','⟨⟨t1, t2⟩, t3⟩','Codes5Args.build_ok (rcOk := unsubackRc5Ok) t1 t2 t3 hf h',
    ('⟨hw, hpid, hps, hc⟩', 'simp [Packet.abs, Args.abs, hpid, hc, hps]'))
add('subscribe5','Subscribe5Args','Subscribe5','a.build pw','⟨⟨t1, t2⟩, t3⟩','Subscribe5Args.build_ok t1 t2 t3 hf h',
    ('⟨hw, hpid, hps, hc⟩', 'simp [Packet.abs, Args.abs, hpid, hc, hps]'))
add('unsubscribe5','Unsubscribe5Args','Unsubscribe5','a.build pw','⟨⟨t1, t2⟩, t3⟩','Unsubscribe5Args.build_ok t1 t2 t3 hf h',
    ('⟨hw, hpid, hps, hc⟩', 'simp [Packet.abs, Args.abs, hpid, hc, hps]'))
add('publish3','Publish3Args','Publish3','a.build pw','⟨⟨t1, t2⟩, t3⟩','Publish3Args.build_ok t1 t2 t3 hf h',
    ('⟨hw, h1, h2, h3, h4⟩', 'obtain ⟨_, _, g3, g4, g5⟩ := fhOf_facts a.qos a.dup a.retain (qos_le_of_typed t2)\n    simp [Packet.abs, Args.abs, h1, h2, h3, h4, g3, g4, g5, bitN_beq]'))
add('publish5','Publish5Args','Publish5','a.build pw','⟨⟨⟨t1, t2⟩, t3⟩, t4⟩','Publish5Args.build_ok t1 t2 t3 t4 hf h',
    ('⟨hw, h1, h2, h3, h4, h5⟩', 'obtain ⟨_, _, g3, g4, g5⟩ := fhOf_facts a.qos a.dup a.retain (qos_le_of_typed t2)\n    simp [Packet.abs, Args.abs, h1, h2, h3, h4, h5, g3, g4, g5, bitN_beq]'))
add('connect3','Connect3Args','Connect3','a.build','⟨⟨⟨⟨t1, t2⟩, t3⟩, t4⟩, t5⟩','Connect3Args.build_ok t1 t2 t3 t4 t5 hf h',
    ('⟨hw, h1, h2, h3, h4, h5, h6, h7⟩', 'simp only [Packet.abs, Args.abs, h1, h2, h3, h4, h5, h6, h7]\n    exact absConnect_eq 4 _ _ _ _ _ none _ none (willQos_le t2)'))
add('connect5','Connect5Args','Connect5','a.build','⟨⟨⟨⟨⟨⟨t1, t2⟩, t3⟩, t4⟩, t5⟩, t6⟩, t7⟩','Connect5Args.build_ok t1 t2 t3 t4 t5 t6 t7 hf h',
    ('⟨hw, h1, h2, h3, h4, h5, h6, h7, h8, h9⟩', 'simp only [Packet.abs, Args.abs, h1, h2, h3, h4, h5, h6, h7, h8, h9]\n    exact absConnect_eq 5 _ _ _ _ _ (some _) _ (some _) (willQos_le t2)'))
add('disconnect5','RcProps5Args','RcProps5','Disconnect5Args.build a','⟨t1, t2⟩','Disconnect5Args.build_ok t1 t2 hf h',
    ('⟨hw, h1, h2⟩', 'simp [Packet.abs, Args.abs, h1, h2]'))
add('auth5','RcProps5Args','RcProps5','Auth5Args.build a','⟨t1, t2⟩','Auth5Args.build_ok t1 t2 hf h',
    ('⟨hw, h1, h2⟩', 'simp [Packet.abs, Args.abs, h1, h2]'))
EMPTY = ['pingreq3','pingresp3','disconnect3','pingreq5','pingresp5']

order = ['connect3','connack3','publish3','puback3','pubrec3','pubrel3','pubcomp3','subscribe3','suback3','unsubscribe3','unsuback3',
         'pingreq3','pingresp3','disconnect3','connect5','connack5','publish5','puback5','pubrec5','pubrel5','pubcomp5','subscribe5','suback5',
         'unsubscribe5','unsuback5','pingreq5','pingresp5','disconnect5','auth5']
byk = {d['kind']: d for d in K}

out = [hdr]
out.append("/-! ## one theorem per packet kind: `wf` and the field values -/\n")
for k in order:
    if k in EMPTY:
        out.append(f'''theorem build_{k} (pw : Nat) (q : Codec.Empty) (h : buildEmpty = .ok q) :
    (Packet.{k} q).wf pw = true ∧ Packet.abs (.{k} q) = Args.abs .{k} := by
  refine ⟨?_, rfl⟩
  simpa [Packet.wf, Packet.checks] using buildEmpty_ok h
''')
        continue
    d = byk[k]
    single = not d['typed_pat'].startswith('⟨')
    typed_simp = "  simp only [Args.typed] at ht\n  have t1 := ht\n" if single else f"  simp only [Args.typed, Bool.and_eq_true] at ht\n  obtain {d['typed_pat']} := ht\n"
    pat, abs_tac = d['after']
    out.append(f'''theorem build_{k} (pw : Nat) (hpw : pw = 2 ∨ pw = 4) (a : {d['argsT']}) (q : {d['pktT']})
    (ht : (Args.{k} a).typed pw = true) (hf : (Args.{k} a).fits32 pw) (h : {d['build']} = .ok q) :
    (Packet.{k} q).wf pw = true ∧ Packet.abs (.{k} q) = Args.abs (.{k} a) := by
  have _ := hpw
  have _ := hf
{typed_simp}  simp only [Args.fits32, Args.rawSize] at hf
  obtain {pat} := {d['lemma']}
  refine ⟨by simpa [Packet.wf, Packet.checks] using hw, ?_⟩
  · {abs_tac}
''')

# combined
out.append('''/-! ## all 29 kinds -/

/-- for every builder: an `Ok` result is well-formed and carries the requested field values -/
theorem build_ok (pw : Nat) (hpw : pw = 2 ∨ pw = 4) (a : Args) (p : Packet)
    (ht : a.typed pw = true) (hf : a.fits32 pw) (h : a.build pw = .ok p) :
    p.wf pw = true ∧ Packet.abs p = a.abs ∧ p.version = a.version := by
  cases a with
''')
for k in order:
    if k in EMPTY:
        out.append(f'''  | {k} =>
    simp only [Args.build] at h
    obtain ⟨q, hq, rfl⟩ := map_ok_inv h
    exact ⟨(build_{k} pw q hq).1, (build_{k} pw q hq).2, rfl⟩
''')
    else:
        out.append(f'''  | {k} a =>
    simp only [Args.build] at h
    obtain ⟨q, hq, rfl⟩ := map_ok_inv h
    exact ⟨(build_{k} pw hpw a q ht hf hq).1, (build_{k} pw hpw a q ht hf hq).2, rfl⟩
''')
out.append('''
/-- **build_ok_wf** — the missing link of C02: what a builder returns satisfies `Packet.wf`
    (every kind, both packet-id widths) -/
theorem build_ok_wf (pw : Nat) (hpw : pw = 2 ∨ pw = 4) (a : Args) (p : Packet)
    (ht : a.typed pw = true) (hf : a.fits32 pw) (h : a.build pw = .ok p) : p.wf pw = true :=
  (build_ok pw hpw a p ht hf h).1

/-- **build_fields** — the abstract fields of the built packet are the builder arguments, defaults
    filled in (`Args.abs` does not mention `build`) -/
theorem build_fields (pw : Nat) (hpw : pw = 2 ∨ pw = 4) (a : Args) (p : Packet)
    (ht : a.typed pw = true) (hf : a.fits32 pw) (h : a.build pw = .ok p) : Packet.abs p = a.abs :=
  (build_ok pw hpw a p ht hf h).2.1

/-- **C02_builder_roundtrip** — a packet that came out of a builder: its serialisation is
    `fixed header :: vbi(remaining_length) ++ body`, the parser of its version returns an equal
    packet and consumes the body, `size()` is the serialised length, the Remaining Length on the
    wire is the body length; the bytes are the specification's encoding of the requested field
    values, and parsing them gives back a packet with exactly those field values. -/
theorem C02_builder_roundtrip (pw : Nat) (hpw : pw = 2 ∨ pw = 4) (a : Args) (p : Packet)
    (ht : a.typed pw = true) (hf : a.fits32 pw) (h : a.build pw = .ok p) :
    (∃ fh body, p.encode pw = fh :: vbiEnc p.remLen ++ body ∧
      frameBody (p.encode pw) = some (fh, p.remLen, body) ∧
      Packet.parse a.version pw fh body = some (.ok p body.length) ∧
      p.size = (p.encode pw).length ∧ p.remLen = body.length)
    ∧ p.encode pw = a.abs.encode pw := by
  obtain ⟨hw, ha, hv⟩ := build_ok pw hpw a p ht hf h
  refine ⟨?_, ?_⟩
  · rw [← hv]; exact C02.C02_all pw p hpw hw
  · rw [← ha]; exact C03.C03_encode_eq_spec pw p hpw hw

/-! ## what the proof attempts found in the code as written

Both hypotheses of `build_ok` are needed, and `Ok`/`Err` are not the only outcomes of `build()`. -/

/-- **`fits32` cannot be dropped** (`remaining as u32`, `props_size as u32` truncate): a well-typed
    SUBACK call with 2³² − 1 return codes is answered with `Ok`, and the packet's cached Remaining
    Length is 1 (same pattern in every builder that sums list sizes) -/
theorem fits32_necessary_of (codes : List Nat) (hl : codes.length = 4294967295) (hc : codes.all subackRc3Ok = true) :
    (Args.suback3 { pid := some 1, codes := some codes }).typed 2 = true ∧
      ∃ p, (Args.suback3 { pid := some 1, codes := some codes }).build 2 = .ok p ∧ p.wf 2 = false := by
  have hne : codes.isEmpty = false := by
    cases codes with
    | nil => simp at hl
    | cons _ _ => rfl
  refine ⟨?_, .suback3 { remLen := 1, pid := 1, codes := codes }, ?_, ?_⟩
  · simp [Args.typed, optPidTyped, optCodesTyped, hc]
  · simp [Args.build, Suback3Args.build, needPid, listEmptyOrUnset, hne, vbiB, asU32, vbiMax, Except.map, hl]
  · simp [Packet.wf, Packet.checks, Suback3.checks, allOk, hl]

theorem all_replicate (f : Nat → Bool) (h : f 0 = true) (n : Nat) : (List.replicate n 0).all f = true := by
  induction n with
  | zero => rfl
  | succ m ih => simp [List.replicate_succ, h]

theorem fits32_necessary : ∃ (a : Args) (p : Packet), a.typed 2 = true ∧ a.build 2 = .ok p ∧ p.wf 2 = false :=
  have h := fits32_necessary_of (List.replicate 4294967295 0) List.length_replicate (all_replicate _ (by decide) _)
  ⟨_, h.2.choose, h.1, h.2.choose_spec⟩

/-- **a builder can panic**: `validate()` of PUBLISH bounds the payload (≤ 268 435 455 bytes), not
    the Remaining Length; with a payload of that size and any topic,
    `VariableByteInteger::from_u32(remaining as u32).unwrap()` is an `unwrap()` on `None`
    (well-typed arguments, far below 2³²) -/
theorem publish_build_panics_of (payload : List Nat) (hl : payload.length = 268435455) :
    (Args.publish3 { topic := some [116], payload := some payload }).typed 2 = true ∧
    (Args.publish3 { topic := some [116], payload := some payload }).fits32 2 ∧
      (Args.publish3 { topic := some [116], payload := some payload }).build 2
        = .error (.panic "v3_1_1::publish::build:remaining_length") := by
  refine ⟨?_, ?_, ?_⟩
  · simp [Args.typed, optStrTyped, optCodeTyped, optPidTyped]; decide
  · simp [Args.fits32, Args.rawSize, strSize, hl]
  · simp [Args.build, Publish3Args.build, topicSetterFails, tooLong, publishHeader, publishPidBad, payloadTooBig,
      vbiB, asU32, vbiMax, strSize, Except.map, hl]

end MqttVerif.Props.C02Build
''')
open('MqttVerif/Props/C02Build.lean','w').write("\n".join(out))
