import MqttVerif.Props.C09
import MqttVerif.Props.C18
import MqttVerif.Props.C20
