-- Root of the library.  The property theorem files (`MqttVerif/Props/Cxx.lean`) are built one
-- by one (`./check setup`, `./check <Cxx>`): their helper-lemma files were developed
-- independently and reuse some lemma names, so they are deliberately not imported together.
import MqttVerif.Conn.Step
import MqttVerif.Monitors
